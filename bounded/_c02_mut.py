import sys, json
import bounded.C02 as b
from urwid import canvas as UC, util
import spec.grid as G
which = sys.argv[1]
if which == "a":
    UC.cview_trim_left = lambda cv, trim: (cv[0] + trim, cv[1], cv[2] - trim) + cv[3:] if trim != 2 else (cv[0] + 1, cv[1], cv[2] - trim) + cv[3:]
elif which == "b":
    orig = util.calc_trim_text
    def f(text, so, eo, sc, ec):
        s, e, pl, pr = orig(text, so, eo, sc, ec)
        return (s, e, pl, 0)
    UC.trim_text_attr_cs.__globals__["calc_trim_text"] = f
elif which == "c":
    o = UC.CompositeCanvas.trim
    def t(self, top, count=None):
        co = dict(self.coords); o(self, top, count); self.coords = co
    UC.CompositeCanvas.trim = t
elif which == "d":
    def ptb(self, top, bottom):
        if top < 0 or bottom < 0:
            trim_top = max(0, -top); rows = self.rows() - trim_top - max(0, -bottom); self.trim(trim_top, rows)
        cols = self.cols()
        if top > 0:
            self.shards = [(top, [(0, 0, cols, top, None, UC.blank_canvas)]), *self.shards]
            self.coords = self.translate_coords(0, top)
        if bottom > 0:
            self.shards.append((bottom, [(0, 0, cols, bottom, None, UC.blank_canvas)]))
    UC.CompositeCanvas.pad_trim_top_bottom = ptb
elif which == "e":
    o = UC.CompositeCanvas.overlay
    def ov(self, other, left, top):
        o(self, other, left, top)
        if "cursor" in other.coords: other.coords["cursor"] = (9, 9, None)
    UC.CompositeCanvas.overlay = ov
elif which == "f":
    def te(self, end):
        self.shards = UC.shards_trim_rows(self.shards, self.rows() - end)
    UC.CompositeCanvas.trim_end = te
elif which == "g":  # break the reference: cut wide char keeps attr None
    o = G.cut_row
    def cr(row, a, b_):
        seg, c = o(row, a, b_)
        return [G.space(None, x.pre) if (x.text == b" " and c) else x for x in seg], c
    G.cut_row = cr
elif which == "h":  # delta: pretend everything unchanged
    UC.CompositeCanvas.content_delta = lambda self, other: [[self.cols()]] * self.rows()
elif which == "i":  # attr composition wrong
    def faa(self, mapping):
        shards = []
        for num_rows, original_cviews in self.shards:
            new_cviews = []
            for cv in original_cviews:
                if cv[4] is None: new_cviews.append(cv[:4] + (mapping,) + cv[5:])
                else:
                    combined = dict(cv[4]); combined.update(mapping)
                    new_cviews.append(cv[:4] + (combined,) + cv[5:])
            shards.append((num_rows, new_cviews))
        self.shards = shards
    UC.CompositeCanvas.fill_attr_apply = faa
r = b.run("quick", 0)
print(which, {c["name"].split("/")[1]: (c["evaluations"], len(c["failures"])) for c in r["checks"]})
for c in r["checks"]:
    if c["failures"] and c["name"].split("/")[1] not in ("content-delta", "canvas-protocol-degenerate"):
        f = c["failures"][0]
        print("  ", c["name"], json.dumps({k: v for k, v in f.items() if k in ("expr", "why", "at")}, ensure_ascii=False)[:400])
        break
