import itertools, sys, weakref
import urwid
from urwid import signals as usig
import bounded.C14 as b
S = usig.Signals
orig = {k: getattr(S, k) for k in ("emit", "_call_callback", "connect", "disconnect", "disconnect_by_key", "_prepare_user_args")}

def emit_live(self, obj, name, *args):
    result = False
    handlers = getattr(obj, self._signal_attr, {}).get(name, [])
    for _k, cb, ua, (wa, usa) in handlers:
        result |= self._call_callback(cb, ua, wa, usa, args)
    return result
def emit_last(self, obj, name, *args):
    result = False
    for _k, cb, ua, (wa, usa) in tuple(getattr(obj, self._signal_attr, {}).get(name, [])):
        result = self._call_callback(cb, ua, wa, usa, args)
    return result
def emit_rev(self, obj, name, *args):
    result = False
    for _k, cb, ua, (wa, usa) in reversed(tuple(getattr(obj, self._signal_attr, {}).get(name, []))):
        result |= self._call_callback(cb, ua, wa, usa, args)
    return result
def call_nodeadcheck(self, callback, user_arg, weak_args, user_args, emit_args):
    a = [w() for w in weak_args]
    return bool(callback(*itertools.chain(a, user_args, emit_args, (user_arg,) if user_arg is not None else ())))
def call_userfirst(self, callback, user_arg, weak_args, user_args, emit_args):
    a = [w() for w in weak_args]
    if None in a: return False
    return bool(callback(*itertools.chain(user_args, a, emit_args, (user_arg,) if user_arg is not None else ())))
def call_uarg_first(self, callback, user_arg, weak_args, user_args, emit_args):
    a = [w() for w in weak_args]
    if None in a: return False
    return bool(callback(*itertools.chain(a, user_args, (user_arg,) if user_arg is not None else (), emit_args)))
KEEP = []
def connect_keep_sender(self, obj, name, callback, user_arg=None, *, weak_args=(), user_args=()):
    k = orig["connect"](self, obj, name, callback, user_arg, weak_args=weak_args, user_args=user_args)
    KEEP.append(obj); return k
def connect_keep_weak(self, obj, name, callback, user_arg=None, *, weak_args=(), user_args=()):
    weak_args = list(weak_args)
    k = orig["connect"](self, obj, name, callback, user_arg, weak_args=weak_args, user_args=user_args)
    getattr(obj, "_urwid_signals")[name].append  # noqa
    obj.__dict__.setdefault("_strong", []).extend(weak_args); return k
def connect_noname(self, obj, name, callback, user_arg=None, *, weak_args=(), user_args=()):
    self._supported.setdefault(obj.__class__, [])
    if name not in self._supported[obj.__class__]:
        sup = self._supported[obj.__class__]; self._supported[obj.__class__] = [*sup, name]
        try: return orig["connect"](self, obj, name, callback, user_arg, weak_args=weak_args, user_args=user_args)
        finally: self._supported[obj.__class__] = sup
    return orig["connect"](self, obj, name, callback, user_arg, weak_args=weak_args, user_args=user_args)
def dbk_noop(self, obj, name, key): pass
def dbk_all(self, obj, name, key):
    h = usig.setdefaultattr(obj, self._signal_attr, {}).get(name, [])
    if any(x[0] is key for x in h): h[:] = []
def disc_callback_only(self, obj, name, callback, user_arg=None, *, weak_args=(), user_args=()):
    for h in getattr(obj, self._signal_attr, {}).get(name, []):
        if h[1] == callback: return self.disconnect_by_key(obj, name, h[0])
def disc_raises(self, obj, name, callback, user_arg=None, *, weak_args=(), user_args=()):
    sig = getattr(obj, self._signal_attr)[name]
    return orig["disconnect"](self, obj, name, callback, user_arg, weak_args=weak_args, user_args=user_args)
def prep_noauto(self, weak_args=(), user_args=(), callback=None):
    return (tuple(weakref.ref(w) for w in weak_args), tuple(user_args))

MUT = {"emit_live": ("emit", emit_live), "emit_last": ("emit", emit_last), "emit_rev": ("emit", emit_rev),
       "nodeadcheck+noauto": ("_call_callback", call_nodeadcheck), "userfirst": ("_call_callback", call_userfirst), "uarg_first": ("_call_callback", call_uarg_first),
       "keep_sender": ("connect", connect_keep_sender), "keep_weak": ("connect", connect_keep_weak), "noname": ("connect", connect_noname),
       "dbk_noop": ("disconnect_by_key", dbk_noop), "dbk_all": ("disconnect_by_key", dbk_all), "disc_cb_only": ("disconnect", disc_callback_only), "disc_raises": ("disconnect", disc_raises),
       "noauto_only": ("_prepare_user_args", prep_noauto)}
for name, (attr, fn) in MUT.items():
    if len(sys.argv) > 1 and name not in sys.argv[1:]: continue
    setattr(S, attr, fn)
    PUB = {"emit": "emit_signal", "connect": "connect_signal", "disconnect": "disconnect_signal", "disconnect_by_key": "disconnect_signal_by_key"}
    saved = {}
    if attr in PUB:
        for mod in (urwid, usig):
            saved[mod] = getattr(mod, PUB[attr]); setattr(mod, PUB[attr], getattr(usig._signals, attr))
    if name == "nodeadcheck+noauto": S._prepare_user_args = prep_noauto
    try:
        r = b.run("quick", 0)
    finally:
        for k, v in orig.items(): setattr(S, k, v)
        for mod, v in saved.items(): setattr(mod, PUB[attr], v)
        del KEEP[:]
    print(name, {c["name"].split("/")[1]: len(c["failures"]) for c in r["checks"]})
    for c in r["checks"]:
        if c["failures"]:
            print("    e.g.", c["name"], c["failures"][0]["why"][:300]); break
