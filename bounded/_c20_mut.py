"""Dev tool (not part of the evidence): shows that the C20 bounded checks can fail.  Mutates the code
under test IN PROCESS ONLY (source of the method is re-compiled with one textual change and assigned to
the class; nothing under /repo is touched) and runs a sample of the quick-tier jobs.

    cd /verif && PYTHONPATH=/verif .venv/bin/python bounded/_c20_mut.py
"""
import inspect
import textwrap

import urwid.widget.listbox as lbmod
import urwid.widget.scrollable as mod

import bounded.C20 as b



def mutate(cls, meth, old, new, module=mod):
    fn = cls.__dict__[meth]
    fn = getattr(fn, "__wrapped__", fn)
    src = textwrap.dedent(inspect.getsource(fn))
    assert src.count(old) == 1, (meth, old, src.count(old))
    ns = {}
    exec(compile("from __future__ import annotations\n" + src.replace(old, new), f"<mutant {meth}>", "exec"), module.__dict__, ns)  # noqa: S102
    orig = cls.__dict__[meth]
    setattr(cls, meth, ns[meth])
    return lambda: setattr(cls, meth, orig)


def sample_run():
    jobs = []
    for i, cfg in enumerate(b.scroll_configs("quick")):
        if i % 5 == 0:
            jobs.append(("scroll", i, cfg, "quick", {"maxlen": 2, "modes": i % 20 == 0, "random": []}))
    for i, cfg in enumerate(b.lb_configs("quick")):
        if i % 3 == 0:
            jobs.append(("lb", 1000 + i, cfg, "quick", {"maxlen": 2, "random": []}))
    import multiprocessing

    with multiprocessing.get_context("fork").Pool(16) as pool:
        parts = pool.map(b._work, jobs, chunksize=1)
    red = {}
    for part in parts:
        for name, (_ev, _di, fails, _s, classes) in part.items():
            if fails:
                red[name] = red.get(name, 0) + sum(classes.values())
    return red


MUTANTS = [
    ("clamp allows one row past the end", mod.Scrollable, "_adjust_trim_top", "max(0, min(canv_rows - maxrow, new_trim_top))", "max(0, min(canv_rows - maxrow + 1, new_trim_top))"),
    ("negative positions off by one", mod.Scrollable, "_adjust_trim_top", "canv_rows - maxrow + trim_top + 1", "canv_rows - maxrow + trim_top"),
    ("line down moves two rows", mod.Scrollable, "_adjust_trim_top", "ensure_bounds(trim_top + 1)", "ensure_bounds(trim_top + 2)"),
    ("get_scrollpos reports one more", mod.Scrollable, "get_scrollpos", "return self._trim_top", "return self._trim_top + 1"),
    ("handled keys also scroll", mod.Scrollable, "keypress", "key = ow.keypress(ow_size, key)\n        if key is None:\n            return None", "ow.keypress(ow_size, key)"),
    ("render trims one row too few at the end", mod.Scrollable, "render", "trim_end = canv_rows - maxrow - trim_top", "trim_end = canv_rows - maxrow - trim_top - 1"),
    ("no right padding of narrow content", mod.Scrollable, "render", "canv.pad_trim_left_right(0, pad_width)", "canv.pad_trim_left_right(pad_width, 0)"),
    ("bar drawn when content just fits", mod.ScrollBar, "render", "if ow_base.rows_max(size, focus) > maxrow:", "if ow_base.rows_max(size, focus) >= maxrow:"),
    ("thumb may stay on top when scrolled", mod.ScrollBar, "render", "if top_height == 0 and top_weight > 0:", "if False:"),
    ("thumb position inverted", mod.ScrollBar, "render", "top_height = int((maxrow - thumb_height) * top_weight)", "top_height = int((maxrow - thumb_height) * (1 - top_weight))"),
    ("pre-fix one-row view (thumb keeps its row)", mod.ScrollBar, "render", "thumb_height = min(thumb_height, maxrow - top_height)", "pass"),
    ("wrapped widget gets one column less", mod.ScrollBar, "render", "ow_size = (max(0, maxcol - self._scrollbar_width), maxrow)", "ow_size = (max(0, maxcol - self._scrollbar_width - 1), maxrow)"),
    ("wheel ignores that the child handled it", mod.ScrollBar, "mouse_event", "if not handled and hasattr", "if hasattr"),
]

if __name__ == "__main__":
    base = sample_run()
    print("unchanged tree (failing evaluations, all from the reported findings):", base)
    for title, cls, meth, old, new in MUTANTS:
        undo = mutate(cls, meth, old, new)
        try:
            red = sample_run()
        finally:
            undo()
        diff = {k: (base.get(k, 0), red.get(k, 0)) for k in sorted(set(base) | set(red)) if base.get(k, 0) != red.get(k, 0)}
        print(f"{'KILLED  ' if diff else 'SURVIVED'} {title}: failing evaluations (unchanged, mutant) {diff}")
