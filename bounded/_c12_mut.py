"""Sanity mutations for bounded/C12.py: in-process monkey-patches of the code under test (never the files in
/repo), applied inside the forked session child when a case carries {"mutate": <name>}.  Each mutation must turn
the named check red; run:  PYTHONPATH=/verif .venv/bin/python -m bounded._c12_mut
"""
from __future__ import annotations


def apply(name):
    import urwid
    from urwid.event_loop import main_loop as ml

    if name == "no-idle-redraw":
        ml.MainLoop.entering_idle = lambda self: None
    elif name == "unhandled-always":
        orig = ml.MainLoop.process_input

        def process_input(self, keys):
            rv = orig(self, keys)
            for k in keys:
                if isinstance(k, str) and k == "a":
                    self.unhandled_input(k)
            return rv

        ml.MainLoop.process_input = process_input
    elif name == "reversed-keys":
        orig = ml.MainLoop.process_input
        ml.MainLoop.process_input = lambda self, keys: orig(self, list(keys)[::-1])
    elif name == "no-stop-on-exception":

        def _run(self):
            self.start()
            self.event_loop.run()
            self.stop()

        ml.MainLoop._run = _run
    elif name == "swallow-exceptions":
        orig = ml.MainLoop._run

        def _run(self):
            try:
                orig(self)
            except Exception:  # noqa: BLE001
                pass

        ml.MainLoop._run = _run
    elif name == "wrap-exceptions":
        orig = ml.MainLoop._run

        def _run(self):
            try:
                orig(self)
            except urwid.ExitMainLoop:
                raise
            except Exception as e:  # noqa: BLE001
                raise RuntimeError("wrapped") from e

        ml.MainLoop._run = _run
    elif name == "no-termios-restore":
        import termios

        termios.tcsetattr = lambda *a, **k: None
    elif name == "keep-mouse-on":
        from urwid.display import _raw_display_base as rb

        orig = rb.Screen._mouse_tracking
        rb.Screen._mouse_tracking = lambda self, enable: orig(self, True) if enable else None
    elif name == "keep-cursor-hidden":
        from urwid.display import escape

        escape.SHOW_CURSOR = ""
    elif name == "keep-sigwinch":
        from urwid.display import _posix_raw_display as pr

        pr.Screen.signal_restore = lambda self: None
    elif name == "exit-not-suppressed":
        ml.MainLoop.run = lambda self: self._run()
    else:
        raise ValueError(name)


EXPECT = {
    "no-idle-redraw": "C12/redraw",
    "unhandled-always": "C12/order",
    "reversed-keys": "C12/order",
    "no-stop-on-exception": "C12/display-stopped",
    "swallow-exceptions": "C12/exit",
    "wrap-exceptions": "C12/exit",
    "no-termios-restore": "C12/terminal-modes",
    "keep-mouse-on": "C12/terminal-modes",
    "keep-cursor-hidden": "C12/terminal-modes",
    "keep-sigwinch": "C12/terminal-modes",
    "exit-not-suppressed": "C12/exit",
}


def main():
    import bounded.C12 as b

    sess = b.make_session("KMTPRL", cycles=2)
    ok_all = True
    for name, check in EXPECT.items():
        red = {}
        for screen in ("fake_hook", "pty", "fake_nohook"):
            for loop in ("select", "asyncio"):
                if screen == "fake_nohook" and loop != "select":
                    continue
                for inj in (None, {"kind": "keypress", "idx": 2, "exc": "exc"}, {"kind": "alarm", "idx": 0, "exc": "exit"}):
                    ses = [st for st in sess if st[0] != "pipe"] if screen == "fake_nohook" else sess
                    case = {"screen": screen, "loop": loop, "pop_ups": False, "session": ses, "inject": inj, "mutate": name}
                    if screen == "pty":
                        case["pty"] = b.PTY_CFGS[3]
                    res = b.run_cases([case])[0]
                    for k, (ok, why, _nt) in b.judge(case, res).items():
                        if not ok:
                            red.setdefault(k, why)
        good = check in red
        ok_all &= good
        print(("RED  " if good else "MISSED"), name, "->", check, "|", sorted(red), "|", red.get(check, "")[:140])
    print("all mutations detected" if ok_all else "SOME MUTATIONS NOT DETECTED")


if __name__ == "__main__":
    main()
