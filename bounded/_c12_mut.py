"""Sanity mutations for bounded/C12.py: in-process monkey-patches of the code under test (never the files in
/repo), applied inside the forked session child when a case carries {"mutate": <name>}.  Each mutation must turn
the named check red; run:  PYTHONPATH=/verif .venv/bin/python -m bounded._c12_mut
"""
from __future__ import annotations


def apply(name):
    import urwid
    from urwid.event_loop import main_loop as ml

    if name == "no-idle-redraw":
        ml.MainLoop.entering_idle = lambda self: None
    elif name == "unhandled-always":
        orig = ml.MainLoop.process_input

        def process_input(self, keys):
            rv = orig(self, keys)
            for k in keys:
                if isinstance(k, str) and k == "a":
                    self.unhandled_input(k)
            return rv

        ml.MainLoop.process_input = process_input
    elif name == "reversed-keys":
        orig = ml.MainLoop.process_input
        ml.MainLoop.process_input = lambda self, keys: orig(self, list(keys)[::-1])
    elif name == "no-stop-on-exception":

        def _run(self):
            self.start()
            self.event_loop.run()
            self.stop()

        ml.MainLoop._run = _run
    elif name == "swallow-exceptions":
        orig = ml.MainLoop._run

        def _run(self):
            try:
                orig(self)
            except Exception:  # noqa: BLE001
                pass

        ml.MainLoop._run = _run
    elif name == "wrap-exceptions":
        orig = ml.MainLoop._run

        def _run(self):
            try:
                orig(self)
            except urwid.ExitMainLoop:
                raise
            except Exception as e:  # noqa: BLE001
                raise RuntimeError("wrapped") from e

        ml.MainLoop._run = _run
    elif name == "no-termios-restore":
        import termios

        termios.tcsetattr = lambda *a, **k: None
    elif name == "keep-mouse-on":
        from urwid.display import _raw_display_base as rb

        orig = rb.Screen._mouse_tracking
        rb.Screen._mouse_tracking = lambda self, enable: orig(self, True) if enable else None
    elif name == "keep-cursor-hidden":
        from urwid.display import escape

        escape.SHOW_CURSOR = ""
    elif name == "keep-sigwinch":
        from urwid.display import _posix_raw_display as pr

        pr.Screen.signal_restore = lambda self: None
    elif name == "exit-not-suppressed":
        ml.MainLoop.run = lambda self: self._run()
    elif name in ("size-forgotten-for-lone-resize-only", "size-forgotten-for-trailing-resize-only", "size-never-forgotten"):
        # the cached screen size survives a resize that shares its batch with other events (both input paths)
        def stale(keys):
            if name == "size-forgotten-for-lone-resize-only":
                return list(keys) != ["window resize"]
            if name == "size-forgotten-for-trailing-resize-only":
                return not (keys and keys[-1] == "window resize")
            return True

        def _update(self, keys, raw):
            if keys := self.input_filter(keys, raw):
                self.process_input(keys)
                if "window resize" in keys and not stale(keys):
                    self.screen_size = None

        ml.MainLoop._update = _update
        orig_filter = ml.MainLoop.input_filter

        def input_filter(self, keys, raw):  # _run_screen_event_loop: hide the marker from its own `in keys` test
            out = orig_filter(self, keys, raw)

            class L(list):
                def __contains__(s, x):
                    return list.__contains__(s, x) and not (x == "window resize" and stale(list(s)))

            return L(out)

        ml.MainLoop.input_filter = input_filter
    elif name == "stale-partial-timer":
        # the alarm armed for an incomplete escape sequence is not cancelled when the rest of the sequence arrives
        from urwid.display import _raw_display_base as rb

        orig = rb.Screen.parse_input

        def parse_input(self, event_loop, callback, codes, wait_for_more=True):
            self._input_timeout = None  # forgotten, not removed from the event loop
            return orig(self, event_loop, callback, codes, wait_for_more)

        rb.Screen.parse_input = parse_input
    elif name in ("paste-focus-off-after-last-flush", "no-flush-on-stop"):
        # the sequences that switch the modes off are handed to the output stream, but (some of them) only after the
        # last flush of _stop(): they are still in the stream's buffer when run() is over
        from urwid.display import _posix_raw_display as pr
        from urwid.display import _raw_display_base as rb
        from urwid.display import escape

        if name == "no-flush-on-stop":
            orig_restore = rb.Screen._stop_mouse_restore_buffer

            def _stop_mouse_restore_buffer(self):
                self.flush = lambda: None
                try:
                    orig_restore(self)
                finally:
                    del self.flush

            rb.Screen._stop_mouse_restore_buffer = _stop_mouse_restore_buffer
        else:
            orig_stop = pr.Screen._stop

            def _stop(self):
                paste, focus = self.bracketed_paste_mode, self.focus_reporting
                self.bracketed_paste_mode = self.focus_reporting = False
                try:
                    orig_stop(self)
                finally:
                    self.bracketed_paste_mode, self.focus_reporting = paste, focus
                if focus:
                    self.write(escape.DISABLE_FOCUS_REPORTING)
                if paste:
                    self.write(escape.DISABLE_BRACKETED_PASTE_MODE)

            pr.Screen._stop = _stop
    elif name == "started-after-start-hook":
        # the screen counts as started only once its start hook is through: a hook that announces the input
        # descriptors (raw_display) announces none
        from urwid.display import common
        from urwid.util import StoppingContext

        def start(self, *args, **kwargs):
            if not self._started:
                self._start(*args, **kwargs)
                self._started = True
            return StoppingContext(self)

        common.BaseScreen.start = start
    elif name == "no-rehook-after-descriptors-changed":
        # INPUT_DESCRIPTORS_CHANGED only takes the old watches away
        ml.MainLoop._reset_input_descriptors = lambda self: self.screen.unhook_event_loop(self.event_loop)
        orig_start = ml.MainLoop.start

        def start(self):
            rv = orig_start(self)
            self.screen.hook_event_loop(self.event_loop, self._update)
            return rv

        ml.MainLoop.start = start
    elif name == "tty-not-watched-after-restart":
        # once it has been started a second time the screen reports its resize pipe only
        from urwid.display import _posix_raw_display as pr
        from urwid.display import _raw_display_base as rb

        orig = rb.Screen.get_input_descriptors
        orig_start = pr.Screen._start

        def _start(self, *a, **kw):
            self._c12_mut_starts = self.__dict__.get("_c12_mut_starts", 0) + 1
            return orig_start(self, *a, **kw)

        def get_input_descriptors(self):
            fds = orig(self)
            return fds if self.__dict__.get("_c12_mut_starts", 0) < 2 else fds[:1]

        pr.Screen._start = _start
        rb.Screen.get_input_descriptors = get_input_descriptors
    elif name == "sigcont-does-not-restart":
        from urwid.display import _posix_raw_display as pr

        def _sigcont_handler(self, signum, frame=None):
            self.signal_restore()
            self._sigwinch_handler(28, None)

        pr.Screen._sigcont_handler = _sigcont_handler
    else:
        raise ValueError(name)


EXPECT = {
    "no-idle-redraw": "C12/redraw",
    "unhandled-always": "C12/order",
    "reversed-keys": "C12/order",
    "no-stop-on-exception": "C12/display-stopped",
    "swallow-exceptions": "C12/exit",
    "wrap-exceptions": "C12/exit",
    "no-termios-restore": "C12/tty-settings",
    "keep-mouse-on": "C12/terminal-modes",
    "keep-cursor-hidden": "C12/terminal-modes",
    "keep-sigwinch": "C12/signal-handlers",
    "exit-not-suppressed": "C12/exit",
    "size-forgotten-for-lone-resize-only": "C12/redraw",
    "size-forgotten-for-trailing-resize-only": "C12/redraw",
    "size-never-forgotten": "C12/redraw",
    "stale-partial-timer": "C12/order",
    "paste-focus-off-after-last-flush": "C12/terminal-modes",
    "no-flush-on-stop": "C12/terminal-modes",
    "started-after-start-hook": "C12/order",
    "no-rehook-after-descriptors-changed": "C12/order",
    "tty-not-watched-after-restart": "C12/order",
    "sigcont-does-not-restart": "C12/order",  # (the tty stays in canonical mode: what is typed is not readable)
}


def main():
    import bounded.C12 as b

    sess = b.make_session("KMTPXRLYWsKUKR", cycles=2)
    ok_all = True
    import sys

    for name, check in EXPECT.items():
        if sys.argv[1:] and name not in sys.argv[1:]:
            continue
        red = {}
        for screen in ("fake_hook", "pty", "fake_nohook"):
            for loop in ("select", "asyncio"):
                if screen == "fake_nohook" and loop != "select":
                    continue
                for inj in (None, {"kind": "keypress", "idx": 2, "exc": "exc"}, {"kind": "alarm", "idx": 0, "exc": "exit"}):
                    ses = [st for st in sess if st[0] != "pipe"] if screen == "fake_nohook" else sess
                    if screen != "pty":
                        ses = b.for_fake(ses)
                    case = {"screen": screen, "loop": loop, "pop_ups": False, "session": ses, "inject": inj, "mutate": name}
                    if screen == "pty":
                        case["pty"] = b.PTY_CFGS[3]
                        case["session"] = b.for_pty(ses)
                    res = b.run_cases([case])[0]
                    for k, (ok, why, _nt) in b.judge(case, res).items():
                        if not ok:
                            red.setdefault(k, why)
        # the real screen: escape sequences split over two reads, the loop kept running; and the screen alone
        extra = [{"screen": "pty", "loop": lp, "pop_ups": False, "session": b.split_session(g), "inject": None, "pty": b.PTY_CFGS[g], "mutate": name}
                 for g, lp in enumerate(("select", "asyncio"))]
        extra += [dict(c, mutate=name) for c in b.direct_cases(True)[5::16]]
        for case in extra:
            res = b.run_cases([case])[0]
            for k, (ok, why, _nt) in b.judge(case, res).items():
                if not ok:
                    red.setdefault(k, why)
        good = check in red
        ok_all &= good
        print(("RED  " if good else "MISSED"), name, "->", check, "|", sorted(red), "|", red.get(check, "")[:140])
    print("all mutations detected" if ok_all else "SOME MUTATIONS NOT DETECTED")


if __name__ == "__main__":
    main()
