"""C06 bounded stand-in: the canvas cache is invisible.

The statement is a two-run (relational) claim, so the oracle is a two-world comparison of the REAL code:

  world A   build tree T, apply history H (cache live, handed-out canvases held as a Screen would hold
            them), then ask the observations O1..Ok (render at 2 sizes x focus, the first render asked
            again at the end; rows for flow roots).
  world B   build the same tree again, apply the same H in the same way, then ask the same O1..Ok but
            with ``CanvasCache.clear()`` immediately before every Oi ("the cache emptied first").

Observation below the root ("render-below" in a failure's `observation`).  Every subtree is a widget tree, so the
statement also holds at the descendants: at the very end of world A, every finalized canvas below the handed-out root
canvases that is still alive, belongs to a widget the grammar names (subject_widgets) and is handed out AGAIN by that
widget's render(size, focus) right now (cache hit, the same object) is compared with the same call after
CanvasCache.clear().  This sees a cached child canvas that a parent's render polluted (e.g. through a shard list shared
by CompositeCanvas(canv)) in the state it is in, before a change of context makes it visible at the root.

Failures are minimised by step removal (each candidate re-run on the real code) and grouped by the
mutators of the minimal history ("failure_groups" / "failure_group_examples" in each check result).

Both worlds execute exactly the same public calls in the same order; the only difference is whether a
cached canvas is available when an observation is made.  Any difference in (content(), cursor, cols,
rows) or in a rows() answer is therefore the cache being visible.  Histories are closed under prefixes
(all histories of length 1..L are enumerated, each observed at its end), which gives "after each step"
without the observation of step i disturbing step i+1.

Steps of a history:  render(size_i, focus) / rows(size_i) at the root, every public mutator of every
widget in the tree (by path), keypress / mouse_event delivered at the root the way MainLoop does,
and garbage collection (drop the held canvases except the latest / all of them, then gc.collect()).

Garbage-collection family ("/gc-histories" checks).  The statement quantifies over "garbage collection of unreferenced
canvases" as a history step.  Whether a collection is visible depends on what the weak-reference callbacks
(CanvasCache.cleanup) remove, and that shows only in histories of a particular shape, longer than the exhaustive bound
above: render A (canvas held, as a Screen holds the last one) -> [edit a descendant] -> render B under ANOTHER cache key
for the root (focus flipped / other width / a vertical resize: same columns, one more row) which leaves the cache key of
descendants unchanged (flow children of a box, ignore_focus widgets, children that are not in focus) -> drop held canvases
and gc.collect() -> edit a descendant -> observe render B, render A (and rows).  These 4- and 5-step histories are
enumerated exhaustively over (tree, key pair A->B, which canvases are dropped, edit) — see gc_family().

Readings of the statement fixed here:
 * "public mutators" = methods and property setters.  Assigning a plain public attribute that has no
   setter (Padding.left, Filler.top, Divider.div_char, BoxAdapter.height, GridFlow.h_sep, Overlay.top_w,
   Overlay.bottom_w ...) is not a mutator call and is not in the alphabet.  (A first version had
   Overlay.top_w/bottom_w in the alphabet and reported them stale: a false alarm of the harness, removed.)
 * keypress is delivered to the root only when root.selectable() (MainLoop.process_input does the same).
 * An exception raised identically in both worlds is not a cache matter (it belongs to other
   properties); an exception in one world only, or of different type, is a failure.
 * A history after which world A's cache is empty and no canvas is held is *trivial*: both worlds then
   run identical code.  It is counted as an evaluation but world B is not run for it.
 * Handed-out canvases: every canvas returned by a root render in world A is snapshotted
   (content, cursor, size) when handed out and compared at the end of the run.  So is every finalized
   canvas below it in the canvas tree (the canvases the descendants' renders handed out to their parents,
   the ones the cache hands out again): snapshotted when the root render that first shows them returns,
   tracked through weak references only (the harness must not prolong their life: collections are part of
   the histories), compared at the end if still alive.
"""
from __future__ import annotations

import gc
import itertools
import multiprocessing
import os
import time
import warnings
import weakref

import urwid
from urwid import str_util
from urwid import util as urwid_util
from urwid.canvas import CanvasCache, CanvasError, CompositeCanvas

from bounded.common import Check, rng

ID = "C06"

RULES = {
    "cached-equals-fresh": "for every tree x history: each final render(size, focus) with the cache as the history left it equals, in content(), cursor, cols and rows, the same render in a second run of the same history with CanvasCache.clear() called first (exception in one run only = failure); and at the end every descendant canvas that the cache still hands out for its (widget, size, focus) equals that widget's render with the cache emptied first",
    "rows-cached-equals-fresh": "for every flow-root tree x history: rows(size, focus) answered with the cache as-is equals rows() after CanvasCache.clear()",
    "handed-out-unchanged": "every canvas returned by a root render during the history and the observations, and every finalized canvas below it in its canvas tree that is still alive, still has the content(), cursor, cols, rows it had when handed out",
    "finalized-refuse-mutation": "every canvas handed out by a widget render (root and all child canvases carrying widget_info) refuses each CompositeCanvas/Canvas mutator with CanvasError and is unchanged afterwards",
}


# ----------------------------------------------------------------------------------------------
# global state guard
class _Guard:
    def __enter__(self):
        self.saved = (urwid_util._target_encoding, urwid_util._use_dec_special, str_util.get_byte_encoding())
        urwid.set_encoding("utf-8")
        self.w = warnings.catch_warnings()
        self.w.__enter__()
        warnings.simplefilter("ignore")
        CanvasCache.clear()
        return self

    def __exit__(self, *a):
        CanvasCache.clear()
        self.w.__exit__(*a)
        urwid_util._target_encoding, urwid_util._use_dec_special = self.saved[0], self.saved[1]
        str_util.set_byte_encoding(self.saved[2])
        return False


# ----------------------------------------------------------------------------------------------
# tree grammar
class Node:
    __slots__ = ("kind", "w", "kids", "x", "n")

    def __init__(self, kind, w, kids, x=None):
        self.kind = kind
        self.w = w
        self.kids = kids
        self.x = x or {}
        self.n = {}

    def cyc(self, key, values):
        i = self.n.get(key, 0)
        self.n[key] = i + 1
        return values[i % len(values)]


class Env:
    """Source of fresh widgets for insert/assign/swap mutators (deterministic labels)."""

    def __init__(self):
        self.c = 0

    def flow(self):
        self.c += 1
        return urwid.Text(("new", f"N{self.c}"))

    def box(self):
        self.c += 1
        return urwid.SolidFill("ABCDEFGH"[self.c % 8])

    def of(self, typ):
        return self.flow() if typ == "flow" else self.box()


class Kind:
    def __init__(self, name, out, slots, build, muts, keys=(), mouse=()):
        self.name = name
        self.out = out  # 'flow' | 'box' | 'same' (= type of its single child)
        self.slots = slots  # tuple of 'flow' | 'box' | 'any'
        self.build = build  # build(kid_widgets, typ) -> widget | (widget, extras)
        self.muts = dict(muts)
        self.keys = tuple(keys)
        self.mouse = tuple(mouse)


KINDS: dict[str, Kind] = {}


def kind(name, out, slots, keys=(), mouse=()):
    def deco(cls):
        muts = [(k[2:], v) for k, v in vars(cls).items() if k.startswith("m_")]
        KINDS[name] = Kind(name, out, slots, cls.build, muts, keys, mouse)
        return cls

    return deco


def _typ_of(spec):
    k = KINDS[spec[0]]
    if k.out == "same":
        return _typ_of(spec[1][0])
    return k.out


# ---- leaves -----------------------------------------------------------------------------------
@kind("Text", "flow", ())
class _Text:
    def build(kids, typ):
        return urwid.Text([("a", "ab"), " cd ", ("b", "efg hi")])

    def m_set_text(nd, env):
        nd.w.set_text(nd.cyc("t", [("b", "XY z"), "one two three four", [("a", "q"), "r\ns"], ""]))

    def m_set_align_mode(nd, env):
        nd.w.set_align_mode(nd.cyc("a", ["right", "center", "left"]))

    def m_set_wrap_mode(nd, env):
        nd.w.set_wrap_mode(nd.cyc("w", ["any", "clip", "ellipsis", "space"]))

    def m_set_layout(nd, env):
        a, w = nd.cyc("l", [("center", "any"), ("left", "space")])
        nd.w.set_layout(a, w)


@kind("Edit", "flow", (), keys=("x", "backspace", "left", "home"), mouse=((1, 3, 0),))
class _Edit:
    def build(kids, typ):
        return urwid.Edit(("c", "e:"), "abc def", multiline=True)

    def m_set_edit_text(nd, env):
        nd.w.set_edit_text(nd.cyc("t", ["Q", "long text wraps here", "", "ab\ncd"]))

    def m_set_caption(nd, env):
        nd.w.set_caption(nd.cyc("c", [("c", "cap> "), "", "two\nl:"]))

    def m_set_edit_pos(nd, env):
        nd.w.set_edit_pos(nd.cyc("p", [0, 2, 99]))

    def m_set_mask(nd, env):
        nd.w.set_mask(nd.cyc("m", ["*", None]))

    def m_insert_text(nd, env):
        nd.w.insert_text(nd.cyc("i", ["Z", "yy "]))

    def m_set_wrap_mode(nd, env):
        nd.w.set_wrap_mode(nd.cyc("w", ["clip", "any", "space"]))

    def m_set_align_mode(nd, env):
        nd.w.set_align_mode(nd.cyc("a", ["right", "left"]))


@kind("EditClip", "flow", (), keys=("x", "left", "end", "home"), mouse=((1, 1, 0),))
class _EditClip:
    def build(kids, typ):
        return urwid.Edit("", "0123456789abcdefghij", wrap="clip", edit_pos=0)

    def m_set_edit_pos(nd, env):
        nd.w.set_edit_pos(nd.cyc("p", [18, 3, 0]))

    def m_set_edit_text(nd, env):
        nd.w.set_edit_text(nd.cyc("t", ["ABCDEFGHIJKLMNOPQRST", "s"]))

    def m_insert_text(nd, env):
        nd.w.insert_text("__")


@kind("IntEdit", "flow", (), keys=("5", "backspace", "a"))
class _IntEdit:
    def build(kids, typ):
        return urwid.IntEdit("n:", 12)

    def m_set_edit_text(nd, env):
        nd.w.set_edit_text(nd.cyc("t", ["7", "123456789", ""]))


@kind("SelectableIcon", "flow", (), keys=("x",))
class _Icon:
    def build(kids, typ):
        return urwid.SelectableIcon("icon text", 2)

    def m_set_text(nd, env):
        nd.w.set_text(nd.cyc("t", [("b", "IC"), "other icon text"]))


@kind("CheckBox", "flow", (), keys=(" ", "enter"), mouse=((1, 1, 0),))
class _CheckBox:
    def build(kids, typ):
        return urwid.CheckBox("chk box", False, has_mixed=True)

    def m_set_label(nd, env):
        nd.w.set_label(nd.cyc("l", [("b", "LBL"), "a longer label here"]))

    def m_set_state(nd, env):
        nd.w.set_state(nd.cyc("s", [True, "mixed", False]))

    def m_toggle_state(nd, env):
        nd.w.toggle_state()


@kind("Radio2", "flow", (), keys=(" ", "down", "up"), mouse=((1, 1, 1),))
class _Radio2:
    def build(kids, typ):
        g = []
        r1 = urwid.RadioButton(g, "r1")
        r2 = urwid.RadioButton(g, "r2")
        return urwid.Pile([r1, r2]), {"r1": r1, "r2": r2}

    def m_r2_set_state(nd, env):
        nd.x["r2"].set_state(True)

    def m_r1_set_state(nd, env):
        nd.x["r1"].set_state(True)

    def m_r1_toggle(nd, env):
        nd.x["r1"].toggle_state()

    def m_r2_set_label(nd, env):
        nd.x["r2"].set_label(nd.cyc("l", ["R-two", "r2"]))


@kind("Button", "flow", (), keys=("enter",), mouse=((1, 1, 0),))
class _Button:
    def build(kids, typ):
        return urwid.Button("ok")

    def m_set_label(nd, env):
        nd.w.set_label(nd.cyc("l", [("b", "CANCEL"), "a long button label"]))


@kind("ProgressBar", "flow", ())
class _ProgressBar:
    def build(kids, typ):
        return urwid.ProgressBar("pn", "pc", 30, 100, "ps")

    def m_set_completion(nd, env):
        nd.w.set_completion(nd.cyc("c", [70, 100, 5]))

    def m_done(nd, env):
        nd.w.done = nd.cyc("d", [50, 200, 100])


@kind("BigTextP", "flow", ())
class _BigTextP:
    def build(kids, typ):
        bt = urwid.BigText("1", urwid.Thin3x3Font())
        return urwid.Padding(bt, "left", "clip"), {"bt": bt}

    def m_bt_set_text(nd, env):
        nd.x["bt"].set_text(nd.cyc("t", [("b", "2"), "34", "1"]))

    def m_bt_set_font(nd, env):
        nd.x["bt"].set_font(nd.cyc("f", [urwid.HalfBlock5x4Font(), urwid.Thin3x3Font()]))


@kind("BarGraph", "box", ())
class _BarGraph:
    def build(kids, typ):
        g = urwid.BarGraph(["bg", "f1", "f2"])
        g.set_data([(3,), (5, 2), (1,)], 6)
        return g

    def m_set_data(nd, env):
        d = nd.cyc("d", [([(6,), (1,)], 6, None), ([(2, 1), (4,), (5,), (3,)], 5, [2]), ([], 1, None)])
        nd.w.set_data(*d)

    def m_set_segment_attributes(nd, env):
        a = nd.cyc("s", [([("bg", "."), ("f1", "#"), "f2"], None, None), (["bg2", "g1", "g2"], "h", {(1, 0): "s10"}), (["bg", "f1", "f2"], None, None)])
        nd.w.set_segment_attributes(*a)

    def m_set_bar_width(nd, env):
        nd.w.set_bar_width(nd.cyc("w", [1, 3, None]))


@kind("GraphVScale", "box", ())
class _GraphVScale:
    def build(kids, typ):
        return urwid.GraphVScale([(1, "x1"), (3, ("a", "x3"))], 4)

    def m_set_scale(nd, env):
        nd.w.set_scale(*nd.cyc("s", [([(1, "y1"), (2, "y2")], 3), ([(1, "z")], 2), ([(1, "x1"), (3, "x3")], 4)]))


# ---- decorations ------------------------------------------------------------------------------
def _swap(nd, env, setter):
    """Alternate the decorated widget between a fresh one and the original child (which may have been
    mutated, rendered and cached while detached)."""
    on = nd.n.get("swapped", False)
    nd.n["swapped"] = not on
    setter(nd.kids[0].w if on else env.of(nd.x["ctyp"]))


def _set_original(nd):
    return lambda w: setattr(nd.w, "original_widget", w)


@kind("AttrMap", "same", ("any",))
class _AttrMap:
    def build(kids, typ):
        return urwid.AttrMap(kids[0], {None: "n0", "a": "a0"}, {None: "f0", "a": "fa"})

    def m_set_attr_map(nd, env):
        nd.w.set_attr_map(nd.cyc("m", [{None: "n1"}, {None: "n2", "a": "a2", "b": "b2"}]))

    def m_set_focus_map(nd, env):
        nd.w.set_focus_map(nd.cyc("f", [{None: "f1", "b": "fb"}, {"a": "fa2"}]))

    def m_swap(nd, env):
        _swap(nd, env, _set_original(nd))


@kind("AttrWrap", "same", ("any",))
class _AttrWrap:
    def build(kids, typ):
        return urwid.AttrWrap(kids[0], "w0", "wf0")

    def m_set_attr(nd, env):
        nd.w.set_attr(nd.cyc("a", ["w1", "w2"]))

    def m_set_focus_attr(nd, env):
        nd.w.set_focus_attr(nd.cyc("f", ["wf1", "wf2"]))

    def m_set_w(nd, env):
        _swap(nd, env, nd.w.set_w)


@kind("Padding", "same", ("any",))
class _Padding:
    def build(kids, typ):
        return urwid.Padding(kids[0], "center", ("relative", 80), min_width=3, left=1)

    def m_align(nd, env):
        nd.w.align = nd.cyc("a", ["right", "left", ("relative", 30), "center"])

    def m_width(nd, env):
        nd.w.width = nd.cyc("w", [5, ("relative", 100), ("relative", 60)])

    def m_swap(nd, env):
        _swap(nd, env, _set_original(nd))


@kind("Filler", "box", ("flow",))
class _Filler:
    def build(kids, typ):
        return urwid.Filler(kids[0], "middle")

    def m_swap(nd, env):
        _swap(nd, env, _set_original(nd))

    def m_body(nd, env):
        _swap(nd, env, lambda w: setattr(nd.w, "body", w))


@kind("FillerB", "box", ("box",))
class _FillerB:
    def build(kids, typ):
        return urwid.Filler(kids[0], "bottom", height=("relative", 60), min_height=2, top=0)

    def m_swap(nd, env):
        _swap(nd, env, _set_original(nd))


@kind("LineBox", "same", ("any",))
class _LineBox:
    def build(kids, typ):
        return urwid.LineBox(kids[0], "ti", title_align="left")

    def m_set_title(nd, env):
        nd.w.set_title(nd.cyc("t", ["T2", "", "longer"]))

    def m_swap(nd, env):
        _swap(nd, env, _set_original(nd))


@kind("WidgetPlaceholder", "same", ("any",))
class _Placeholder:
    def build(kids, typ):
        return urwid.WidgetPlaceholder(kids[0])

    def m_swap(nd, env):
        _swap(nd, env, _set_original(nd))


@kind("WidgetDisable", "same", ("any",))
class _Disable:
    def build(kids, typ):
        return urwid.WidgetDisable(kids[0])

    def m_swap(nd, env):
        _swap(nd, env, _set_original(nd))


@kind("BoxAdapter", "flow", ("box",))
class _BoxAdapter:
    def build(kids, typ):
        return urwid.BoxAdapter(kids[0], 3)

    def m_swap(nd, env):
        _swap(nd, env, _set_original(nd))

    def m_box_widget(nd, env):
        _swap(nd, env, lambda w: setattr(nd.w, "box_widget", w))


TALL = "l1\nl2\nl3\nl4\nl5\nl6\nl7\nl8"


@kind("Scrollable", "box", ("flow",), keys=("down", "page down", "up"), mouse=((5, 1, 1),))
class _Scrollable:
    def build(kids, typ):
        return urwid.Scrollable(kids[0])

    def m_set_scrollpos(nd, env):
        nd.w.set_scrollpos(nd.cyc("s", [1, -1, 0]))

    def m_swap(nd, env):
        _swap(nd, env, _set_original(nd))


@kind("ScrollableP", "box", ("flow",), keys=("down", "page down", "up"), mouse=((5, 1, 1),))
class _ScrollableP:
    def build(kids, typ):
        return urwid.Scrollable(urwid.Pile([urwid.Text("top"), kids[0], urwid.Text(TALL)]))

    def m_set_scrollpos(nd, env):
        nd.w.set_scrollpos(nd.cyc("s", [2, -1, 0, 5]))


@kind("ScrollBar", "box", ("flow",), keys=("down", "page down", "up"), mouse=((5, 1, 1),))
class _ScrollBar:
    def build(kids, typ):
        sc = urwid.Scrollable(urwid.Pile([kids[0], urwid.Text(TALL)]))
        return urwid.ScrollBar(sc, trough_char="."), {"sc": sc}

    def m_scrollbar_width(nd, env):
        nd.w.scrollbar_width = nd.cyc("w", [2, 1])

    def m_scrollbar_side(nd, env):
        nd.w.scrollbar_side = nd.cyc("s", ["left", "right"])

    def m_sc_set_scrollpos(nd, env):
        nd.x["sc"].set_scrollpos(nd.cyc("p", [3, -1, 0]))


class _Launcher(urwid.PopUpLauncher):
    def create_pop_up(self):
        self.count = getattr(self, "count", 0) + 1
        return urwid.Filler(urwid.Text(("pop", f"P{self.count}")))

    def get_pop_up_parameters(self):
        return {"left": 1, "top": 1, "overlay_width": 4, "overlay_height": 2}


@kind("PopUp", "box", ("flow",))
class _PopUp:
    def build(kids, typ):
        la = _Launcher(kids[0])
        return urwid.PopUpTarget(urwid.Filler(la, "top")), {"la": la}

    def m_open_pop_up(nd, env):
        nd.x["la"].open_pop_up()

    def m_close_pop_up(nd, env):
        nd.x["la"].close_pop_up()

    def m_la_swap(nd, env):
        _swap(nd, env, lambda w: setattr(nd.x["la"], "original_widget", w))


# ---- containers -------------------------------------------------------------------------------
def _list_muts(get_contents, get_opts, set_focus, get_focus):
    """Mutators shared by the list-like .contents containers."""

    def ins0(nd, env):
        get_contents(nd).insert(0, (env.of(nd.x["ctyp"]), get_opts(nd)))

    def append(nd, env):
        get_contents(nd).append((env.of(nd.x["ctyp"]), get_opts(nd)))

    def del0(nd, env):
        c = get_contents(nd)
        if len(c) > 1:
            del c[0]

    def set0(nd, env):
        c = get_contents(nd)
        c[0] = (env.of(nd.x["ctyp"]), get_opts(nd))

    def readd(nd, env):
        # put the subject child back (it may have been mutated / cached while detached)
        c = get_contents(nd)
        if all(w is not nd.kids[0].w for w, _o in c):
            c.append((nd.kids[0].w, get_opts(nd)))

    def reverse(nd, env):
        c = get_contents(nd)
        c[:] = list(reversed(list(c)))

    def focus(nd, env):
        c = get_contents(nd)
        if len(c):
            set_focus(nd, ((get_focus(nd) or 0) + 1) % len(c))

    return {"ins0": ins0, "append": append, "del0": del0, "set0": set0, "readd": readd, "reverse": reverse, "focus_position": focus}


def _mk_container(name, out, slot, build, extra=None, keys=(), mouse=(), opts=None):
    muts = _list_muts(
        lambda nd: nd.w.contents,
        opts or (lambda nd: nd.w.options()),
        lambda nd, i: setattr(nd.w, "focus_position", i),
        lambda nd: nd.w.focus_position,
    )
    muts.update(extra or {})
    KINDS[name] = Kind(name, out, (slot,), build, list(muts.items()), keys, mouse)


def _pile_opt_toggle(nd, env):
    c = nd.w.contents
    w, _o = c[0]
    if nd.x["ctyp"] == "box" and "box" not in w.sizing():
        return  # the flow sibling moved to the front: box options would be an invalid configuration
    c[0] = (w, nd.cyc("o", [nd.w.options("weight", 2), nd.w.options("given", 2), nd.w.options("weight", 1)]))


def _cols_opt_toggle(nd, env):
    c = nd.w.contents
    w, _o = c[0]
    if nd.x["ctyp"] == "box" and "box" not in w.sizing():
        return
    c[0] = (w, nd.cyc("o", [nd.w.options("given", 4), nd.w.options("weight", 3), nd.w.options("weight", 1)]))


def _widget_list0(nd, env):
    # deprecated list view: an in-place edit reaches the container through the MonitoredList callback
    nd.w.widget_list[0] = env.of(nd.x["ctyp"])


def _gf_cells(nd, env):
    nd.w.cells = [*list(nd.w.cells)[1:], env.flow()]


def _set_focus_old(nd, env):
    c = nd.w.contents
    nd.w.set_focus(((nd.w.focus_position or 0) + 1) % len(c))


_mk_container(
    "Pile", "flow", "flow",
    lambda kids, typ: urwid.Pile([kids[0], urwid.Edit("s:", "sib", edit_pos=0), urwid.Text("p3")]),
    extra={"set_focus": _set_focus_old, "widget_list0": _widget_list0},
    keys=("down", "up"), mouse=((1, 1, 1),),
)
_mk_container(
    "PileB", "box", "box",
    lambda kids, typ: urwid.Pile([("weight", 1, kids[0]), ("pack", urwid.Edit("s:", "sib", edit_pos=0)), ("given", 1, urwid.SolidFill("-"))]),
    extra={"options0": _pile_opt_toggle},
    opts=lambda nd: nd.w.options("weight", 1),
    keys=("down", "up"), mouse=((1, 1, 3),),
)
_mk_container(
    "Columns", "flow", "flow",
    lambda kids, typ: urwid.Columns([kids[0], ("weight", 1, urwid.Edit("s:", "sib", edit_pos=0)), (2, urwid.Text("c3"))], dividechars=1),
    extra={"options0": _cols_opt_toggle, "set_focus": _set_focus_old, "widget_list0": _widget_list0},
    keys=("right", "left"), mouse=((1, 5, 0),),
)
_mk_container(
    "ColumnsB", "box", "box",
    lambda kids, typ: urwid.Columns([kids[0], (3, urwid.Filler(urwid.Edit("", "sb", edit_pos=0))), (1, urwid.SolidFill("|"))], dividechars=0),
    extra={"options0": _cols_opt_toggle},
    keys=("right", "left"), mouse=((1, 6, 0),),
)


def _gf_cell_width(nd, env):
    nd.w.cell_width = nd.cyc("cw", [4, 7, 5])


_mk_container(
    "GridFlow", "flow", "flow",
    lambda kids, typ: urwid.GridFlow([kids[0], urwid.Edit("s:", "", edit_pos=0), urwid.Text("g3")], 5, 1, 0, "left"),
    extra={"cell_width": _gf_cell_width, "cells": _gf_cells},
    keys=("right", "left", "down"), mouse=((1, 7, 0),),
)


def _lb_muts():
    m = _list_muts(
        lambda nd: _WalkerAsContents(nd.w.body),
        lambda nd: None,
        lambda nd, i: setattr(nd.w, "focus_position", i),
        lambda nd: nd.w.focus_position,
    )

    def set_focus(nd, env):
        n = len(nd.w.body)
        nd.w.set_focus((nd.w.focus_position + 2) % n, nd.cyc("cf", [None, "above", "below"]))

    def set_focus_valign(nd, env):
        nd.w.set_focus_valign(nd.cyc("v", ["bottom", "top", "middle", ("relative", 30)]))

    def body(nd, env):
        cls = nd.cyc("b", [urwid.SimpleFocusListWalker, urwid.SimpleListWalker])
        nd.w.body = cls(list(nd.w.body))

    def walker_set_focus(nd, env):
        nd.w.body.set_focus((nd.w.focus_position + 1) % len(nd.w.body))

    m.update({"set_focus": set_focus, "set_focus_valign": set_focus_valign, "body": body, "walker_set_focus": walker_set_focus})
    return m


class _WalkerAsContents:
    """Adapter so that the shared list mutators edit the list walker with bare widgets."""

    def __init__(self, body):
        self.b = body

    def __len__(self):
        return len(self.b)

    def __iter__(self):
        return iter([(w, None) for w in self.b])

    def insert(self, i, item):
        self.b.insert(i, item[0])

    def append(self, item):
        self.b.append(item[0])

    def __delitem__(self, i):
        del self.b[i]

    def __getitem__(self, i):
        return (self.b[i], None)

    def __setitem__(self, i, v):
        if isinstance(i, slice):
            self.b[i] = [w for w, _o in v]
        else:
            self.b[i] = v[0]


def _lb_items(kids):
    return [urwid.Text("i0"), kids[0], urwid.Text("i2\nB"), urwid.Edit("e:", "", edit_pos=0), urwid.Text("i4"), urwid.Text("i5"), urwid.Text("i6")]


for _nm, _wcls in (("ListBoxS", urwid.SimpleListWalker), ("ListBoxF", urwid.SimpleFocusListWalker)):
    def _b(kids, typ, _wcls=_wcls):
        lb = urwid.ListBox(_wcls(_lb_items(kids)))
        lb.set_focus(3)
        return lb

    KINDS[_nm] = Kind(_nm, "box", ("flow",), _b, list(_lb_muts().items()), ("down", "up", "page down"), ((1, 1, 0), (5, 1, 1)))


def _frame_muts(subject_part):
    def header(nd, env):
        v = nd.cyc("h", ["fresh", None, "orig"])
        nd.w.header = env.flow() if v == "fresh" else (None if v is None else nd.x["header"])

    def footer(nd, env):
        v = nd.cyc("f", [None, "fresh", "orig"])
        nd.w.footer = env.flow() if v == "fresh" else (None if v is None else nd.x["footer"])

    def body(nd, env):
        v = nd.cyc("b", ["fresh", "orig"])
        nd.w.body = env.box() if v == "fresh" else nd.x["body"]

    def focus_position(nd, env):
        for _ in range(3):
            p = nd.cyc("p", ["header", "footer", "body"])
            if p == "body" or nd.w.contents.get(p) is not None:
                nd.w.focus_position = p
                return

    def contents_set(nd, env):
        nd.w.contents[subject_part] = (env.of("box" if subject_part == "body" else "flow"), None)

    def contents_del_header(nd, env):
        if "header" in nd.w.contents:
            del nd.w.contents["header"]

    return {"header": header, "footer": footer, "body": body, "focus_position": focus_position, "contents_set": contents_set, "contents_del_header": contents_del_header}


def _frame_build(part):
    def build(kids, typ):
        h = kids[0] if part == "header" else urwid.Text("HEAD")
        b = kids[0] if part == "body" else urwid.Filler(urwid.Edit("b:", "body", edit_pos=0), "top")
        f = urwid.Edit("f:", "foot", edit_pos=0)
        return urwid.Frame(b, h, f), {"header": h, "body": b, "footer": f}

    return build


KINDS["Frame"] = Kind("Frame", "box", ("box",), _frame_build("body"), list(_frame_muts("body").items()), ("down", "up"), ((1, 1, 1),))
KINDS["FrameH"] = Kind("FrameH", "box", ("flow",), _frame_build("header"), list(_frame_muts("header").items()), ("down", "up"), ((1, 1, 0),))


def _ov_params(nd, env):
    a = nd.cyc("p", [("left", ("relative", 90), "top", nd.x["h"]), ("right", 8, "bottom", nd.x["h"]), ("center", ("relative", 80), "middle", nd.x["h"])])
    nd.w.set_overlay_parameters(*a)


def _ov_top(nd, env):
    on = nd.n.get("swapped", False)
    nd.n["swapped"] = not on
    nd.w.contents[1] = (nd.kids[0].w if on else env.of(nd.x["ctyp"]), nd.w.contents[1][1])


def _ov_bottom(nd, env):
    nd.w.contents[0] = (env.box(), nd.w.contents[0][1])


# Overlay.top_w / Overlay.bottom_w are plain attributes (no setter): assigning them is not a mutator
# call under the reading adopted above, so they are not in the alphabet (contents[0]/[1] are).
_OV_MUTS = [("set_overlay_parameters", _ov_params), ("contents1", _ov_top), ("contents0", _ov_bottom)]
KINDS["Overlay"] = Kind(
    "Overlay", "box", ("flow",),
    lambda kids, typ: (urwid.Overlay(kids[0], urwid.SolidFill("."), "center", ("relative", 80), "middle", "pack"), {"h": "pack"}),
    _OV_MUTS, (), ((1, 3, 1),),
)
KINDS["OverlayB"] = Kind(
    "OverlayB", "box", ("box",),
    lambda kids, typ: (urwid.Overlay(kids[0], urwid.Filler(urwid.Text("bottom text under the overlay")), "center", ("relative", 70), "middle", 3), {"h": 3}),
    _OV_MUTS, (), ((1, 3, 1),),
)

LEAVES = [n for n, k in KINDS.items() if not k.slots]
INNER = [n for n, k in KINDS.items() if k.slots]


# ----------------------------------------------------------------------------------------------
# building and running
def build(spec, env=None):
    """spec = [kind_name, [child_spec, ...]] -> Node"""
    name, kid_specs = spec[0], spec[1]
    k = KINDS[name]
    kids = [build(s) for s in kid_specs]
    ctyp = _typ_of(kid_specs[0]) if kid_specs else None
    r = k.build([c.w for c in kids], ctyp)
    w, x = r if isinstance(r, tuple) else (r, {})
    x = dict(x)
    x["ctyp"] = ctyp
    return Node(k, w, kids, x)


def node_at(root, path):
    nd = root
    for i in path:
        nd = nd.kids[i]
    return nd


def paths(spec, pre=()):
    yield pre, spec[0]
    for i, s in enumerate(spec[1]):
        yield from paths(s, (*pre, i))


def sizes_for(typ):
    # box roots, index 2: a vertical resize of size 0 (same columns, one more row): the root and every box descendant get a
    # new cache key while flow descendants keep theirs. Only the garbage-collection family uses it.
    return [(9,), (14,)] if typ == "flow" else [(10, 6), (15, 9), (10, 7)]


def alphabet(spec, tier):
    """All steps available on this tree (deterministic order)."""
    typ = _typ_of(spec)
    quick = tier == "quick"
    steps = [("render", 0, True), ("render", 0, False), ("render", 1, True)]
    if not quick:
        steps.append(("render", 1, False))
    if typ == "flow":
        steps.append(("rows", 1, True))
        if not quick:
            steps.append(("rows", 0, False))
    steps.append(("gc", "keep_last"))
    if not quick:
        steps.append(("gc", "drop_all"))
    keys, mouse = [], []
    for p, name in paths(spec):
        k = KINDS[name]
        for m in k.muts:
            steps.append(("mut", list(p), m))
        for key in k.keys:
            if key not in keys:
                keys.append(key)
        for mo in k.mouse:
            if mo not in mouse:
                mouse.append(mo)
    for key in keys[: 3 if quick else 5]:
        steps.append(("key", 0, key))
    for mo in mouse[: 1 if quick else 3]:
        steps.append(("mouse", 0, *mo))
    return steps


def observations(spec, tier="thorough"):
    """The renders/rows asked at the end of every history.  The last render repeats the first one: a render
    at another size/focus in between may itself change widget state (scroll position, list offset), and
    a canvas cached for the first key must not survive that."""
    typ = _typ_of(spec)
    obs = [("render", 0, True), ("render", 0, False), ("render", 1, True)]
    if tier != "quick":
        obs.append(("render", 1, False))
    obs.append(("render", 0, True))
    if typ == "flow":
        obs.append(("rows", 0, True))
        if tier != "quick":
            obs.append(("rows", 1, False))
    return obs


def snap(canv):
    """Everything the statement lets an observer see of a canvas.  A canvas whose content() raises (not a
    cache matter in itself) is observed as that exception, in both runs alike."""
    try:
        return (canv.cols(), canv.rows(), canv.cursor, tuple(tuple(row) for row in canv.content()))
    except Exception as e:  # noqa: BLE001
        return ("raised", "content():" + type(e).__name__, str(e)[:120])


def subject_widgets(root_node):
    """{id(widget)} of the widgets the tree grammar names below the root: the node widgets and their named parts (nd.x).
    These are the widgets the histories edit; their fixed siblings and the widgets a compound widget builds internally
    are left to the observation at the root."""
    out, todo = set(), list(root_node.kids)
    for v in root_node.x.values():
        if isinstance(v, urwid.Widget) and v is not root_node.w:
            out.add(id(v))
    while todo:
        nd = todo.pop()
        out.add(id(nd.w))
        out.update(id(v) for v in nd.x.values() if isinstance(v, urwid.Widget))
        todo.extend(nd.kids)
    return out


class World:
    def __init__(self, spec):
        CanvasCache.clear()
        self.spec = spec
        self.env = Env()
        self.root = build(spec)
        self.sizes = sizes_for(_typ_of(spec))
        self.held = []  # [(canvas, snapshot)]
        self.below = {}  # id(canvas) -> (weakref to a finalized canvas below a handed-out root canvas, snapshot)
        self.step_exc = []

    def step(self, st, take_snap=True):
        kindn = st[0]
        w = self.root.w
        if kindn == "render":
            c = w.render(self.sizes[st[1]], focus=st[2])
            self.held.append((c, snap(c) if take_snap else None))
            if take_snap:
                self.snap_below(c)
            return c
        if kindn == "rows":
            return w.rows(self.sizes[st[1]], st[2])
        if kindn == "gc":
            if st[1] == "keep_last":
                del self.held[:-1]
            elif st[1] == "keep_first":
                del self.held[1:]
            else:
                del self.held[:]
            gc.collect()
            return None
        if kindn == "mut":
            nd = node_at(self.root, st[1])
            nd.kind.muts[st[2]](nd, self.env)
            return None
        if kindn == "key":
            if w.selectable():
                w.keypress(self.sizes[st[1]], st[2])
            return None
        if kindn == "mouse":
            button, col, row = st[2], st[3], st[4]
            w.mouse_event(self.sizes[st[1]], "mouse press", button, col, row, focus=True)
            return None
        raise ValueError(st)

    def snap_below(self, top):
        seen = {}
        _walk_canvases(top, seen)
        for i, d in seen.items():
            if d is top or not d.widget_info:
                continue
            known = self.below.get(i)
            if known is None or known[0]() is not d:
                self.below[i] = (weakref.ref(d), snap(d))

    def changed_below(self):
        """-> None | detail of the first still-alive finalized descendant canvas that differs from its snapshot"""
        for wr, s0 in self.below.values():
            d = wr()
            if d is not None:
                s1 = snap(d)
                if s1 != s0:
                    return {"held_index": None, "canvas_of": type(d.widget_info[0]).__name__, "size": list(d.widget_info[1]), "focus": bool(d.widget_info[2]), "at_hand_out": _fmt(s0), "now": _fmt(s1)}
        return None

    def observe_below(self):
        """The statement at the descendants (every subtree is a widget tree): for each finalized canvas below the handed-out
        root canvases that is still alive and that its widget's render(size, focus) hands out again right now (a cache hit:
        the very same object), that canvas must equal what the same call renders with the cache emptied first.  Run at the
        very end of world A (it empties the cache); all hits are determined before the first emptying.
        -> [(("render-below", widget class, size, focus), cached snapshot, fresh snapshot)]"""
        hits = []
        in_tree = subject_widgets(self.root)
        for wr, _s0 in list(self.below.values()):
            d = wr()
            if d is None:
                continue
            w, size, focus = d.widget_info
            if id(w) not in in_tree:
                # Declared reduction: only the widgets the grammar names (see subject_widgets). In particular NOT
                # render-internal temporaries such as the Text that ProgressBar.render builds, renders and then repaints
                # through private attributes: nobody else can ever ask that widget to render again, so the statement says
                # nothing about it (a first version asked every widget found in widget_info and reported ProgressBar: a
                # false alarm of the harness).
                continue
            try:
                got = w.render(size, focus=focus)
            except Exception:  # noqa: BLE001, S112 - a miss that raises: nothing was handed out by the cache
                continue
            if got is d:
                hits.append(d)
        out = []
        for d in hits:
            w, size, focus = d.widget_info
            a = snap(d)
            CanvasCache.clear()
            try:
                b = snap(w.render(size, focus=focus))
            except Exception as e:  # noqa: BLE001
                b = ("raised", type(e).__name__, str(e)[:120])
            out.append((("render-below", type(w).__name__, list(size), bool(focus)), a, b))
        return out

    def run_history(self, hist, take_snap=True):
        for st in hist:
            try:
                self.step(st, take_snap)
            except Exception as e:  # noqa: BLE001 - same call is made in both worlds; recorded, compared
                self.step_exc.append((tuple(map(_j, st)), type(e).__name__))

    def observe(self, ob, clear_first, take_snap=True):
        if clear_first:
            CanvasCache.clear()
        try:
            r = self.step(ob, take_snap)
            if ob[0] == "render":
                # reading the canvas is part of the observation: a content() that raises is recorded as such
                return self.held[-1][1] if take_snap else snap(r)
        except Exception as e:  # noqa: BLE001
            return ("raised", type(e).__name__, str(e)[:120])
        return ("rows", r)

    def close(self):
        self.held = []
        self.below = {}
        self.root = None
        CanvasCache.clear()


def _j(x):
    return list(x) if isinstance(x, (tuple, list)) else x


def _fmt(o):
    """JSON-able rendering of an observation."""
    if o[0] in ("raised", "rows"):
        return list(o)
    cols, rows, cursor, content = o
    lines = []
    for row in content:
        lines.append([[repr(a), t.decode("utf-8", "replace") if isinstance(t, bytes) else str(t)] for a, _cs, t in row])
    return {"cols": cols, "rows": rows, "cursor": list(cursor) if cursor else None, "text": ["".join(seg[1] for seg in ln) for ln in lines], "attr": [[seg[0] for seg in ln] for ln in lines]}


def evaluate(spec, hist, tier="thorough", obs=None):
    """Run one history in both worlds.  Returns dict(trivial, render=[(ob, a, b)], rows=[...], handed_bad, step_exc).
    obs: the observations asked at the end (default: observations(spec, tier))."""
    gc_family_history = obs is not None and len(hist) <= 5
    obs = observations(spec, tier) if obs is None else list(obs)
    A = World(spec)
    try:
        A.run_history(hist)
        trivial = not CanvasCache._widgets and not A.held
        if trivial:
            return {"trivial": True, "step_exc": A.step_exc}
        a_res = [A.observe(ob, False) for ob in obs]
        handed_bad = None
        for i, (c, s0) in enumerate(A.held):
            s1 = snap(c)
            if s1 != s0:
                handed_bad = {"held_index": i, "at_hand_out": _fmt(s0), "now": _fmt(s1)}
                break
        if handed_bad is None:
            handed_bad = A.changed_below()
        # (declared reduction: not after the 4/5-step histories of the garbage-collection family, which are about what a
        # collection removes, observed at the root)
        below_res = [] if gc_family_history else A.observe_below()
        step_exc = A.step_exc
    finally:
        A.close()
    B = World(spec)
    try:
        B.run_history(hist, take_snap=False)
        b_res = [B.observe(ob, True, take_snap=False) for ob in obs]
        if B.step_exc != step_exc:
            # cannot happen unless a history step itself behaves differently between two identical runs
            b_res.append(("raised", "HistoryDiverged", repr((step_exc, B.step_exc))[:200]))
            a_res.append(("rows", -1))
            obs = [*obs, ("render", 0, True)]
    finally:
        B.close()
    out = {"trivial": False, "step_exc": step_exc, "render": [], "rows": [], "handed_bad": handed_bad}
    for ob, a, b in zip(obs, a_res, b_res):
        out["render" if ob[0] == "render" else "rows"].append((ob, a, b))
    out["render"].extend(below_res)
    return out


def _first_diff(triples):
    for ob, a, b in triples:
        if a != b:
            # identical exceptions in both worlds are not a cache matter
            if a[0] == "raised" and b[0] == "raised" and a[1] == b[1]:
                continue
            return ob, a, b
    return None


def fails(spec, hist, clause, tier="thorough", obs=None):
    r = evaluate(spec, hist, tier, obs)
    if r["trivial"]:
        return False
    if clause == "handed-out-unchanged":
        return r["handed_bad"] is not None
    return _first_diff(r["render" if clause == "cached-equals-fresh" else "rows"]) is not None


def shrink(spec, hist, clause, tier="thorough", obs=None):
    """Greedy one-step-removal minimisation (each candidate is re-run against the real code)."""
    hist = list(hist)
    changed = True
    while changed and len(hist) > 1:
        changed = False
        for i in range(len(hist)):
            cand = hist[:i] + hist[i + 1 :]
            if fails(spec, cand, clause, tier, obs):
                hist = cand
                changed = True
                break
    return hist


def signature(spec, hist):
    """Names (Kind.mutator / key / mouse / gc) of the non-render steps of a minimal failing history."""
    sig = []
    for st in hist:
        if st[0] == "mut":
            p = tuple(st[1])
            name = dict(paths(spec))[p]
            sig.append(f"{name}.{st[2]}")
        elif st[0] == "key":
            sig.append(f"key:{st[2]}")
        elif st[0] == "mouse":
            sig.append(f"mouse:{st[2]}")
        elif st[0] == "gc":
            sig.append("gc")
    return "+".join(sig) if sig else "renders-only:" + spec_str(spec)


def _detail(spec, hist, clause, r, minimal=None, tier="thorough", obs=None):
    d = {"obs_tier": tier, "tree": spec, "history": [list(map(_j, st)) for st in hist], "sizes": [list(s) for s in sizes_for(_typ_of(spec))], "clause": clause}
    if obs is not None:
        d["observations"] = [list(map(_j, ob)) for ob in obs]
    if minimal is not None:
        d["minimal_history"] = [list(map(_j, st)) for st in minimal]
        d["signature"] = signature(spec, minimal)
    if clause == "handed-out-unchanged":
        d.update(r["handed_bad"])
        d["why"] = "a canvas handed out earlier changed afterwards"
    else:
        ob, a, b = _first_diff(r["render" if clause == "cached-equals-fresh" else "rows"])
        d["observation"] = list(map(_j, ob))
        d["with_cache"] = _fmt(a)
        d["cache_cleared_first"] = _fmt(b)
        if a[0] == "raised" or b[0] == "raised":
            d["why"] = "raised in one run only: " + repr(a if a[0] == "raised" else b)
        else:
            d["why"] = "stale: the cached answer differs from the answer computed with the cache emptied first"
    d["reproduce"] = "bounded.C06.replay('C06/%s', <this dict>) re-runs both runs; by hand: w = bounded.C06.World(tree); w.step(s) for s in minimal_history; w.step(observation) vs. the same after CanvasCache.clear() in a second World (the i-th call of a mutator uses the i-th value of its cycle in the kind's m_* function)" % clause
    if r.get("step_exc"):
        d["history_step_exceptions"] = [list(map(_j, e)) for e in r["step_exc"]]
    return d


def spec_str(spec):
    return spec[0] + ("(" + ",".join(spec_str(s) for s in spec[1]) + ")" if spec[1] else "")


# ----------------------------------------------------------------------------------------------
# finalized canvases refuse mutation
_CANVAS_MUTATORS = [
    ("pad_trim_left_right", lambda c: c.pad_trim_left_right(1, 1)),
    ("pad_trim_top_bottom", lambda c: c.pad_trim_top_bottom(1, 0)),
    ("trim", lambda c: c.trim(0, 1)),
    ("trim_end", lambda c: c.trim_end(1)),
    ("fill_attr", lambda c: c.fill_attr("zz")),
    ("fill_attr_apply", lambda c: c.fill_attr_apply({None: "zz"})),
    ("set_depends", lambda c: c.set_depends([])),
    ("overlay", lambda c: c.overlay(CompositeCanvas(urwid.SolidCanvas("!", 1, 1)), 0, 0)),
    ("set_cursor", lambda c: c.set_cursor((0, 0))),
    ("cursor=", lambda c: setattr(c, "cursor", (0, 0))),
    ("set_pop_up", lambda c: c.set_pop_up(urwid.Text("p"), 0, 0, 1, 1)),
    ("finalize", lambda c: c.finalize(urwid.Text("other"), (1,), False)),
]


def _walk_canvases(c, seen):
    if id(c) in seen:
        return
    seen[id(c)] = c
    for ch in getattr(c, "children", ()) or ():
        _walk_canvases(ch[2], seen)


def finalized_cases(spec):
    """[(key, ok, detail)] for one tree: each handed-out canvas x each applicable mutator."""
    out = []
    W = World(spec)
    try:
        for si in (0, 1):
            for fo in (True, False):
                try:
                    top = W.root.w.render(W.sizes[si], focus=fo)
                except Exception:  # noqa: BLE001 - render failures are reported by the main check
                    continue
                seen = {}
                _walk_canvases(top, seen)
                for c in seen.values():
                    if not c.widget_info:
                        continue
                    before = snap(c)
                    for mname, fn in _CANVAS_MUTATORS:
                        if mname in ("set_cursor", "set_pop_up", "cursor=", "finalize") or isinstance(c, CompositeCanvas):
                            pass
                        else:
                            continue  # mutator does not exist on this canvas class
                        why = None
                        try:
                            fn(c)
                            why = "mutator accepted on a finalized canvas"
                        except CanvasError:
                            pass
                        except Exception as e:  # noqa: BLE001
                            # refused, but not with the documented error; unchanged content is still required
                            if snap(c) != before:
                                why = f"raised {type(e).__name__} and changed the canvas"
                        if why is None and snap(c) != before:
                            why = "canvas content changed"
                        key = (spec_str(spec), si, fo, type(c).__name__, type(c.widget_info[0]).__name__, mname)
                        out.append((key, why is None, {"tree": spec, "size": list(W.sizes[si]), "focus": fo, "canvas_class": type(c).__name__, "widget": type(c.widget_info[0]).__name__, "mutator": mname, "why": why or ""}))
    finally:
        W.close()
    return out


# ----------------------------------------------------------------------------------------------
# enumeration
def compatible(parent_slot, child_spec):
    return parent_slot == "any" or parent_slot == _typ_of(child_spec)


def trees_of_depth(d):
    """All chain-shaped trees of exactly depth d (edges) in the grammar."""
    if d == 0:
        return [[n, []] for n in LEAVES]
    out = []
    for sub in trees_of_depth(d - 1):
        for n in INNER:
            if compatible(KINDS[n].slots[0], sub):
                out.append([n, [sub]])
    return out


def select_trees(tier, seed):
    """-> list of plans (spec, alphabet_tier, max_len, mode); mode 'full' = every admissible history of
    length 1..max_len over the alphabet, ('sample', n) = n seeded random histories of length max_len."""
    r = rng(seed)
    d0, d1, d2 = trees_of_depth(0), trees_of_depth(1), trees_of_depth(2)
    plan = []
    if tier == "quick":
        plan += [(t, "quick", 3, "full") for t in d0]
        plan += [(t, "quick", 2, "full") for t in d1]
        # length 3 on depth-1 trees: every inner kind once as root, leaves round-robin
        fl = [t for t in d0 if _typ_of(t) == "flow"]
        bx = [t for t in d0 if _typ_of(t) == "box"]
        i = j = 0
        for n in INNER:
            slot = KINDS[n].slots[0]
            if slot == "box" or (slot == "any" and (i + j) % 4 == 3):
                leaf = bx[j % len(bx)]
                j += 1
            else:
                leaf = fl[i % len(fl)]
                i += 1
            plan.append(([n, [leaf]], "quick", 3, ("sample", 100)))
        # depth 2: seeded choice, every inner kind once as the middle node
        by_mid = {}
        for t in d2:
            by_mid.setdefault(t[1][0][0], []).append(t)
        for mid in INNER:
            c = by_mid.get(mid, [])
            for t in r.sample(c, min(1, len(c))):
                plan.append((t, "quick", 2, "full"))
                plan.append((t, "quick", 5, "gc"))
        # the garbage-collection family on every root+leaf tree (the seeded longer histories with several collections run in
        # the thorough tier only)
        plan += [(t, "quick", 5, "gc") for t in d1]
        return plan
    d3 = trees_of_depth(3)
    plan += [(t, "thorough", 3, "full") for t in d0]
    plan += [(t, "quick", 4, ("sample", 3000)) for t in d0]
    plan += [(t, "thorough", 2, "full") for t in d1]
    # length 3 exhaustive (reduced alphabet) on a covering set: every root kind and every leaf kind
    cover, seen_root, seen_leaf = [], set(), set()
    for t in r.sample(d1, len(d1)):
        if t[0] not in seen_root or t[1][0][0] not in seen_leaf:
            cover.append(t)
            seen_root.add(t[0])
            seen_leaf.add(t[1][0][0])
    cover_keys = {spec_str(t) for t in cover}
    for t in d1:
        if spec_str(t) in cover_keys:
            plan.append((t, "quick", 3, "full"))
        else:
            plan.append((t, "quick", 3, ("sample", 250)))
        plan.append((t, "thorough", 4, ("sample", 80)))
    for t in r.sample(d2, min(len(d2), 150)):
        plan.append((t, "quick", 2, "full"))
        plan.append((t, "thorough", 3, ("sample", 150)))
    for t in r.sample(d3, min(len(d3), 100)):
        plan.append((t, "quick", 2, "full"))
        plan.append((t, "thorough", 4, ("sample", 100)))
    # the garbage-collection family: the thorough family on leaves alone and root+leaf trees, the quick one on the deeper trees
    plan += [(t, "thorough", 5, "gc") for t in d0 + d1]
    plan += [(t, "thorough", 8, ("gcsample", 80)) for t in d1]
    seen_gc = set()
    for t, _a, _l, mode in list(plan):
        if mode == "full" and len(spec_str(t).split("(")) > 2 and spec_str(t) not in seen_gc:
            seen_gc.add(spec_str(t))
            plan.append((t, "quick", 5, "gc"))
    return plan


def admissible(h):
    """Declared reductions of the history space:
      * at least one render step (otherwise the cache is empty and both runs execute identical code);
      * no immediately repeated identical render/rows/gc step.
    (A third reduction, "no render as the last step of a 3-step history because the observations are
    renders anyway", was dropped: renders can change widget state, e.g. Scrollable clamps its scroll
    position to the rendered size, so [prepare, render A, render B] followed by observing A is not
    implied by any shorter history.)"""
    L = len(h)
    if not any(st[0] == "render" for st in h):
        return False
    if any(h[i] == h[i + 1] and h[i][0] in ("render", "rows", "gc") for i in range(L - 1)):
        return False
    return True


def gc_alphabet(spec, tier):
    """Reduced alphabet of the seeded garbage-collection histories: renders under the root cache keys of gc_family
    (incl. the vertical resize for box roots), the three ways of dropping held canvases + gc.collect(), the mutators of
    the non-root nodes (thorough: of every node), keys and mouse."""
    typ = _typ_of(spec)
    renders = [("render", 0, True), ("render", 0, False), ("render", 1, True)] + ([("render", 2, True)] if typ == "box" else [])
    drops = [("gc", "keep_last"), ("gc", "keep_first"), ("gc", "drop_all")]
    edits = [a for a in alphabet(spec, tier) if (a[0] == "mut" and (a[1] or tier != "quick")) or a[0] in ("key", "mouse")]
    return renders, drops, edits


def gc_sampled(spec, tier, length, n, seed):
    """n seeded histories of `length` steps. Shape: render A, [edit], render B (B != A), [edit or render], drop+gc, edit, then
    free steps (renders / drops / edits with probabilities 3:2:3, no immediate repetition of a render or drop) up to the
    length: a collection with more than one root canvas alive, followed by an edit, then further renders, collections and
    edits in any order."""
    renders, drops, edits = gc_alphabet(spec, tier)
    if not edits:
        return
    s = 0
    for ch in spec_str(spec):
        s = (s * 131 + ord(ch)) % 2147483647
    r = rng(seed * 11 + s + 5)
    pick = lambda pool: pool[r.randrange(len(pool))]  # noqa: E731
    seen = set()
    for _ in range(n):
        for _try in range(30):
            h = [pick(renders)]
            if r.random() < 0.6:
                h.append(pick(edits))
            h.append(pick([x for x in renders if x != h[0]]))
            if r.random() < 0.3:
                h.append(pick(edits + [x for x in renders if x != h[-1]]))
            h.append(pick(drops))
            h.append(pick(edits))
            while len(h) < length:
                x = r.randrange(8)
                st = pick(renders if x < 3 else drops if x < 5 else edits)
                if st == h[-1] and st[0] in ("render", "gc"):
                    continue
                h.append(st)
            key = repr(h)
            if key not in seen:
                seen.add(key)
                yield tuple(h)
                break


def gc_observations(spec, tier):
    """Observations of the seeded garbage-collection histories: the default ones plus the vertical-resize render."""
    obs = observations(spec, tier)
    if _typ_of(spec) == "box":
        obs = [*obs, ("render", 2, True)]
    return obs


def histories(spec, alpha_tier, max_len, mode, seed):
    alpha = alphabet(spec, alpha_tier)
    if mode == "full":
        for L in range(1, max_len + 1):
            for h in itertools.product(alpha, repeat=L):
                if admissible(h):
                    yield h
    else:
        # a per-tree deterministic stream: mix the seed with a stable hash of the tree string
        s = 0
        for ch in spec_str(spec):
            s = (s * 131 + ord(ch)) % 2147483647
        r = rng(seed * 7 + s)
        renders = [a for a in alpha if a[0] == "render"]
        seen = set()
        for _ in range(mode[1]):
            for _try in range(20):
                h = [alpha[r.randrange(len(alpha))] for _ in range(max_len)]
                # make sure something gets cached early, otherwise most samples are trivial
                h[r.randrange(2)] = renders[r.randrange(len(renders))]
                h = tuple(h)
                key = repr(h)
                if admissible(h) and key not in seen:
                    seen.add(key)
                    yield h
                    break


def gc_family(spec, tier):
    """The garbage-collection family (see the module docstring): yields (history, observations).

        [render A, render B, drop+gc, edit]            (4 steps)   edit: every mutator of a non-root node, keys, mouse
        [render A, edit1, render B, drop+gc, edit2]    (5 steps)   edit1: every mutator of a non-root node; edit2 = edit1 again
                                                                   (its next value)

    A -> B (size index, focus), quick: (0,T)->(0,F), (0,F)->(0,T) (focus flip: same size), (0,T)->(1,T) (other width),
    box roots also (0,T)->(2,T) (vertical resize, see sizes_for); drop = all held canvases but the latest.
    thorough adds the reverse pairs, (1,T)->(1,F), (0,F)->(1,T) / (0,F)->(2,F), (2,T)->(1,T); drop in {all but the latest,
    all but the first, all}; the mutators of the root as edits; edit2 also = the first mutator of edit1's node.
    Observed at the end: render B, render A, and rows at B for flow roots."""
    typ = _typ_of(spec)
    quick = tier == "quick"
    T, F = True, False
    pairs = [((0, T), (0, F)), ((0, F), (0, T)), ((0, T), (1, T))]
    if typ == "box":
        pairs.append(((0, T), (2, T)))
    if not quick:
        pairs += [((1, T), (0, T)), ((1, T), (1, F)), ((0, F), (1, T))]
        if typ == "box":
            pairs += [((2, T), (0, T)), ((0, F), (2, F)), ((2, T), (1, T))]
    drops = ["keep_last"] if quick else ["keep_last", "keep_first", "drop_all"]
    alpha = alphabet(spec, tier)
    muts = [a for a in alpha if a[0] == "mut" and (a[1] or not quick)]
    inputs = [a for a in alpha if a[0] in ("key", "mouse")]
    first_of_node = {}
    for m in muts:
        first_of_node.setdefault(tuple(m[1]), m)
    for (sa, fa), (sb, fb) in pairs:
        ra, rb = ("render", sa, fa), ("render", sb, fb)
        obs = [rb, ra] + ([("rows", sb, fb)] if typ == "flow" else [])
        for d in drops:
            g = ("gc", d)
            for m in muts + inputs:
                yield (ra, rb, g, m), obs
            for m1 in muts:
                seconds = [m1]
                if not quick and first_of_node[tuple(m1[1])] != m1:
                    seconds.append(first_of_node[tuple(m1[1])])
                for m2 in seconds:
                    yield (ra, m1, rb, g, m2), obs


MAX_FAIL_PER_TREE = 6


def work(task):
    """One tree: returns counters and (shrunk) failures per clause."""
    idx, spec, tier, hist_len, mode, seed, do_final = task
    t0 = time.process_time()
    gc.freeze()  # gc.collect() steps then only look at objects created from here on (undone below)
    res = {
        "idx": idx, "spec": spec, "mode": mode if mode in ("full", "gc") else "sample",
        "n": {"cached-equals-fresh": 0, "rows-cached-equals-fresh": 0, "handed-out-unchanged": 0},
        "nontrivial": {"cached-equals-fresh": 0, "rows-cached-equals-fresh": 0, "handed-out-unchanged": 0},
        "fail": {"cached-equals-fresh": [], "rows-cached-equals-fresh": [], "handed-out-unchanged": []},
        "nfail": {"cached-equals-fresh": 0, "rows-cached-equals-fresh": 0, "handed-out-unchanged": 0},
        "groups": {}, "examples": {}, "step_exc": {}, "both_raise": {}, "final": [],
    }
    flow = _typ_of(spec) == "flow"
    seen_sig = {}
    try:
        with _Guard():
            if mode == "gc":
                source = gc_family(spec, tier)
            elif mode[0] == "gcsample":
                gobs = gc_observations(spec, tier)
                source = ((h, gobs) for h in gc_sampled(spec, tier, hist_len, mode[1], seed))
            else:
                source = ((h, None) for h in histories(spec, tier, hist_len, mode, seed))
            for h, obs in source:
                r = evaluate(spec, h, tier, obs)
                for st, en in r["step_exc"]:
                    k = f"{spec_str(spec)}:{st}:{en}"
                    res["step_exc"][k] = res["step_exc"].get(k, 0) + 1
                clauses = ["cached-equals-fresh", "handed-out-unchanged"] + (["rows-cached-equals-fresh"] if flow else [])
                for cl in clauses:
                    res["n"][cl] += 1
                if r["trivial"]:
                    continue
                for ob, a, b in r["render"] + r["rows"]:
                    if a[0] == "raised" and b[0] == "raised":
                        k = f"{spec_str(spec)}:{a[1]}:{a[2][:60]}"
                        res["both_raise"][k] = res["both_raise"].get(k, 0) + 1
                for cl in clauses:
                    res["nontrivial"][cl] += 1
                    bad = (r["handed_bad"] is not None) if cl == "handed-out-unchanged" else (_first_diff(r["render" if cl == "cached-equals-fresh" else "rows"]) is not None)
                    if not bad:
                        continue
                    res["nfail"][cl] += 1
                    if res["nfail"][cl] <= 12:
                        mini = shrink(spec, h, cl, tier, obs)
                        sig = signature(spec, mini)
                    else:
                        mini, sig = None, "(not minimised)"
                    g = f"{cl}|{sig}"
                    res["groups"][g] = res["groups"].get(g, 0) + 1
                    if mini is not None:
                        res["examples"].setdefault(g, {"tree": spec_str(spec), "minimal_history": [list(map(_j, st)) for st in mini]})
                    if mini is not None and seen_sig.get(g, 0) < 1 and len(res["fail"][cl]) < MAX_FAIL_PER_TREE:
                        seen_sig[g] = seen_sig.get(g, 0) + 1
                        res["fail"][cl].append(_detail(spec, h, cl, r, mini, tier, obs))
            if do_final:
                res["final"] = finalized_cases(spec)
    finally:
        gc.unfreeze()
    res["cpu"] = time.process_time() - t0
    return res


class _Counted:
    """Stand-in for Check.nontrivial when every evaluated case is distinct by construction (tree x
    distinct step sequence): keeps only the count instead of millions of keys."""

    def __init__(self):
        self.k = 0

    def add(self, _key):
        self.k += 1

    def __len__(self):
        return self.k


def run(tier="quick", seed=0):
    t_start = time.time()
    plan = select_trees(tier, seed)
    tasks, seen_tree = [], set()
    for i, (spec, atier, L, mode) in enumerate(plan):
        tasks.append((i, spec, atier, L, mode, seed, spec_str(spec) not in seen_tree))
        seen_tree.add(spec_str(spec))

    def cost(t):  # rough size of a plan, only used to start the big ones first
        n = len(alphabet(t[1], t[2]))
        if t[4] == "gc":
            return n * (12 if t[2] == "quick" else 120)
        return n ** t[3] if t[4] == "full" else t[4][1] * 3

    order = sorted(tasks, key=cost, reverse=True)
    nproc = min(16, os.cpu_count() or 1, len(tasks))
    if multiprocessing.current_process().daemon:
        nproc = 1  # a daemonic pool worker may not have children; run in-process
    if nproc > 1:
        ctx = multiprocessing.get_context("fork")
        with ctx.Pool(nproc) as pool:
            results = list(pool.imap_unordered(work, order, chunksize=1))
    else:
        results = [work(t) for t in order]
    results.sort(key=lambda r: r["idx"])

    ntrees = len(seen_tree)
    if tier == "quick":
        scope = "all 12 leaves alone (histories <= 3 steps, exhaustive), all 204 root+leaf trees (<= 2 steps exhaustive; 100 seeded 3-step histories on one tree per root kind), 1 seeded root+middle+leaf tree per middle kind (<= 2 steps exhaustive)"
    else:
        scope = "all 12 leaves alone (<= 3 steps exhaustive over the full alphabet, 3000 seeded 4-step), all 204 root+leaf trees (<= 2 steps full alphabet exhaustive; 3 steps over the reduced alphabet exhaustive on a set covering every root and leaf kind, 250 seeded on the others; 80 seeded 4-step), 150 seeded depth-2 trees (<= 2 exhaustive, 150 seeded 3-step) and 100 seeded depth-3 trees (<= 2 exhaustive, 100 seeded 4-step); sampled-histories also: 80 seeded 8-step histories per root+leaf tree over the garbage-collection alphabet (renders incl. a vertical resize, 3 ways of dropping held canvases + gc.collect(), every mutator, keys, mouse)"
    bound = (
        f"{len(KINDS)} widget kinds ({len(LEAVES)} leaves, {len(INNER)} decorations/containers) in chain-shaped trees with fixed siblings, {ntrees} trees: {scope}; "
        "steps = render(2 sizes x focus) / rows / every public mutator of every node / keys and mouse at the root / drop held canvases + gc.collect(); "
        "after the root observations of the first run (not in the gc-histories family), every still-cached canvas of a grammar-named descendant is compared with that descendant's render after CanvasCache.clear(); "
        f"each history observed at its end by {4 if tier == 'quick' else 5} renders (+{1 if tier == 'quick' else 2} rows for flow roots) in two runs (cache as-is / CanvasCache.clear() first)"
    )
    gc_bound = (
        "garbage-collection family on " + ("every root+leaf tree and the depth-2 trees above" if tier == "quick" else "every leaf alone, every root+leaf tree (thorough family) and the seeded depth-2/3 trees above (quick family)")
        + ": [render A, (edit1,) render B, drop held canvases + gc.collect(), edit2] observed by render B, render A (+rows at B for flow roots) in two runs; "
        "A->B changes the root's cache key and keeps that of descendants: focus flip at one size, other width, vertical resize (box roots: (10,6)->(10,7)); "
        + ("4 key pairs, drop = all but the latest canvas, edits = every mutator of every non-root node (+3 keys, 1 mouse press for the 4-step form), edit2 = edit1 again" if tier == "quick"
           else "10 key pairs (7 for flow roots), drop in {all but the latest, all but the first, all}, edits = every mutator of every node (+5 keys, 3 mouse presses for the 4-step form), edit2 in {edit1 again, first mutator of the same node}")
    )
    checks = {}
    for cl in ("cached-equals-fresh", "rows-cached-equals-fresh", "handed-out-unchanged"):
        for mode in ("full", "sample", "gc"):
            name = f"{ID}/{cl}" + {"full": "", "sample": "/sampled-histories", "gc": "/gc-histories"}[mode]
            c = Check(name, RULES[cl], mode != "sample", gc_bound if mode == "gc" else bound)
            c.t0 = t_start
            c.nontrivial = _Counted()
            c.groups = {}
            c.examples = {}
            checks[cl, mode] = c
    fin = Check(f"{ID}/finalized-refuse-mutation", RULES["finalized-refuse-mutation"], True, "every tree of the exhaustive plans rendered at 2 sizes x focus; every canvas in the returned canvas tree that carries widget_info x 12 mutators")
    fin.t0 = t_start
    diag = {"step_exc": {}, "both_raise": {}}
    cpu = 0.0
    for r in results:
        cpu += r["cpu"]
        for cl in ("cached-equals-fresh", "rows-cached-equals-fresh", "handed-out-unchanged"):
            c = checks[cl, r["mode"]]
            c.evaluations += r["n"][cl]
            c.nontrivial.k += r["nontrivial"][cl]
            if len(c.samples) < 3 and r["n"][cl]:
                c.samples.append({"tree": spec_str(r["spec"]), "histories": r["n"][cl], "nontrivial": r["nontrivial"][cl], "failing": r["nfail"][cl]})
            c.failures.extend(r["fail"][cl])
        for g, n in r["groups"].items():
            cl, sig = g.split("|", 1)
            c = checks[cl, r["mode"]]
            c.groups[sig] = c.groups.get(sig, 0) + n
            if g in r["examples"]:
                c.examples.setdefault(sig, r["examples"][g])
        for k in ("step_exc", "both_raise"):
            for kk, n in r[k].items():
                diag[k][kk] = diag[k].get(kk, 0) + n
        for key, ok, detail in r["final"]:
            fin.case(key, ok, detail, True, {"tree": spec_str(detail["tree"]), "canvas": detail["canvas_class"], "mutator": detail["mutator"]})
    out = []
    for c in checks.values():
        # kept failures (at most 20): first one per family (widget kind of the last mutator of the minimal
        # history), then one per signature, shortest minimal history first
        def family(f):
            last = f.get("signature", "").split("+")[-1]
            return last.split(".")[0].split(":")[0]

        ordered = sorted(c.failures, key=lambda f: (len(f.get("minimal_history", f["history"])), f.get("signature", "")))
        fams, sigs, first, second, rest = set(), set(), [], [], []
        for f in ordered:
            if family(f) not in fams:
                first.append(f)
            elif f.get("signature") not in sigs:
                second.append(f)
            else:
                rest.append(f)
            fams.add(family(f))
            sigs.add(f.get("signature"))
        c.failures = (first + second + rest)[:20]
        res = c.result()
        res["failure_groups"] = dict(sorted(c.groups.items(), key=lambda kv: -kv[1]))
        res["failure_group_examples"] = c.examples
        out.append(res)
    out.append(fin.result())
    return {"checks": out, "bound": bound, "diagnostics": {"trees": len({spec_str(r["spec"]) for r in results}), "plans": len(results), "cpu_s": round(cpu, 1), "wall_s": round(time.time() - t_start, 1), "history_step_exceptions": diag["step_exc"], "raised_in_both_runs": diag["both_raise"]}}


def replay(check_name, case):
    def tup(st):
        return tuple(st)

    with _Guard():
        if check_name.endswith("finalized-refuse-mutation"):
            for _key, ok, detail in finalized_cases(case["tree"]):
                if not ok and detail["mutator"] == case["mutator"] and detail["canvas_class"] == case["canvas_class"] and detail["widget"] == case["widget"]:
                    return {"outcome": "confirmed", "detail": detail}
            return {"outcome": "not-reproduced", "detail": {}}
        clause = case.get("clause") or check_name.split("/")[1]
        spec = case["tree"]
        hist = [tup(st) for st in case.get("minimal_history") or case["history"]]
        tier = case.get("obs_tier", "thorough")
        obs = [tup(ob) for ob in case["observations"]] if case.get("observations") else None
        r = evaluate(spec, hist, tier, obs)
        if r["trivial"]:
            return {"outcome": "not-reproduced", "detail": {"trivial": True}}
        if clause == "handed-out-unchanged":
            bad = r["handed_bad"] is not None
        else:
            bad = _first_diff(r["render" if clause == "cached-equals-fresh" else "rows"]) is not None
        if bad:
            return {"outcome": "confirmed", "detail": _detail(spec, hist, clause, r, None, tier, obs)}
        return {"outcome": "not-reproduced", "detail": {"history": [list(map(_j, st)) for st in hist]}}
