"""C15 bounded stand-in: urwid.vterm.TermCanvas driven directly (fake widget, no process, no tty).

Clauses of the statement -> checks
  (1) never raises / grid exactly height x width / cursor and scrolling region inside / well-formed
      DSR, CPR (and DA) replies, for byte streams x resizes x chunkings:
        C15/robust-bytes         all byte strings up to length 3 over 24 representative bytes
        C15/robust-csi-params    every CSI final 0x40..0x7e x parameter lists x mode contexts
        C15/robust-huge-params   the same finals with a 10^9 parameter (must return promptly)
        C15/robust-osc           OSC strings with valid/invalid payloads and every terminator
        C15/robust-charset-utf8  charset designations/shifts x valid, truncated, invalid UTF-8
        C15/robust-view-shape    scrolled-back view x resizes: content() stays height x width
        C15/robust-tabs-resize   widening across multiples of 8 columns, then HT / HTS / TBC in the new columns
                                 (cursor column against a VT100 tab-stop oracle: default stops persist / extend)
      "a grid of exactly height rows by width cells" also means height x width *independent* cells: after every
      step of every history no two rows of `term` / the scroll-back are one and the same list object (`aliasing`;
      a write to one of two aliased rows shows up in the other).  The deductive contracts hold rows by value and
      cannot see this by construction, so it is decided here.
  (2) screen contents and cursor equal a reference VT100 (spec/vt100.py) on the statement's subset:
        C15/faithful-<family>    exhaustive token sequences per family (text, cursor, erase, insdel,
                                 region, sgr) + C15/faithful-mixed (seeded random, all families)
        C15/faithful-resize      the same with resizes as tokens (spec/vt100.py VT100.resize): height grown by
                                 1, 2, 3 rows with an empty / a partly sufficient scroll-back, width grown and
                                 shrunk, then cursor addressing and output into the new rows / columns
        C15/faithful-sgr-accumulate  SGR sequences (each followed by a printed cell) that select 24-bit, 256-colour,
                                 basic and bright colours on either side and non-resetting later SGRs
        C15/faithful-canvas-cursor  the displayed cursor (TermCanvas.cursor) on the same cases
  (3) lines scrolled off the top are kept in order and shown when scrolled back:
        C15/scrollback-kept, C15/scrollback-view

All histories go through `run_history` (robustness), `faithful_case` or `scrollback_case`, which
`replay` re-executes from the JSON detail.  Exhaustive faithfulness enumerations are *pruned below a
failing or ambiguous sequence* (extensions of a diverged history carry no new information), so
`failures` holds minimal diverging sequences; at most MAX_PER_SIG are stored per signature (last token +
differing aspect, or the broken invariant) and all are counted in the extra result key
`failure_classes`.  Work is sharded over a fork pool; shards are merged in a fixed order, so the result
is deterministic for a given (tier, seed).
"""
from __future__ import annotations

import contextlib
import itertools
import multiprocessing as mp
import os
import re
import signal
import threading
import time

from bounded.common import Check, rng
from spec.vt100 import ANY, VT100, Ambiguous, OutOfSubset, colour_matches

from urwid import str_util, util, vterm
from urwid.display import AttrSpec

ESC = b"\x1b"
MAX_PER_SIG = 2
MAX_FAILURES = 20
SIZES = [(1, 1), (2, 3), (5, 4)]  # (width, height) -- the sizes named in DESIGN.md


# --------------------------------------------------------------------------------------------------
# plumbing
class _Hang(BaseException):
    pass


@contextlib.contextmanager
def guard(seconds):
    """Raise _Hang in the code under test if it does not return in `seconds` (main thread only)."""
    if threading.current_thread() is not threading.main_thread():
        yield
        return

    def _h(_sig, _frm):
        raise _Hang

    # CPU time of this process (ITIMER_VIRTUAL), not wall-clock time: a busy machine must not turn a slow but
    # returning call into a "hang"; a real hang (the emulator looping over a huge parameter) burns CPU and is caught
    old = signal.signal(signal.SIGVTALRM, _h)
    signal.setitimer(signal.ITIMER_VIRTUAL, seconds)
    try:
        yield
    finally:
        signal.setitimer(signal.ITIMER_VIRTUAL, 0)
        signal.signal(signal.SIGVTALRM, old)


@contextlib.contextmanager
def encoding(enc):
    saved = (util._target_encoding, util._use_dec_special, str_util.get_byte_encoding())  # noqa: SLF001
    try:
        util.set_encoding(enc)
        yield
    finally:
        util._target_encoding, util._use_dec_special = saved[0], saved[1]  # noqa: SLF001
        str_util.set_byte_encoding(saved[2])


class FakeWidget:
    """What TermCanvas needs from its Terminal: term_modes, respond, set_title, beep, leds."""

    def __init__(self):
        self.term_modes = vterm.TermModes()
        self.replies = []  # (string, width, height) at the time of the reply
        self.titles = []
        self.tc = None

    def respond(self, string):
        self.replies.append((string, self.tc.width if self.tc else None, self.tc.height if self.tc else None))

    def set_title(self, title):
        self.titles.append(title)

    def beep(self):
        pass

    def leds(self, which):
        pass


def make(w, h, focus=False):
    wd = FakeWidget()
    tc = vterm.TermCanvas(w, h, wd)
    wd.tc = tc
    if focus:  # what Terminal.change_focus does
        tc.has_focus = True
        tc.set_term_cursor()
    return tc, wd


class Shard:
    """Round-robin ownership of outer-loop work units."""

    def __init__(self, i=0, n=1):
        self.i, self.n, self.c = i, n, 0

    def mine(self):
        self.c += 1
        return (self.c - 1) % self.n == self.i


class SigCheck(Check):
    """Check that stores at most MAX_PER_SIG failures per signature and counts all of them."""

    def __init__(self, *a, **k):
        super().__init__(*a, **k)
        self.classes = {}
        self.by_sig = {}  # sig -> stored details
        self.counters = {}

    def case(self, key, ok, detail=None, nontrivial=True, sample=None, sig=None):
        self.evaluations += 1
        if nontrivial:
            self.nontrivial.add(key)
        if len(self.samples) < 3 and sample is not None:
            self.samples.append(sample)
        if not ok:
            sig = sig or "failure"
            self.classes[sig] = self.classes.get(sig, 0) + 1
            lst = self.by_sig.setdefault(sig, [])
            if len(lst) < MAX_PER_SIG:
                lst.append(detail if detail is not None else {"case": repr(key)})

    def count(self, name, n=1):
        self.counters[name] = self.counters.get(name, 0) + n

    def absorb(self, other):
        self.evaluations += other.evaluations
        self.nontrivial |= other.nontrivial
        self.samples = (self.samples + other.samples)[:3]
        for sig, n in other.classes.items():
            self.classes[sig] = self.classes.get(sig, 0) + n
        for sig, lst in other.by_sig.items():
            mine = self.by_sig.setdefault(sig, [])
            mine.extend(lst[: MAX_PER_SIG - len(mine)])
        for k, v in other.counters.items():
            self.count(k, v)
        self.t0 = min(self.t0, other.t0)

    def result(self):
        # one failure of every signature first (most frequent signature first), then the second ones
        order = sorted(self.by_sig, key=lambda s: (-self.classes[s], s))
        self.failures = [self.by_sig[s][k] for k in range(MAX_PER_SIG) for s in order if len(self.by_sig[s]) > k][:MAX_FAILURES]
        r = super().result()
        r["failure_classes"] = {s: self.classes[s] for s in order}
        r["failing_evaluations"] = sum(self.classes.values())
        r.update(self.counters)
        return r


# --------------------------------------------------------------------------------------------------
# (1) robustness: histories and the grid invariant
_RE_DSR = re.compile(r"^\x1b\[0n$")
_RE_CPR = re.compile(r"^\x1b\[([1-9][0-9]*);([1-9][0-9]*)R$")
_RE_DA = re.compile(r"^\x1b\[\?[0-9;]+c$")


def reply_problem(reply):
    s, w, h = reply
    if not isinstance(s, str):
        return f"reply is {type(s).__name__}, not str"
    try:
        s.encode("ascii")
    except UnicodeError:
        return f"reply {s!r} is not ASCII"
    if _RE_DSR.match(s) or _RE_DA.match(s):
        return None
    m = _RE_CPR.match(s)
    if m:
        r, c = int(m.group(1)), int(m.group(2))
        if not (1 <= r <= h and 1 <= c <= w):
            return f"cursor position report {s!r} outside the {w}x{h} screen"
        return None
    return f"malformed reply {s!r}"


def _cell_ok(cell):
    return isinstance(cell, tuple) and len(cell) == 3 and (cell[0] is None or isinstance(cell[0], AttrSpec)) and (cell[1] is None or isinstance(cell[1], str)) and isinstance(cell[2], bytes) and len(cell[2]) > 0


def aliasing(tc):
    """Statement: "keeps a grid of exactly height rows by width cells".  height x width cells are height x width
    independent places: two rows that are the same list object are one row shown twice.  Returns None or a
    description of the first pair of rows of term + scroll-back that are the same object."""
    seen = {}
    for where, rows in (("term", tc.term), ("scrollback", tc.scrollback_buffer)):
        for i, row in enumerate(rows):
            if id(row) in seen:
                return f"{where} row {i} is the very same list object as {seen[id(row)][0]} row {seen[id(row)][1]}: a write to a cell of one changes the other"
            seen[id(row)] = (where, i)
    return None


def invariants(tc, wd, w, h):
    """The grid invariant GI of the statement.  Returns [(signature, reason), ...] (empty = holds).
    May raise if content() raises (the caller reports that as an exception of the code under test)."""
    out = []
    if (tc.width, tc.height) != (w, h) or (tc.cols(), tc.rows()) != (w, h):
        out.append(("size", f"size is {tc.width}x{tc.height} (cols/rows {tc.cols()}x{tc.rows()}), expected {w}x{h}"))
    if len(tc.term) != h:
        out.append(("term rows", f"term has {len(tc.term)} rows, expected {h}"))
    for y, row in enumerate(tc.term):
        if len(row) != w:
            out.append(("term row width", f"term row {y} has {len(row)} cells, expected {w}"))
            break
    al = aliasing(tc)
    if al:
        out.append(("row aliasing", al))
    rows = list(tc.content())
    if len(rows) != h:
        out.append(("content rows", f"content() yields {len(rows)} rows, expected {h}"))
    for y, row in enumerate(rows):
        if len(row) != w:
            out.append(("content row width", f"content() row {y} has {len(row)} cells, expected {w}"))
            break
        bad = [cell for cell in row if not _cell_ok(cell)]
        if bad:
            out.append(("cell", f"content() row {y} has a malformed cell {bad[0]!r}"))
            break
    x, y = tc.term_cursor
    if not (0 <= x < w and 0 <= y < h):
        out.append(("term_cursor", f"term_cursor {tc.term_cursor} outside {w}x{h}"))
    cur = tc.cursor
    if cur is not None and not (0 <= cur[0] < w and 0 <= cur[1] < h):
        out.append(("canvas cursor", f"canvas cursor {cur} outside {w}x{h} (term_cursor {tc.term_cursor})"))
    if not (0 <= tc.scrollregion_start <= tc.scrollregion_end <= h - 1):
        out.append(("scrolling region", f"scrolling region [{tc.scrollregion_start},{tc.scrollregion_end}] not inside 0..{h - 1}"))
    if not (0 <= tc.scrolling_up <= len(tc.scrollback_buffer)):
        out.append(("scrolling_up", f"scrolling_up {tc.scrolling_up} outside 0..{len(tc.scrollback_buffer)}"))
    if len(tc.tabstops) * 8 < w:  # emulator state `tabstops` (one bit per column): HT / HTS / TBC index it by the cursor column
        out.append(("tab-stop table", f"tab-stop table has {len(tc.tabstops)} bytes = {len(tc.tabstops) * 8} columns, the screen has {w}"))
    for rep in wd.replies:
        p = reply_problem(rep)
        if p:
            out.append(("reply", p))
            break
    for t in wd.titles:
        if not isinstance(t, str):
            out.append(("title", f"title {t!r} is not str"))
            break
    return out


def tail_bytes(h):
    """Probe appended to histories: leave any sequence (CAN), ask for the cursor position and status,
    then scroll forwards and backwards through the whole screen and tab, so latent bad state surfaces."""
    return b"\x18" + ESC + b"[6n" + ESC + b"[5n" + b"ab\r\n" * (h + 1) + (ESC + b"M") * (h + 1) + b"\tz"


def run_history(enc, size, focus, ops, timeout=2.0):
    """Execute ops on a fresh TermCanvas, checking GI after every op.  Returns [(sig, why), ...]:
    every distinct broken invariant (first occurrence), and/or the exception/hang that ended the run."""
    found = {}

    def note(where, probs):
        for sig, why in probs:
            found.setdefault(sig, f"{where}: {why}")

    with encoding(enc):
        w, h = size
        try:
            with guard(timeout):
                tc, wd = make(w, h, focus)
                note("initially", invariants(tc, wd, w, h))
        except _Hang:
            return [("hang", f"constructor did not return within {timeout}s")]
        except Exception as e:  # noqa: BLE001
            return [(f"raised {type(e).__name__}", f"constructor raised {type(e).__name__}: {e}")]
        for i, op in enumerate(ops):
            try:
                with guard(timeout):
                    if op[0] == "feed":
                        tc.addstr(op[1])
                    elif op[0] == "feed1":  # one byte per addstr call (chunking)
                        for b in op[1]:
                            tc.addstr(bytes([b]))
                    elif op[0] == "resize":
                        w, h = op[1], op[2]
                        tc.resize(w, h)
                    elif op[0] == "view":  # ("view", up, lines)
                        tc.scroll_buffer(up=op[1], lines=op[2])
                    elif op[0] == "view_reset":
                        tc.scroll_buffer(reset=True)
                    elif op[0] == "tail":
                        tc.addstr(tail_bytes(h))
                    elif op[0] == "feedx":  # ("feedx", bytes, column the cursor must be in afterwards): tab-stop oracle, no GI pass
                        tc.addstr(op[1])
                        if tc.term_cursor[0] != op[2]:
                            found.setdefault("cursor column", f"after op {i} {_op_json(op)}: cursor in column {tc.term_cursor[0]}, expected {op[2]} (size {w}x{h})")
                        continue
                    else:
                        raise AssertionError(op)
                    note(f"after op {i} {_op_json(op)}", invariants(tc, wd, w, h))
            except _Hang:
                found.setdefault("hang", f"op {i} {_op_json(op)} did not return within {timeout}s")
                break
            except Exception as e:  # noqa: BLE001
                found.setdefault(f"raised {type(e).__name__}", f"op {i} {_op_json(op)} raised {type(e).__name__}: {e}")
                break
    return list(found.items())


def _op_json(op):
    return [op[0], *[(o.hex() if isinstance(o, bytes) else o) for o in op[1:]]]


def _op_unjson(op):
    if op[0] in ("feed", "feed1"):
        return (op[0], bytes.fromhex(op[1]))
    if op[0] == "feedx":
        return (op[0], bytes.fromhex(op[1]), op[2])
    return tuple(op)


def _hist_detail(enc, size, focus, ops, probs, timeout):
    py = ["from urwid import vterm, util", f"util.set_encoding({enc!r})", "class W:", "    term_modes = vterm.TermModes(); respond = set_title = leds = staticmethod(print); beep = staticmethod(lambda: None)", f"t = vterm.TermCanvas({size[0]}, {size[1]}, W())"]
    if focus:
        py.append("t.has_focus = True")
    show = "; print((t.width, t.height), len(t.term), len({id(r) for r in [*t.term, *t.scrollback_buffer]}) - len(t.scrollback_buffer), [len(r) for r in t.content()], t.term_cursor, t.cursor, (t.scrollregion_start, t.scrollregion_end))"
    cur_h = size[1]
    for op in ops:
        if op[0] in ("feed", "feed1"):
            py.append(f"t.addstr({op[1]!r})" + show)
        elif op[0] == "feedx":
            py.append(f"t.addstr({op[1]!r}); print(t.term_cursor, 'expected column', {op[2]})")
        elif op[0] == "resize":
            py.append(f"t.resize({op[1]}, {op[2]})" + show)
            cur_h = op[2]
        elif op[0] == "view":
            py.append(f"t.scroll_buffer(up={op[1]}, lines={op[2]})" + show)
        elif op[0] == "view_reset":
            py.append("t.scroll_buffer(reset=True)" + show)
        elif op[0] == "tail":
            py.append(f"t.addstr({tail_bytes(cur_h)!r})" + show)
    return {"enc": enc, "size": list(size), "focus": focus, "ops": [_op_json(o) for o in ops], "timeout": timeout, "sig": " + ".join(sorted(s for s, _ in probs)), "why": "; ".join(wy for _, wy in probs), "python": py}


def _eval_history(chk, key, enc, size, focus, ops, timeout=2.0, extra_sig=""):
    probs = run_history(enc, size, focus, ops, timeout)
    if not probs:
        chk.case(key, True, None, True, sample={"enc": enc, "size": list(size), "ops": [_op_json(o) for o in ops]})
    else:
        d = _hist_detail(enc, size, focus, ops, probs, timeout)
        d["sig"] = extra_sig + d["sig"]
        chk.case(key, False, d, True, sig=d["sig"])


# 24 representative bytes: C0 (BS HT LF CR BEL CAN), ESC, C1 CSI, '[' ']' '?' ';', digits 0 1 6,
# finals/letters H M r n c A, UTF-8 2-byte lead / continuation / 4-byte lead
ALPHABET = [0x08, 0x09, 0x0A, 0x0D, 0x07, 0x18, 0x1B, 0x9B, 0x5B, 0x5D, 0x3F, 0x3B, 0x30, 0x31, 0x36, 0x48, 0x4D, 0x72, 0x6E, 0x63, 0x41, 0xC3, 0xA9, 0xF0]
BYTE_CONTEXTS = [b"", ESC + b"[", ESC + b"]"]  # ground / inside a CSI / inside an OSC


def _resize_variants(n, size):
    """Histories for a string of n bytes starting at `size`: plain, byte-wise chunked, and a resize to
    each other size before byte k for every k in 0..n (k = n: after the string)."""
    out = [("whole",), ("bytewise",)]
    for k in range(n + 1):
        for tgt in SIZES:
            if tgt != size:
                out.append(("split", k, tgt))
    return out


def _bytes_history(ctx, s, v):
    ops = [("feed", ctx)] if ctx else []
    if v[0] == "whole":
        ops.append(("feed", s))
    elif v[0] == "bytewise":
        ops.append(("feed1", s))
    else:
        _, k, tgt = v
        if s[:k]:
            ops.append(("feed", s[:k]))
        ops.append(("resize", tgt[0], tgt[1]))
        if s[k:]:
            ops.append(("feed", s[k:]))
    ops.append(("tail",))
    return ops


def check_robust_bytes(tier, seed, sh):
    quick = tier == "quick"
    r = rng(seed)
    encs = ["utf8", "ascii"]
    maxlen = 2 if quick else 3
    nsample = 500
    chk = SigCheck("C15/robust-bytes", "fresh focused TermCanvas x context prefix (ground, inside CSI, inside OSC) x every byte string over 24 representative bytes x {whole, byte-wise feeds, resize to each other size before byte k for every k} x encodings, then a probe tail (CAN, CPR+DSR query, scroll through, reverse index, tab): no exception, GI after every step, well-formed replies", not quick, f"24-byte alphabet, strings of length <= {maxlen}" + (f" + {nsample} sampled strings of length 3 with one sampled variant each" if quick else "") + f", sizes {SIZES}, encodings {encs}" + (" (ascii only from the ground context in the quick tier)" if quick else ""))
    strings = [(bytes(t), None) for L in range(maxlen + 1) for t in itertools.product(ALPHABET, repeat=L)]
    if quick:
        strings += [(bytes(r.choice(ALPHABET) for _ in range(3)), r.randrange(10)) for _ in range(nsample)]
    for s, pick in strings:
        if not sh.mine():
            continue
        for enc in encs:
            for size in SIZES:
                for ctx in BYTE_CONTEXTS:
                    if quick and enc != "utf8" and ctx:
                        continue
                    variants = _resize_variants(len(s), size)
                    if pick is not None:
                        variants = [variants[pick % len(variants)]]
                    for v in variants:
                        _eval_history(chk, (enc, size, ctx, s, v), enc, size, True, _bytes_history(ctx, s, v))
    return [chk]


CSI_FINALS = [bytes([b]) for b in range(0x40, 0x7F)]
MODE_CONTEXTS = [
    b"",
    ESC + b"[?6h",  # origin mode
    ESC + b"[2;3r",  # scrolling region (valid when height >= 3)
    ESC + b"[2;3r" + ESC + b"[?6h" + ESC + b"[99;99H",
    ESC + b"[4h",  # insert mode
    ESC + b"[?7l",  # autowrap off
    ESC + b"[99;99Hx",  # cursor bottom right, last-column state
    ESC + b"[3h",  # display-controls mode
    ESC + b"[11m",  # IBM-PC mapping
]


def _param_lists(w, h, quick):
    singles = list(dict.fromkeys(["", "0", "1", str(w), str(h), str(max(w, h) + 1), "70000"]))
    pv = list(dict.fromkeys(["", "0", "1", str(h), str(max(w, h) + 1), "70000"]))
    if quick:
        pv = list(dict.fromkeys(["", "1", str(max(w, h) + 1), "70000"]))
    return singles + [f"{a};{b}" for a in pv for b in pv] + ["1;2;3", ";;", "5;6;7;25;2004;1;3;4;20"]


SGR_LISTS = ["", "0", "1", "7", "31", "42", "91", "104", "39;49", "1;31", "38;5;0", "38;5;15", "38;5;16", "38;5;255", "38;5;256", "48;5;70000", "38;2;1;2;3", "48;2;255;255;255", "38;2;256;0;0", "38;2;70000;70000;70000", "38;5", "38;2;1", "38", "48", "10", "11", "12", "0;1;4;5;7;31;42", "24;25;27"]


def check_robust_csi(tier, seed, sh):
    quick = tier == "quick"
    encs = ["utf8"] if quick else ["utf8", "ascii"]
    sizes = SIZES if quick else [*SIZES, (9, 2)]
    ctxs = [MODE_CONTEXTS[i] for i in (0, 3, 4, 6)] if quick else MODE_CONTEXTS
    chk = SigCheck("C15/robust-csi-params", "mode context x CSI [?] params final for every final byte 0x40..0x7e and parameter lists over {missing, 0, 1, width, height, size+1, 70000} (singles, pairs, longer) with ESC[ and with the C1 introducer, then a resize and the probe tail; plus pairs of SGR parameter lists (colours in/out of range, truncated extended colours, styles, charset mapping) around text and an erase: no exception, GI, well-formed replies", True, f"finals 0x40..0x7e, sizes {sizes}, {len(ctxs)} mode contexts, encodings {encs}, {len(SGR_LISTS)}^2 SGR pairs")
    for enc in encs:
        for si, size in enumerate(sizes):
            other = sizes[(si + 1) % len(sizes)]
            plists = _param_lists(*size, quick)
            for ctx in ctxs:
                for final in CSI_FINALS:
                    if not sh.mine():
                        continue
                    for q in (b"", b"?"):
                        for p in plists:
                            if quick and q and ";" in p:
                                continue
                            seq = ESC + b"[" + q + p.encode() + final
                            ops = ([("feed", ctx)] if ctx else []) + [("feed", seq), ("resize", *other), ("tail",)]
                            _eval_history(chk, (enc, size, ctx, seq), enc, size, True, ops)
            # C1 introducer (only meaningful when bytes >= 0x80 are not UTF-8 assembled)
            for final in CSI_FINALS:
                if not sh.mine():
                    continue
                for p in ("", "0", str(max(size) + 1), "70000;70000"):
                    seq = b"\x9b" + p.encode() + final
                    _eval_history(chk, (enc, size, "c1", seq), enc, size, True, [("feed", seq), ("tail",)])
        for a in SGR_LISTS:
            if not sh.mine():
                continue
            for b in SGR_LISTS:
                seq = ESC + b"[" + a.encode() + b"mx" + ESC + b"[" + b.encode() + b"my" + ESC + b"[J"
                _eval_history(chk, (enc, "sgr", seq), enc, (5, 4), True, [("feed", seq), ("resize", 2, 3), ("tail",)])
                if not quick:
                    seq2 = ESC + b"[?5h" + seq + ESC + b"[?5l"
                    _eval_history(chk, (enc, "sgr-rv", seq2), enc, (5, 4), True, [("feed", seq2), ("tail",)])
    return [chk]


def check_robust_huge(tier, seed, sh):
    timeout = 1.0  # seconds of CPU time (see guard)
    sizes = SIZES[1:2] if tier == "quick" else SIZES[1:]
    chk = SigCheck("C15/robust-huge-params", f"CSI with a 10^9 parameter for every final byte 0x40..0x7e: must not raise, must keep GI and must return within {timeout}s of CPU time (the statement quantifies over huge parameters and the emulator has to 'survive' them: a hosted program must not be able to freeze the UI)", True, f"finals 0x40..0x7e x params {{1e9, 1;1e9, 1e9;1e9}} x sizes {sizes}, timeout {timeout}s")
    big = b"1000000000"
    for size in sizes:
        for final in CSI_FINALS:
            if not sh.mine():
                continue
            for p in (big, b"1;" + big, big + b";" + big):
                seq = ESC + b"[" + p + final
                _eval_history(chk, (size, seq), "utf8", size, True, [("feed", seq), ("tail",)], timeout=timeout, extra_sig=f"CSI {final.decode()}: ")
    return [chk]


def check_robust_osc(tier, seed, sh):
    quick = tier == "quick"
    encs = ["utf8", "ascii"] if quick else ["utf8", "utf-8", "ascii", "iso8859-1"]
    pay = [0x61, 0x3B, 0x30, 0x50, 0x52, 0x5C, 0xC3, 0xA9, 0xFF, 0x80, 0x1B, 0x0A]
    maxlen = 2 if quick else 3
    prefixes = [b"", b"0;", b"2;", b"1;", b"00002;", b"P", b"R", b";"]
    terms = [b"\x07", ESC + b"\\", b"\x9c", b"\x18", b""]
    chk = SigCheck("C15/robust-osc", "ESC ] prefix payload terminator with payload byte strings over 12 bytes (ASCII, ';', UTF-8 lead/continuation, 0xff, 0x80, ESC, LF, '\\', 'P', 'R') and terminators BEL / ESC\\ / C1 ST / CAN / none, then the probe tail: no exception, GI, titles are str", True, f"payload length <= {maxlen}, {len(prefixes)} prefixes, {len(terms)} terminators, encodings {encs}, size 5x4")
    for enc in encs:
        for pre in prefixes:
            for L in range(maxlen + 1):
                for t in itertools.product(pay, repeat=L):
                    if not sh.mine():
                        continue
                    for term in terms:
                        seq = ESC + b"]" + pre + bytes(t) + term
                        _eval_history(chk, (enc, seq), enc, (5, 4), True, [("feed", seq), ("tail",)])
    return [chk]


def check_robust_charset(tier, seed, sh):
    quick = tier == "quick"
    encs = ["utf8", "ascii"] if quick else ["utf8", "utf-8", "ascii", "iso8859-1"]
    pay = [0x41, 0x60, 0x7E, 0x80, 0x9B, 0xA9, 0xBF, 0xC0, 0xC3, 0xE2, 0xED, 0xF0, 0xF8, 0xFF]
    maxlen = 2 if quick else 3
    designations = [b"", ESC + b"(0", ESC + b")0", ESC + b"(U", ESC + b"(K", ESC + b"(B", ESC + b"%G", ESC + b"%@", ESC + b"%G" + ESC + b"(0", ESC + b"[11m", ESC + b"[12m", ESC + b"#8", ESC + b"(\xff", ESC + b"%\xc3"]
    shifts = [b"", b"\x0e", b"\x0f"]
    chk = SigCheck("C15/robust-charset-utf8", "charset designation (G0/G1 vt100, ibmpc, user, UTF-8 on/off, SGR 11/12, DECALN, junk designators) x shift (none, SO, SI) x payload byte strings over 14 bytes (ASCII incl. DEC-special '`', C1, UTF-8 lead/continuation bytes, overlong/invalid leads 0xc0 0xf8 0xff, surrogate lead 0xed) at size 2x3, then the probe tail: no exception, GI (every cell holds non-empty bytes)", True, f"payload length <= {maxlen}, {len(designations)} designations, {len(shifts)} shifts, encodings {encs}")
    for enc in encs:
        for des in designations:
            for shf in shifts:
                for L in range(1, maxlen + 1):
                    for t in itertools.product(pay, repeat=L):
                        if not sh.mine():
                            continue
                        seq = des + shf + bytes(t)
                        _eval_history(chk, (enc, seq), enc, (2, 3), True, [("feed", seq), ("tail",)])
    return [chk]


def check_view_shape(tier, seed, sh):
    quick = tier == "quick"
    chk = SigCheck("C15/robust-view-shape", "fill n lines (so n-h+1 scroll off), scroll the view back k lines, optionally resize (width and/or height) before or after scrolling back, optionally feed more output, then page up / one line down / reset: content() always yields exactly height rows of width cells without raising, cursor None or inside, scrolling_up within the scrollback", True, "sizes 2x3 and 5x4, up to h+3 lines, k <= 4, resize targets {none,1x1,2x3,5x4,3x3,7x2}")
    targets = [None, (1, 1), (2, 3), (5, 4), (3, 3), (7, 2)]
    for size in [(2, 3), (5, 4)]:
        h = size[1]
        for n in range(h + 4):
            fill = b"".join(b"%d\r\n" % (i % 10) for i in range(n))
            for k in range(5):
                if not sh.mine():
                    continue
                for tgt in targets:
                    if tgt == size:
                        continue
                    for order in ("view-then-resize", "resize-then-view"):
                        if tgt is None and order == "resize-then-view":
                            continue
                        for more in ([b""] if quick else [b"", b"x\r\ny"]):
                            ops = [("feed", fill)] if fill else []
                            v = [("view", True, k)]
                            rs = [("resize", *tgt)] if tgt else []
                            ops += (v + rs) if order == "view-then-resize" else (rs + v)
                            if more:
                                ops.append(("feed", more))
                            ops += [("view", True, None), ("view", False, 1), ("view_reset",)]
                            _eval_history(chk, (size, n, k, tgt, order, more), "utf8", size, True, ops)
    return [chk]


class TabOracle:
    """Cursor column and tab stops of a VT100 whose screen can be resized (written from the VT100 user guide: HT moves
    to the next stop or, if there is none, to the last column; HTS = ESC H sets a stop at the cursor, TBC = CSI 0 g
    clears the one at the cursor, CSI 3 g clears all; power-up / RIS = ESC c: a stop every 8 columns).  A resize keeps
    the stops the program set or cleared, gives columns the screen never had their default stop (every 8th column),
    and keeps the cursor in its column where that still exists."""

    def __init__(self, w):
        self.w, self.x, self.stops, self.known = w, 0, set(range(0, w, 8)), w

    def resize(self, w):
        self.stops |= {c for c in range(self.known, w) if c % 8 == 0}
        self.known, self.w, self.x = max(self.known, w), w, min(self.x, w - 1)

    def feed(self, tok):
        """tok: ("HT",) ("CR",) ("CUP", col0) ("HTS",) ("TBC0",) ("TBC3",) ("RIS",) -> bytes"""
        k = tok[0]
        if k == "HT":
            self.x = min([c for c in self.stops if self.x < c < self.w], default=self.w - 1)
            return b"\t"
        if k == "CR":
            self.x = 0
            return b"\r"
        if k == "CUP":
            self.x = min(tok[1], self.w - 1)
            return ESC + b"[1;%dH" % (tok[1] + 1)
        if k == "HTS":
            self.stops.add(self.x)
            return ESC + b"H"
        if k == "TBC0":
            self.stops.discard(self.x)
            return ESC + b"[g"
        if k == "TBC3":
            self.stops.clear()
            return ESC + b"[3g"
        if k == "RIS":
            self.x, self.stops, self.known = 0, set(range(0, self.w, 8)), self.w
            return ESC + b"c"
        raise AssertionError(tok)


TAB_START_WIDTHS = [1, 7, 8, 9, 16]
TAB_TARGET_WIDTHS = [1, 7, 8, 9, 10, 14, 16, 17, 20, 30, 41]
TAB_CHAINS = [(a,) for a in TAB_TARGET_WIDTHS] + [(a, b) for a in (1, 8, 17, 20) for b in (9, 17, 30) if a != b]
TAB_PRE = ["none", "HTS@3", "HTS@last", "TBC0@8", "TBC3", "RIS"]


def _tab_history(w0, pre, chain, heights, split):
    """ops for: optional tab-stop edit at the start size, the resizes of `chain` (heights from `heights`), then the
    probe: a walk by HT over the whole line, HT from every column, and HTS / TBC 0 at columns the last widening added
    (the first column of the first new tab-stop byte, the first new column, the last column), each followed by a
    walk, finally TBC 3 and a walk.  `split`: the first cursor addressing after the last resize arrives in two feeds
    with the resize in between."""
    o = TabOracle(w0)
    ops = []

    def fx(*tok):
        b = o.feed(tok)
        ops.append(("feedx", b, o.x))

    def walk():
        fx("CR")
        while o.x < o.w - 1:
            fx("HT")
        fx("HT")  # in the last column: stays

    if pre == "HTS@3":
        fx("CUP", 3), fx("HTS")
    elif pre == "HTS@last":
        fx("CUP", w0 - 1), fx("HTS")
    elif pre == "TBC0@8":
        fx("CUP", 8), fx("TBC0")
    elif pre != "none":
        fx(pre)
    prev = w0
    for k, w in enumerate(chain):
        last = k == len(chain) - 1
        if last and split:
            ops.append(("feed", ESC + b"[1;"))
        prev = o.w
        o.resize(w)
        ops.append(("resize", w, heights[k % len(heights)]))
        if last and split:
            o.x = min(w - 1, o.w - 1)
            ops.append(("feedx", b"%dH" % w, o.x))
    w = o.w
    walk()
    for c in range(w):
        fx("CUP", c), fx("HT")
    new_byte = (prev + 7) // 8 * 8
    for p in sorted({c for c in (new_byte, prev, w - 1, new_byte + 3) if 0 <= c < w}):
        fx("CUP", p), fx("HTS")
        walk()
        fx("CUP", p), fx("TBC0")
        walk()
        ops.append(("feed", b""))  # a GI pass
    fx("TBC3")
    walk()
    ops.append(("tail",))
    return ops


def check_tabs_resize(tier, seed, sh):
    chk = SigCheck("C15/robust-tabs-resize", "start width x optional tab-stop edit (HTS, TBC 0, TBC 3, RIS) x one or two resizes that widen within / across one / across several multiples of 8 columns, shrink, or shrink then widen (with and without a change of height; optionally in the middle of a cursor-addressing sequence split over two feeds), then HT from every column, a walk by HT over the line, HTS / TBC 0 in the columns the resize added (each followed by a walk), TBC 3: no exception, GI incl. a tab-stop entry for every column after every step, and the cursor column after every token equals that of a VT100 with default stops every 8 columns that persist / extend over resizes", True, f"start widths {TAB_START_WIDTHS} x height 2, edits {TAB_PRE}, {len(TAB_CHAINS)} resize chains over widths {TAB_TARGET_WIDTHS} (pairs: (1|8|17|20) then (9|17|30)), heights constant 2 or 3-then-1, split or whole first CUP")
    for w0 in TAB_START_WIDTHS:
        for pre in TAB_PRE:
            if (pre == "HTS@3" and w0 <= 3) or (pre == "TBC0@8" and w0 <= 8):
                continue
            for chain in TAB_CHAINS:
                if not sh.mine():
                    continue
                for heights in ((2,), (3, 1)):
                    for split in (False, True):
                        ops = _tab_history(w0, pre, chain, heights, split)
                        widened = any(-(-b // 8) > -(-a // 8) for a, b in zip((w0, *chain), chain))
                        probs = run_history("utf8", (w0, 2), True, ops)
                        key = (w0, pre, chain, heights, split)
                        if not probs:
                            chk.case(key, True, None, widened, sample={"enc": "utf8", "size": [w0, 2], "pre": pre, "resizes": list(chain), "ops": len(ops)})
                        else:
                            d = _hist_detail("utf8", (w0, 2), True, ops, probs, 2.0)
                            d.update(pre=pre, resizes=list(chain))
                            chk.case(key, False, d, True, sig=d["sig"])
    return [chk]


# --------------------------------------------------------------------------------------------------
# (2) faithfulness against spec.vt100.VT100
def _colour(a, which):
    """Decode an AttrSpec colour to None (default) | ('idx', palette index) | ('rgb', 0xRRGGBB)."""
    if a is None:
        return None
    if which == "fg":
        if a.foreground_basic or a.foreground_high:
            return ("idx", a.foreground_number)
        if a.foreground_true:
            return ("rgb", a.foreground_number)
        return None
    if a.background_basic or a.background_high:
        return ("idx", a.background_number)
    if a.background_true:
        return ("rgb", a.background_number)
    return None


def _styles(a):
    if a is None:
        return []
    return [s for s in ("bold", "underline", "standout", "blink", "italics", "strikethrough") if getattr(a, s)]


def observe_real(tc, wd):
    rows = [[(cell[2].decode("latin-1"), _colour(cell[0], "fg"), _colour(cell[0], "bg"), cell[1], _styles(cell[0])) for cell in row] for row in tc.content()]
    return rows, tuple(tc.term_cursor), [rp[0] for rp in wd.replies], tc.cursor


def diff(real, ref):
    """None if the real screen, cursor and replies equal the reference's; else (aspect, text)."""
    rows, cur, replies = real[:3]
    want = ref.rows()
    if len(rows) != ref.h or any(len(rw) != ref.w for rw in rows):
        return "shape", f"screen is {[len(rw) for rw in rows]}, not {ref.h} rows of {ref.w} cells"
    for y in range(ref.h):
        for x in range(ref.w):
            ch, fg, bg, cs, st = rows[y][x]
            wch, wfg, wbg, wst = want[y][x]
            if ch != wch:
                return "char", f"cell (col {x}, row {y}) holds {ch!r}, reference {wch!r}"
            if cs is not None:
                return "charset", f"cell (col {x}, row {y}) carries charset {cs!r} although no charset was selected"
            if wst is not ANY and set(st) != wst:  # erased while a rendition was in force / created by a resize: not constrained
                return "style", f"cell (col {x}, row {y}) carries styles {st}, reference {sorted(wst)}"
            # Colours are compared by what they denote (spec.vt100.denoted): urwid's AttrSpec cannot hold a palette index next
            # to a 24-bit colour and then stores palette entries 16..255 as the fixed value xterm defines for them (entries 0..15,
            # which are theme-dependent, stay indices).  Same colour on the screen, so not a divergence.  [oracle decision sC15]
            if not colour_matches(bg, wbg):  # ANY (cells created by a resize): not constrained
                return "bg", f"cell (col {x}, row {y}) {ch!r} has background {bg}, reference {wbg}"
            if not colour_matches(fg, wfg):  # ANY: erased blanks: the foreground is not constrained
                return "fg", f"cell (col {x}, row {y}) {ch!r} has foreground {fg}, reference {wfg}"
    if cur != ref.cursor():
        return "cursor", f"cursor (col,row) is {cur}, reference {ref.cursor()}"
    if replies != ref.replies:
        return "reply", f"replies {replies!r}, reference {ref.replies!r}"
    return None


def _dump(rows):
    return ["".join(c[0] for c in rw) for rw in rows]


def _tok_json(t):
    """A token is a byte string fed to the terminal or ("resize", width, height)."""
    return t.hex() if isinstance(t, bytes) else f"resize:{t[1]}x{t[2]}"


def _tok_unjson(t):
    if t.startswith("resize:"):
        w, h = t[7:].split("x")
        return ("resize", int(w), int(h))
    return bytes.fromhex(t)


def _faithful_python(w, h, setup, toks, focus=False, last="print([b''.join(c[2] for c in r) for r in t.term], t.term_cursor)"):
    py = ["from urwid import vterm", "class W:", "    term_modes = vterm.TermModes(); respond = staticmethod(print)", f"t = vterm.TermCanvas({w}, {h}, W())"]
    if focus:
        py.append("t.has_focus = True")
    data = setup
    for t in toks:
        if isinstance(t, bytes):
            data += t
            continue
        if data:
            py.append(f"t.addstr({data!r})")
        py.append(f"t.resize({t[1]}, {t[2]})")
        data = b""
    if data:
        py.append(f"t.addstr({data!r})")
    return [*py, last]


def faithful_case(size, setup, toks):
    """toks: list of bytes | ("resize", w, h).  Returns (status, detail) with status ok | fail | ambiguous | outofsubset."""
    w, h = size
    ref = VT100(w, h)
    try:
        ref.feed(setup)
        for t in toks:
            if isinstance(t, bytes):
                ref.feed(t)
            else:
                ref.resize(t[1], t[2])
    except Ambiguous as e:
        return "ambiguous", {"why": str(e)}
    except OutOfSubset as e:
        return "outofsubset", {"why": str(e)}
    stream = " ".join(repr(t) if isinstance(t, bytes) else f"resize({t[1]},{t[2]})" for t in [setup, *toks] if t != b"")
    base = {"size": [w, h], "setup": setup.hex(), "tokens": [_tok_json(t) for t in toks], "stream": stream, "expected_screen": _dump(ref.rows()), "expected_cursor": list(ref.cursor()), "python": _faithful_python(w, h, setup, toks)}
    with encoding("utf8"):
        try:
            tc, wd = make(w, h, True)
            tc.addstr(setup)
            for t in toks:
                if isinstance(t, bytes):
                    tc.addstr(t)
                else:
                    tc.resize(t[1], t[2])
            real = observe_real(tc, wd)
            al = aliasing(tc)
        except Exception as e:  # noqa: BLE001
            return "fail", base | {"aspect": "raised", "why": f"raised {type(e).__name__}: {e}"}
    d = diff(real, ref)
    base["canvas_cursor"] = list(real[3]) if real[3] is not None else None
    if d is None and al:
        d = ("row-aliasing", al)
        base["python"] = [*base["python"], "print(len({id(r) for r in [*t.term, *t.scrollback_buffer]}), 'distinct row objects for', len(t.term) + len(t.scrollback_buffer), 'rows')"]
    if d is None:
        return "ok", base
    return "fail", base | {"aspect": d[0], "why": d[1], "got_screen": _dump(real[0]), "got_cursor": list(real[1])}


def csi(s):
    return ESC + b"[" + s.encode()


def fill_setup(w, h):
    """Fill the screen with distinct letters using only CUP + text (both checked on their own by the
    text and cursor families).  Rows are written bottom-up and the last thing printed is the first cell
    of row 1, i.e. a character that does not end in the last column (when width > 1), followed by CUP
    home: the setup itself never leaves a last-column (wrap-pending) state behind, so a family is not
    polluted by how the emulator handles that state across CUP (the cursor family tests that)."""
    out = b""
    for y in reversed(range(h)):
        out += csi(f"{y + 1};1H") + bytes(0x61 + (y * w + i) % 26 for i in range(w))
    return out + csi("H") + b"a" + csi("H")


def families(tier):
    q = tier == "quick"
    text = [("a", b"a"), ("b", b"b"), ("CR", b"\r"), ("LF", b"\n"), ("BS", b"\x08"), ("HT", b"\t")]
    cursor = [("x", b"x"), ("CUP()", csi("H")), ("CUP(2,2)", csi("2;2H")), ("CUP(9,9)", csi("9;9H")), ("CUP(,3)", csi(";3H")), ("CUP(0,0)", csi("0;0H")), ("CUU", csi("A")), ("CUD(2)", csi("2B")), ("CUF", csi("C")), ("CUF(9)", csi("9C")), ("CUB(2)", csi("2D")), ("CR", b"\r"), ("LF", b"\n"), ("CPR?", csi("6n"))]
    erase = [("CUP()", csi("H")), ("CUP(2,2)", csi("2;2H")), ("CUP(9,9)", csi("9;9H")), ("CUP(1,9)", csi("1;9H")), ("ED0", csi("J")), ("ED1", csi("1J")), ("ED2", csi("2J")), ("EL0", csi("0K")), ("EL1", csi("1K")), ("EL2", csi("2K")), ("x", b"x"), ("SGR41", csi("41m")), ("SGR0", csi("m"))]
    insdel = [("CUP()", csi("H")), ("CUP(2,2)", csi("2;2H")), ("CUP(9,9)", csi("9;9H")), ("ICH", csi("@")), ("ICH(2)", csi("2@")), ("ICH(9)", csi("9@")), ("DCH", csi("P")), ("DCH(2)", csi("2P")), ("DCH(9)", csi("9P")), ("IL", csi("L")), ("IL(2)", csi("2L")), ("IL(9)", csi("9L")), ("DL", csi("M")), ("DL(2)", csi("2M")), ("DL(9)", csi("9M")), ("x", b"x"), ("SGR44", csi("44m"))]
    region = [("STBM(2,3)", csi("2;3r")), ("STBM()", csi("r")), ("STBM(1,2)", csi("1;2r")), ("STBM(3,3)", csi("3;3r")), ("STBM(3,2)", csi("3;2r")), ("STBM(2,)", csi("2r")), ("CUP()", csi("H")), ("CUP(2,1)", csi("2;1H")), ("CUP(3,9)", csi("3;9H")), ("CUP(9,1)", csi("9;1H")), ("CUP(9,9)", csi("9;9H")), ("LF", b"\n"), ("RI", ESC + b"M"), ("IND", ESC + b"D"), ("NEL", ESC + b"E"), ("x", b"x"), ("IL", csi("L")), ("DL", csi("M")), ("CUU(9)", csi("9A")), ("CUD(9)", csi("9B"))]
    sgr = [("SGR31", csi("31m")), ("SGR42", csi("42m")), ("SGR39", csi("39m")), ("SGR49", csi("49m")), ("SGR0", csi("0m")), ("SGR()", csi("m")), ("SGR91", csi("91m")), ("SGR104", csi("104m")), ("SGR38;5;200", csi("38;5;200m")), ("SGR48;5;1", csi("48;5;1m")), ("SGR31;42", csi("31;42m")), ("SGR0;34", csi("0;34m")), ("SGR38;2;1;2;3", csi("38;2;1;2;3m")), ("x", b"x"), ("EL2", csi("2K")), ("LF", b"\n")]
    # Resizes as tokens (reference: VT100.resize).  From 3x2: the height grown by 1 / 2 / 3 rows (RESIZE(3,3) is the control:
    # a single new row cannot alias), with the scroll-back empty or holding the one row that "scroll" pushed off (so a grow by
    # 2+ takes what the scroll-back has and adds blank rows for the rest), the width grown, both at once, both shrunk, and back;
    # then CUP into the new rows / columns and output there (print, erase in line, insert character, with a background colour
    # so that erased cells are told apart).
    rs = [("RESIZE(3,3)", ("resize", 3, 3)), ("RESIZE(3,4)", ("resize", 3, 4)), ("RESIZE(3,5)", ("resize", 3, 5)), ("RESIZE(5,2)", ("resize", 5, 2)), ("RESIZE(6,5)", ("resize", 6, 5)), ("RESIZE(2,1)", ("resize", 2, 1)), ("RESIZE(3,2)", ("resize", 3, 2))]
    resize = [*rs, ("scroll", b"p\r\nq\r\nr"), ("x", b"x"), ("CUP()", csi("H")), ("CUP(3,1)", csi("3;1H")), ("CUP(4,2)", csi("4;2H")), ("CUP(9,9)", csi("9;9H")), ("CUP(1,4)", csi("1;4H")), ("LF", b"\n"), ("SGR44", csi("44m")), ("EL0", csi("K")), ("ICH", csi("@"))]
    # Every token selects colours / renditions and prints one cell, so that what each SGR leaves selected is observed at once.
    # Either side: default, basic, bright, 256-colour (an index below 16 and one above), 24-bit; both sides in one SGR with a
    # 24-bit colour next to a basic one; SGRs that do not reset (the other side only, bold / underline / blink / negative and their
    # resets), and the reset.
    acc = ["31", "91", "38;5;200", "38;5;3", "38;2;1;2;3", "39", "42", "104", "48;5;100", "48;5;1", "48;2;4;5;6", "49", "38;2;10;20;30;44", "32;48;2;200;100;50", "93;48;5;7", "38;2;1;2;3;48;2;4;5;6", "1", "4", "5", "7", "24;25;27", "0", ""]
    sgr_acc = [(f"SGR{a} x", csi(a + "m") + b"x") for a in acc]
    return {
        # name: (tokens, [(size, filled?, maxlen[, first-token prefix(es) required at length maxlen])...])
        # 1x2: one column, where every printed character ends in the last column (autowrap on every character)
        "text": (text, [((1, 1), False, 5 if q else 6), ((1, 2), False, 4 if q else 6), ((2, 3), False, 5 if q else 7), ((5, 4), False, 5 if q else 7), ((10, 2), False, 5 if q else 6)]),
        "cursor": (cursor, [((2, 3), False, 4), ((5, 4), False, 3 if q else 4), ((1, 1), False, 3 if q else 4)]),
        "erase": (erase, [((2, 3), True, 3 if q else 4), ((5, 4), True, 3 if q else 4)]),
        "insdel": (insdel, [((2, 3), True, 3 if q else 4), ((5, 4), True, 3 if q else 4)]),
        # quick: length-4 sequences only when they start by setting a region (the interesting ones)
        "region": (region, [((5, 4), True, 4, "STBM" if q else None), ((2, 3), True, 3 if q else 4)]),
        "sgr": (sgr, [((3, 2), False, 3 if q else 4)]),
        # length-4 sequences only when they start with a resize or by pushing a row into the scroll-back
        "resize": (resize, [((3, 2), False, 4 if q else 5, ("RESIZE", "scroll")), ((3, 2), True, 3 if q else 4)]),
        "sgr-accumulate": (sgr_acc, [((5, 1), False, 3 if q else 4)]),
    }


def _canvas_cursor_check():
    return SigCheck("C15/faithful-canvas-cursor", "on every faithful-* case whose characters, colours and term_cursor agree with the reference (terminal focused, cursor visible, view not scrolled back): the canvas cursor that the screen will display, TermCanvas.cursor, is the reference cursor position (kept apart from the families so that it does not prune them)", True, "the cases of all faithful-* families and of faithful-mixed")


def _canvas_cursor_case(cc, key, names, detail):
    want = detail["expected_cursor"]
    got = detail["canvas_cursor"]
    if got == want:
        cc.case(key, True, None, True, sample={"size": detail["size"], "tokens": names})
    else:
        d = dict(detail)
        w, h = detail["size"]
        d["python"] = _faithful_python(w, h, bytes.fromhex(detail["setup"]), [_tok_unjson(t) for t in detail["tokens"]], focus=True, last="print(t.cursor, t.term_cursor)")
        kind = "missing (None)" if got is None else ("inside but wrong" if 0 <= got[0] < w and 0 <= got[1] < h else "outside the canvas")
        d.update({"token_names": names, "aspect": "canvas-cursor", "sig": f"canvas-cursor {kind}", "why": f"canvas cursor is {got}, reference cursor (col,row) {want} (term_cursor agrees with the reference)"})
        cc.case(key, False, d, True, sig=d["sig"])


def check_faithful_family(tier, seed, sh, name):
    tokens, scopes = families(tier)[name]
    chk = SigCheck(f"C15/faithful-{name}", f"every sequence of tokens {[t[0] for t in tokens]} up to the length bound, fed to a fresh focused TermCanvas (after a screen-filling setup where noted) and to the reference VT100: equal characters, colours (erased blanks: background only), no stray charset/style, equal cursor and replies; sequences extending a diverged or ambiguous one are pruned", True, "; ".join(f"{sc[0][0]}x{sc[0][1]}{' filled' if sc[1] else ''} len<={sc[2]}" + (f" (len {sc[2]} only after a {'/'.join([sc[3]] if isinstance(sc[3], str) else sc[3])} token)" if len(sc) > 3 and sc[3] else "") for sc in scopes))
    cc = _canvas_cursor_check()
    for scope in scopes:
        size, filled, maxlen = scope[:3]
        deep = scope[3] if len(scope) > 3 else None
        setup = fill_setup(*size) if filled else b""
        for first in range(len(tokens)):
            if not sh.mine():
                continue
            bad = set()
            for L in range(1, maxlen + 1):
                if L == maxlen and deep and not tokens[first][0].startswith(deep):
                    continue
                for rest in itertools.product(range(len(tokens)), repeat=L - 1):
                    seq = (first, *rest)
                    if any(seq[:k] in bad for k in range(1, L)):
                        chk.count("pruned_extensions")
                        continue
                    status, detail = faithful_case(size, setup, [tokens[i][1] for i in seq])
                    names = [tokens[i][0] for i in seq]
                    if status == "ok":
                        chk.case((size, seq), True, None, True, sample={"size": list(size), "tokens": names})
                        _canvas_cursor_case(cc, (name, size, bytes(seq)), names, detail)
                    elif status == "fail":
                        bad.add(seq)
                        detail["token_names"] = names
                        detail["family"] = name
                        detail["sig"] = f"{names[-1]}:{detail['aspect']}"
                        chk.case((size, seq), False, detail, True, sig=detail["sig"])
                    else:
                        bad.add(seq)
                        chk.count("ambiguous_or_out_of_subset")
    return [chk, cc]


def check_faithful_mixed(tier, seed, sh):
    q = tier == "quick"
    r = rng(seed)
    n = 3000 if q else 60000
    maxlen = 6 if q else 10
    toks = {}
    for tokens, _ in families(tier).values():
        for nm, b in tokens:
            toks[nm] = b
    toks = sorted(toks.items())
    sizes = [(1, 1), (2, 3), (3, 2), (5, 4), (10, 3)]
    chk = SigCheck("C15/faithful-mixed", "seeded random token sequences over the union of all family alphabets at random sizes, filled or empty start; compared with the reference after every token, stopping at the first divergence (failure) or ambiguity", False, f"{n} sequences of length <= {maxlen}, sizes {sizes}")
    cc = _canvas_cursor_check()
    for _ in range(n):
        size = sizes[r.randrange(len(sizes))]
        setup = fill_setup(*size) if r.random() < 0.5 else b""
        seq = [toks[r.randrange(len(toks))] for _ in range(r.randint(2, maxlen))]
        if not sh.mine():
            continue
        for k in range(1, len(seq) + 1):
            status, detail = faithful_case(size, setup, [b for _, b in seq[:k]])
            names = [nm for nm, _ in seq[:k]]
            key = (size, bool(setup), tuple(names))
            if status == "ok":
                _canvas_cursor_case(cc, ("mixed", size, bool(setup), "|".join(names)), names, detail)
                if k == len(seq):
                    chk.case(key, True, None, True, sample={"size": list(size), "filled": bool(setup), "tokens": names})
                continue
            if status == "fail":
                detail["token_names"] = names
                detail["family"] = "mixed"
                detail["sig"] = f"{names[-1]}:{detail['aspect']}"
                chk.case(key, False, detail, True, sig=detail["sig"])
            else:
                chk.count("stopped_at_ambiguity")
                if k > 1:
                    chk.case((size, bool(setup), tuple(names[:-1])), True, None, True)
            break
    return [chk, cc]


# --------------------------------------------------------------------------------------------------
# (3) scrollback
def _sb_tokens(w, h):
    return [("txt", None), ("long", None), ("CRLF", b"\r\n"), ("LF", b"\n"), ("IND", ESC + b"D"), ("NEL", ESC + b"E"), ("RI", ESC + b"M"), (f"CUP({h},1)", csi(f"{h};1H")), ("CUP()", csi("H")), ("STBM(1,2)", csi("1;2r")), ("STBM()", csi("r")), (f"STBM(2,{h})", csi(f"2;{h}r"))]


def _sb_bytes(seq, tokens, w):
    out, k = [], 0
    for i in seq:
        nm, b = tokens[i]
        if nm == "txt":
            b = bytes([0x41 + k % 26])
            k += 1
        elif nm == "long":
            b = bytes(0x41 + (k + j) % 26 for j in range(w + 1))
            k += w + 1
        out.append(b)
    return out


def _chars(rows):
    return ["".join(c[2].decode("latin-1") for c in rw) for rw in rows]


def _is_subsequence(a, b):
    it = iter(b)
    return all(x in it for x in a)


def scrollback_case(size, toks):
    """Returns (status, scrolled?, kept_detail | None, view_detail | None);
    status: ambiguous | diverged | done."""
    w, h = size
    ref = VT100(w, h)
    try:
        for t in toks:
            ref.feed(t)
    except (Ambiguous, OutOfSubset):
        return "ambiguous", False, None, None
    data = b"".join(toks)
    want_off = ["".join(c[0] for c in rw) for rw in ref.scrolled_off_top]
    want_screen = ["".join(c[0] for c in rw) for rw in ref.rows()]
    # Reading of the statement: rows that leave through the top row of the *screen* must be kept in
    # order.  Rows scrolled out of a region that starts lower never were "off the top"; the statement
    # does not say what happens to them, so for such histories only "contains, in order" is demanded.
    strict = (ESC + b"[2;") not in data
    base = {"size": [w, h], "tokens": [t.hex() for t in toks], "stream": repr(data), "expected_scrollback": want_off, "expected_screen": want_screen}
    kept = view = None
    with encoding("utf8"):
        try:
            tc, wd = make(w, h, True)
            tc.addstr(data)
            screen = _chars(tc.content())
            sb = _chars(tc.scrollback_buffer)
        except Exception as e:  # noqa: BLE001
            return "done", True, base | {"why": f"raised {type(e).__name__}: {e}", "sig": "raised"}, None
        if screen != want_screen or tuple(tc.term_cursor) != ref.cursor():
            return "diverged", False, None, None  # a screen divergence: reported by the faithfulness checks
        if strict and sb != want_off:
            kept = base | {"why": "scrollback differs from the rows scrolled off the top, in order", "got_scrollback": sb, "sig": "order"}
        elif not strict and not _is_subsequence(want_off, sb):
            kept = base | {"why": "the rows scrolled off the top are not all in the scrollback in order", "got_scrollback": sb, "sig": "order-subsequence"}
        if kept is None and h >= 2:
            # shrinking the height pushes the top row off the top, growing brings it back
            try:
                tc.resize(w, h - 1)
                sb2, scr2 = _chars(tc.scrollback_buffer), _chars(tc.content())
                tc.resize(w, h)
                sb3, scr3 = _chars(tc.scrollback_buffer), _chars(tc.content())
            except Exception as e:  # noqa: BLE001
                kept = base | {"why": f"resize raised {type(e).__name__}: {e}", "sig": "resize-raised"}
            else:
                if sb2 != sb + screen[:1] or scr2 != screen[1:]:
                    kept = base | {"why": f"after shrinking to height {h - 1} the top row should be the newest scrollback row", "got_scrollback": sb2, "got_screen": scr2, "sig": "shrink"}
                elif sb3 != sb or scr3 != screen:
                    kept = base | {"why": "growing back should return the newest scrollback row to the top of the screen", "got_scrollback": sb3, "got_screen": scr3, "sig": "grow"}
        if kept is None:
            combined = sb + want_screen
            try:
                tc2, _ = make(w, h, True)
                tc2.addstr(data)
                for k in range(len(tc2.scrollback_buffer) + 2):
                    tc2.scroll_buffer(reset=True)
                    tc2.scroll_buffer(up=True, lines=k)
                    kk = min(k, len(tc2.scrollback_buffer))
                    got = _chars(tc2.content())
                    exp = combined[len(combined) - h - kk : len(combined) - kk]
                    if got != exp:
                        view = base | {"why": f"view scrolled back {k} lines shows {got}, expected {exp}", "k": k, "sig": "view-content"}
                        break
                    cur = tc2.cursor
                    if cur is not None and not (0 <= cur[0] < w and 0 <= cur[1] < h):
                        view = base | {"why": f"view scrolled back {k} lines: canvas cursor {cur} outside the canvas", "k": k, "sig": "view-cursor"}
                        break
            except Exception as e:  # noqa: BLE001
                view = base | {"why": f"scrolled-back view raised {type(e).__name__}: {e}", "sig": f"view-raised {type(e).__name__}"}
    return "done", bool(want_off) or kept is not None, kept, view


def check_scrollback(tier, seed, sh):
    q = tier == "quick"
    scopes = [((2, 3), 4 if q else 5), ((3, 2), 3 if q else 5)]
    bound = "; ".join(f"{s[0]}x{s[1]} len<={L}" for s, L in scopes)
    kept = SigCheck("C15/scrollback-kept", "every token sequence (unique text, over-long text that autowraps, CRLF, LF, IND, NEL, RI, CUP, DECSTBM) up to the bound: scrollback_buffer equals, in order, the rows the reference scrolled off through the top row (when a region starting at row 2 was used: contains them in order); then shrinking the height by one moves the top row to the end of the scrollback and growing returns it; sequences whose screen already diverges from the reference are skipped (reported by faithful-*); nontrivial = at least one row scrolled off", True, bound)
    view = SigCheck("C15/scrollback-view", "same histories: for every k in 0..len(scrollback)+1, scroll_buffer(up, k) then content() shows rows [-(h+k):-k] of scrollback+screen, exactly h rows, without raising; canvas cursor None or inside", True, bound)
    for size, maxlen in scopes:
        tokens = _sb_tokens(*size)
        for L in range(1, maxlen + 1):
            for seq in itertools.product(range(len(tokens)), repeat=L):
                if not sh.mine():
                    continue
                toks = _sb_bytes(seq, tokens, size[0])
                status, scrolled, kd, vd = scrollback_case(size, toks)
                names = [tokens[i][0] for i in seq]
                if status == "ambiguous":
                    kept.count("ambiguous")
                    continue
                if status == "diverged":
                    kept.count("skipped_screen_diverged")
                    continue
                for chk, d in ((kept, kd), (view, vd)):
                    if d is None:
                        if chk is view and kd is not None:
                            continue  # the view is only examined when the scrollback itself is right
                        chk.case((size, seq), True, None, scrolled, sample={"size": list(size), "tokens": names} if scrolled else None)
                    else:
                        d["token_names"] = names
                        chk.case((size, seq), False, d, True, sig=d["sig"])
    return [kept, view]


# --------------------------------------------------------------------------------------------------
def _plan(tier):
    plan = [("check_robust_bytes", ()), ("check_robust_csi", ()), ("check_robust_huge", ()), ("check_robust_osc", ()), ("check_robust_charset", ()), ("check_view_shape", ()), ("check_tabs_resize", ())]
    plan += [("check_faithful_family", (name,)) for name in families(tier)]
    plan += [("check_faithful_mixed", ()), ("check_scrollback", ())]
    return plan


def _run_unit(arg):
    fn, extra, tier, seed, i, n = arg
    return globals()[fn](tier, seed, Shard(i, n), *extra)


def run(tier="quick", seed=0):
    t0 = time.time()
    plan = _plan(tier)
    cpus = os.cpu_count() or 1
    procs = max(1, min(16, cpus))
    if mp.current_process().daemon or threading.current_thread() is not threading.main_thread():
        procs = 1
    nshards = 1 if procs == 1 else procs
    units = [(fn, extra, tier, seed, i, nshards) for fn, extra in plan for i in range(nshards)]
    if procs == 1:
        parts = [_run_unit(u) for u in units]
    else:
        with mp.get_context("fork").Pool(procs) as pool:
            parts = pool.map(_run_unit, units, chunksize=1)
    merged = {}
    for part in parts:  # fixed (plan, shard) order
        for chk in part:
            if chk.name in merged:
                merged[chk.name].absorb(chk)
            else:
                chk.t0 = min(chk.t0, t0)
                merged[chk.name] = chk
    bound = "TermCanvas with a fake widget; robustness: 24-byte alphabet strings <= " + ("2 (+sampled 3)" if tier == "quick" else "3") + f" x sizes {SIZES} x resizes/chunkings x encodings, all CSI finals x parameter lists incl. 70000 and 10^9, OSC/charset/UTF-8 payloads, scrolled-back view x resizes, tab stops (HT/HTS/TBC) after resizes from widths 1..16 to widths 1..41; no two rows of term/scroll-back the same object after every step; faithfulness: exhaustive token sequences per family (length 3-7 by family; incl. resizes as tokens from 3x2 to heights +1/+2/+3 and widths +2/+3 with empty and partly sufficient scroll-back, SGR sequences mixing 24-bit/256/basic/bright colours with non-resetting SGRs, one-column screens) + seeded random mixes vs spec/vt100.py; scrollback: token sequences <= " + ("4" if tier == "quick" else "5")
    return {"checks": [c.result() for c in merged.values()], "bound": bound}


def replay(check_name, case):
    if "ops" in case:  # robustness history
        ops = [_op_unjson(o) for o in case["ops"]]
        probs = run_history(case["enc"], tuple(case["size"]), case.get("focus", True), ops, case.get("timeout", 2.0))
        return {"outcome": "confirmed" if probs else "not-reproduced", "detail": {"why": "; ".join(w for _, w in probs), "sig": " + ".join(sorted(s for s, _ in probs))}}
    toks = [_tok_unjson(t) for t in case["tokens"]]
    size = tuple(case["size"])
    if check_name.startswith("C15/scrollback"):
        status, _, kd, vd = scrollback_case(size, toks)
        d = kd if check_name.endswith("kept") else vd
        return {"outcome": "confirmed" if d else "not-reproduced", "detail": d or {"status": status}}
    status, detail = faithful_case(size, bytes.fromhex(case.get("setup", "")), toks)
    if check_name.endswith("canvas-cursor"):
        bad = status == "ok" and detail["canvas_cursor"] != detail["expected_cursor"]
        return {"outcome": "confirmed" if bad else "not-reproduced", "detail": {k: v for k, v in detail.items() if k != "python"} | {"status": status}}
    return {"outcome": "confirmed" if status == "fail" else "not-reproduced", "detail": {k: v for k, v in detail.items() if k != "python"} | {"status": status}}
