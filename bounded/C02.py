"""C02 bounded stand-in: expression trees of canvas operations, real urwid canvases against the plain
grid of cells in spec/grid.py.

Every case is one expression tree (JSON-able nested lists). The real tree and the model tree are
evaluated in lock step; after EVERY node the real canvas is observed through content(), cols(),
rows(), coords / get_cursor / get_pop_up / translate_coords and compared with the grid, and the
operands of the node are re-observed and compared with the snapshot taken when they were created. At
the root all leaves and all intermediate canvases are re-observed once more.

Expression forms
  ["leaf", id]                          a leaf canvas (one object per id per case: shared between the
                                        places it occurs, like a cached canvas)
  ["wrap", e]                           CompositeCanvas(e)
  ["trim", e, top, count|None]          CompositeCanvas(e).trim(top, count)
  ["trim_end", e, n]
  ["plr", e, left, right]               pad_trim_left_right
  ["ptb", e, top, bottom]               pad_trim_top_bottom
  ["attr", e, [[k, v], ...]]            fill_attr_apply(dict)
  ["combine", [e, ...], focus_index]    CanvasCombine
  ["join", [[e, cols], ...], focus_idx] CanvasJoin
  ["overlay", e_top, e_bottom, left, top]  CanvasOverlay (a leaf used as the top canvas is wrapped in a
                                        CompositeCanvas first: CanvasOverlay needs a composite there)

Two encodings ("modes"): "utf8" (wide = East Asian wide, zero-width = combining marks) and "euc"
(urwid's double-byte "wide" mode through euc-jp: two bytes = two columns; no zero-width characters;
line drawing goes through the DEC special charset, which gives SolidCanvas a cs="0" leaf).
"""
from __future__ import annotations

import contextlib
import hashlib
import json
import time

from bounded.common import Check, rng
from spec import grid as G

import urwid
from urwid import canvas as UC
from urwid import str_util, util

ID = "C02"
W1, W2, ACC = "中", "文", "́"
POPW = "POPW"  # stands for the pop-up widget (opaque data carried with the coordinates)
CODEC = {"utf8": "utf-8", "euc": "euc-jp"}


# ------------------------------------------------------------------------------------------ leaves
def _t(rows, maxcol=None, cursor=None, popup=None):
    return {"kind": "text", "rows": rows, "maxcol": maxcol, "cursor": cursor, "popup": popup}


_COMMON = {
    # 1x1 with a cursor
    "a1": _t([[["a", "A", None]]], cursor=[0, 0]),
    # 2x1, two attribute runs
    "ab": _t([[["a", "A", None], ["b", "B", None]]]),
    # one wide character, 2x1, pop-up
    "w": _t([[[W1, "A", None]]], popup=[1, 0, [POPW, 3, 2]]),
    # 3x2 wide characters at both alignments, 2-run attribute lists, cursor on the second row
    "wa": _t([[[W1, "A", None], ["a", None, None]], [["b", "B", None], [W2, "A", None]]], cursor=[1, 1]),
    # 3x1 DEC special character set runs, with a pop-up and a cursor
    "dec": _t([[["q", None, "0"], ["x", "A", "0"], ["y", "A", None]]], cursor=[2, 0], popup=[0, 0, [POPW, 2, 1]]),
    # 3x2 ragged: the second row is padded by TextCanvas itself
    "rag": _t([[["a", "A", None], ["b", "A", None], ["c", "B", None]], [[W1, "B", None]]]),
    # 4x1: explicit maxcol wider than the text
    "mx": _t([[[W1, "B", None]]], maxcol=4),
    "sx": {"kind": "solid", "char": "x", "cols": 2, "rows": 2, "model": ["x", None]},
    "s1": {"kind": "solid", "char": " ", "cols": 1, "rows": 3, "model": [" ", None]},
    "b21": {"kind": "blank", "cols": 2, "rows": 1},
    "b32": {"kind": "blank", "cols": 3, "rows": 2},
}
LEAVES = {
    "utf8": {
        **_COMMON,
        # 4x2: accented (zero-width) characters and two wide characters with different attributes
        "zw": _t([[["a" + ACC, "A", None], ["b", "A", None], ["c" + ACC + ACC, "B", None], ["d", "B", None]], [[W1 + ACC, "A", None], [W2, "B", None]]]),
        # 3x1 starting with an orphan zero-width character, then a wide character
        "orph": _t([[[ACC, "B", None], [W1, "A", None], ["z", None, None]]]),
        # 4x3 mixed
        "big": _t(
            [
                [[W1, "A", None], [W2, "B", None]],
                [["a", "A", None], [W1, "A", None], ["b" + ACC, "B", None]],
                [["x", None, None], ["y", "A", None], [W2, "B", None]],
            ],
            cursor=[3, 2],
        ),
        "sl": {"kind": "solid", "char": "─", "cols": 3, "rows": 1, "model": ["─", None]},
    },
    "euc": {
        **_COMMON,
        # 4x2: wide characters back to back (double-byte runs of even and odd length before the cut)
        "zw": _t([[["a", "A", None], [W1, "A", None], ["d", "B", None]], [[W1, "A", None], [W2, "B", None]]]),
        "big": _t(
            [
                [[W1, "A", None], [W2, "B", None]],
                [["a", "A", None], [W1, "A", None], ["b", "B", None]],
                [["x", None, None], ["y", "A", None], [W2, "B", None]],
            ],
            cursor=[3, 2],
        ),
        # the line-drawing character is sent through the DEC special character set in this mode
        "sl": {"kind": "solid", "char": "─", "cols": 3, "rows": 1, "model": ["q", "0"]},
    },
}
QUICK_LEAVES = {"utf8": ["a1", "ab", "w", "wa", "zw", "orph", "dec", "rag", "big", "sx", "b21"], "euc": ["a1", "w", "wa", "zw", "dec", "rag", "sl", "b21"]}
CORE = {"quick": {"utf8": ["wa", "zw", "orph", "dec"], "euc": ["wa", "zw", "sl"]}, "thorough": {"utf8": ["wa", "zw", "orph", "dec", "big", "rag", "w", "sx"], "euc": ["wa", "zw", "sl", "big", "rag", "dec"]}}
MAPPINGS = [
    [[None, "X"]],
    [["A", "B"]],
    [["A", "B"], ["B", "A"]],
    [["A", None], [None, "A"]],
    [["X", "Y"], ["B", "X"]],
]


@contextlib.contextmanager
def enc_mode(mode):
    saved = (util._target_encoding, util._use_dec_special, str_util.get_byte_encoding())
    try:
        urwid.set_encoding(CODEC[mode])
        UC.CanvasCache.clear()
        if str_util.get_byte_encoding() != {"utf8": "utf8", "euc": "wide"}[mode]:
            raise AssertionError("encoding mode not established")
        yield
    finally:
        util._target_encoding, util._use_dec_special = saved[0], saved[1]
        str_util.set_byte_encoding(saved[2])
        UC.CanvasCache.clear()


def _check_alphabet():
    """The reference width function and urwid's must agree on the alphabet used (harness sanity)."""
    for ch in "abcdqxyz " + W1 + W2 + ACC + "─":
        if G.char_width(ch) != str_util.get_char_width(ch):
            raise AssertionError(f"width table disagreement on {ch!r}")
    for ch in W1 + W2:
        if len(ch.encode("euc-jp")) != 2:
            raise AssertionError("euc-jp alphabet is not double-byte")


def real_leaf(spec, mode):
    codec = CODEC[mode]
    if spec["kind"] == "text":
        text, attr, cs = [], [], []
        for row in spec["rows"]:
            text.append(b"".join(s.encode(codec) for s, _a, _c in row))
            attr.append([(a, len(s.encode(codec))) for s, a, _c in row])
            cs.append([(c, len(s.encode(codec))) for s, _a, c in row])
        cur = tuple(spec["cursor"]) if spec["cursor"] else None
        c = UC.TextCanvas(text, attr, cs, cursor=cur, maxcol=spec["maxcol"])
        if spec["popup"]:
            left, top, (w, ow, oh) = spec["popup"]
            c.set_pop_up(w, left, top, ow, oh)
        return c
    if spec["kind"] == "solid":
        return UC.SolidCanvas(spec["char"], spec["cols"], spec["rows"])
    if spec["kind"] == "blank":
        # a canvas made only of blank padding, built the way pad_trim_* builds padding
        c = UC.CompositeCanvas()
        c.shards = [(spec["rows"], [(0, 0, spec["cols"], spec["rows"], None, UC.blank_canvas)])]
        return c
    raise ValueError(spec)


def model_leaf(spec):
    if spec["kind"] == "text":
        pop = None
        if spec["popup"]:
            left, top, data = spec["popup"]
            pop = (left, top, tuple(data))
        return G.text_grid([[tuple(c) for c in row] for row in spec["rows"]], spec["maxcol"], spec["cursor"], pop)
    if spec["kind"] == "solid":
        return G.solid_grid(spec["model"][0], spec["model"][1], spec["cols"], spec["rows"])
    return G.blank_grid(spec["cols"], spec["rows"])


# ------------------------------------------------------------------------------------- observation
class Malformed(Exception):
    pass


def observe_rows(content_iter, mode):
    """content() -> list of rows of (char, attr, cs). Raises Malformed if a run is not (attr, cs,
    bytes) or its bytes are not whole characters (half a character emitted)."""
    codec = CODEC[mode]
    rows = []
    for y, row in enumerate(content_iter):
        chars = []
        for item in row:
            if not (isinstance(item, tuple) and len(item) == 3 and isinstance(item[2], bytes)):
                raise Malformed(f"row {y}: run {item!r} is not (attr, cs, bytes)")
            a, cs, text = item
            try:
                s = text.decode(codec)
            except UnicodeDecodeError:
                raise Malformed(f"row {y}: run {item!r} holds part of a character") from None
            chars.extend((ch, a, cs) for ch in s)
        rows.append(chars)
    return rows


def snapshot(c, mode):
    return (c.cols(), c.rows(), observe_rows(c.content(), mode) if c.rows() else [], dict(c.coords))


def show_rows(rows):
    """Compact human-readable form: one string per row, 'char/attr/cs' separated by spaces."""
    return [" ".join(f"{ch!r}/{a}/{s}" for ch, a, s in r) for r in rows]


def first_diff(exp, act):
    if len(exp) != len(act):
        return f"{len(act)} rows of content instead of {len(exp)}"
    for y, (e, a) in enumerate(zip(exp, act)):
        if e != a:
            for i in range(max(len(e), len(a))):
                ei = e[i] if i < len(e) else None
                ai = a[i] if i < len(a) else None
                if ei != ai:
                    return f"row {y}, character #{i}: grid has {ei!r}, canvas emits {ai!r}"
    return None


def wf_shards(canv):
    """Shard well-formedness: the cviews tile the rows x cols rectangle exactly once, every cview
    reaches the end of the shard it starts in, and views stay inside their source canvases."""
    rows, cols = canv.rows(), canv.cols()
    if rows == 0:
        return None
    occ = [[False] * cols for _ in range(rows)]
    y = 0
    for num_rows, cviews in canv.shards:
        if not isinstance(num_rows, int) or num_rows <= 0:
            return f"shard with {num_rows!r} rows"
        x = 0
        for cv in cviews:
            tl, tt, c, r, _amap, src = cv[:6]
            if c <= 0 or r <= 0:
                return f"empty cview {cv[:4]}"
            while x < cols and occ[y][x]:
                x += 1
            if x + c > cols or y + r > rows:
                return f"cview {cv[:4]} placed at ({x},{y}) leaves the {cols}x{rows} canvas"
            if r < num_rows:
                return f"cview {cv[:4]} shorter than its shard ({num_rows} rows)"
            for yy in range(y, y + r):
                for xx in range(x, x + c):
                    if occ[yy][xx]:
                        return f"cview {cv[:4]} at ({x},{y}) overlaps another view"
                    occ[yy][xx] = True
            x += c
            if src is not UC.blank_canvas and not (0 <= tl and tl + c <= src.cols() and 0 <= tt and tt + r <= src.rows()):
                return f"cview {cv[:4]} outside its {src.cols()}x{src.rows()} source"
        for yy in range(y, min(rows, y + num_rows)):
            if not all(occ[yy]):
                return f"row {yy} not fully covered after the shard starting at row {y}"
        y += num_rows
    if y != rows:
        return "shard rows do not add up"
    return None


# ---------------------------------------------------------------------------------- lock-step eval
class Fail(Exception):
    def __init__(self, check, why, at, extra=None):
        super().__init__(why)
        self.check, self.why, self.at, self.extra = check, why, at, extra or {}


class Ctx:
    def __init__(self, mode, specs=None):
        self.mode = mode
        self.specs = specs or LEAVES[mode]
        self.leaf = {}
        self.nodes = []  # (expr, real canvas, snapshot)

    def get_leaf(self, lid):
        if lid not in self.leaf:
            spec = self.specs[lid]
            self.leaf[lid] = (real_leaf(spec, self.mode), model_leaf(spec))
        return self.leaf[lid]


def _real_op(expr, kids):
    """Apply the real operation of `expr` to the already built real operand canvases."""
    op = expr[0]
    if op == "wrap":
        return UC.CompositeCanvas(kids[0])
    if op in ("trim", "trim_end", "plr", "ptb", "attr"):
        cc = UC.CompositeCanvas(kids[0])
        if op == "trim":
            cc.trim(expr[2], expr[3])
        elif op == "trim_end":
            cc.trim_end(expr[2])
        elif op == "plr":
            cc.pad_trim_left_right(expr[2], expr[3])
        elif op == "ptb":
            cc.pad_trim_top_bottom(expr[2], expr[3])
        else:
            cc.fill_attr_apply({k: v for k, v in expr[2]})
        return cc
    if op == "combine":
        return UC.CanvasCombine([(c, None, i == expr[2]) for i, c in enumerate(kids)])
    if op == "join":
        return UC.CanvasJoin([(c, None, i == expr[2], item[1]) for i, (c, item) in enumerate(zip(kids, expr[1]))])
    if op == "overlay":
        top_c = kids[0] if hasattr(kids[0], "shards") else UC.CompositeCanvas(kids[0])
        return UC.CanvasOverlay(top_c, kids[1], expr[3], expr[4])
    raise ValueError(op)


def _model_op(expr, kids):
    """-> (grid, admissible coords or None)."""
    op = expr[0]
    if op == "wrap":
        return G.wrap(kids[0]), None
    if op == "trim":
        return G.trim(kids[0], expr[2], expr[3]), None
    if op == "trim_end":
        return G.trim_end(kids[0], expr[2]), None
    if op == "plr":
        return G.pad_trim_left_right(kids[0], expr[2], expr[3]), None
    if op == "ptb":
        return G.pad_trim_top_bottom(kids[0], expr[2], expr[3]), None
    if op == "attr":
        return G.fill_attr_apply(kids[0], {k: v for k, v in expr[2]}), None
    if op == "combine":
        return G.combine(kids), G.candidates(G.combine_coord_parts(kids))[0]
    if op == "join":
        items = [(g, item[1]) for g, item in zip(kids, expr[1])]
        return G.join(items), G.candidates(G.join_coord_parts(items))[0]
    if op == "overlay":
        return G.overlay(kids[0], kids[1], expr[3], expr[4]), None
    raise ValueError(op)


def kids_of(expr):
    op = expr[0]
    if op == "leaf":
        return []
    if op == "combine":
        return list(expr[1])
    if op == "join":
        return [it[0] for it in expr[1]]
    if op == "overlay":
        return [expr[1], expr[2]]
    return [expr[1]]


def model_eval(expr, specs):
    if expr[0] == "leaf":
        return model_leaf(specs[expr[1]])
    return _model_op(expr, [model_eval(k, specs) for k in kids_of(expr)])[0]


def compare(real, model, adm, at, mode):
    """Observe a real canvas against a grid. Raises Fail on the first disagreement."""
    try:
        rcols, rrows = real.cols(), real.rows()
    except Exception as e:  # noqa: BLE001
        raise Fail("size", f"cols()/rows() raised {e!r}", at) from None
    if (rcols, rrows) != (model.cols, model.nrows):
        raise Fail("size", f"reports {rcols}x{rrows} (cols x rows), the grid is {model.cols}x{model.nrows}", at)
    try:
        rows = observe_rows(real.content(), mode) if rrows else []
    except Malformed as e:
        raise Fail("content", str(e), at, {"half_character": True}) from None
    except Exception as e:  # noqa: BLE001
        raise Fail("content", f"content() raised {e!r}", at) from None
    exp = G.grid_chars(model)
    d = first_diff(exp, rows)
    if d:
        raise Fail("content", d, at, {"expected": show_rows(exp), "actual": show_rows(rows)})
    for y, r in enumerate(rows):
        if G.row_width(r) != rcols:
            raise Fail("content", f"row {y} is {G.row_width(r)} columns wide, canvas reports {rcols}", at)
    # coordinates
    rc = dict(real.coords)
    if adm is None:
        if rc != model.coords:
            raise Fail("coords", f"coords {rc!r}, expected {model.coords!r}", at)
    else:
        if set(rc) != set(adm) or any(rc[k] not in adm[k] for k in rc):
            raise Fail("coords", f"coords {rc!r}, admissible {adm!r}", at)
        model.coords = rc  # follow the implementation's tie-break among admissible operands
    if real.get_cursor() != (model.coords["cursor"][:2] if "cursor" in model.coords else None):
        raise Fail("coords", f"get_cursor() {real.get_cursor()!r} disagrees with coords {model.coords!r}", at)
    if real.get_pop_up() != model.coords.get("pop up"):
        raise Fail("coords", f"get_pop_up() {real.get_pop_up()!r} disagrees with coords {model.coords!r}", at)
    if real.translate_coords(2, 3) != G.translate(model.coords, 2, 3):
        raise Fail("coords", "translate_coords(2,3) is not a shift of the coords", at)
    if hasattr(real, "shards"):
        w = wf_shards(real)
        if w:
            raise Fail("shards", w, at)
    return (rcols, rrows, rows, rc)


def check_unchanged(ctx, recs, at, when):
    for e, c, snap in recs:
        try:
            now = snapshot(c, ctx.mode)
        except Exception as ex:  # noqa: BLE001
            raise Fail("unchanged", f"operand {key_of(e)} cannot be observed {when}: {ex!r}", at) from None
        if now != snap:
            what = "size" if now[:2] != snap[:2] else ("coords" if now[3] != snap[3] else "content")
            raise Fail("unchanged", f"operand {key_of(e)} changed ({what}) {when}", at, {"before": show_rows(snap[2]), "after": show_rows(now[2]), "coords_before": repr(snap[3]), "coords_after": repr(now[3])})


def ev(expr, ctx):
    """-> (real, model, node record)."""
    if expr[0] == "leaf":
        real, model = ctx.get_leaf(expr[1])
        for rec in ctx.nodes:
            if rec[1] is real:
                return real, model, rec
        snap = compare(real, model, None, expr, ctx.mode)
        rec = (expr, real, snap)
        ctx.nodes.append(rec)
        return real, model, rec
    kids = [ev(k, ctx) for k in kids_of(expr)]
    try:
        real = _real_op(expr, [k[0] for k in kids])
    except Exception as e:  # noqa: BLE001
        raise Fail("content", f"raised {e!r}", expr) from None
    model, adm = _model_op(expr, [k[1] for k in kids])
    try:
        snap = compare(real, model, adm, expr, ctx.mode)
    except Fail as f:
        f.extra["model_cuts"] = model.cuts  # lets the wide-cut view claim the failure
        raise
    check_unchanged(ctx, [k[2] for k in kids], expr, "after the operation")
    rec = (expr, real, snap)
    ctx.nodes.append(rec)
    return real, model, rec


def run_tree(expr, mode, specs=None):
    """Evaluate one tree. -> dict(fail info or None, cuts, has_coords, size)."""
    ctx = Ctx(mode, specs)
    out = {"fail": None, "cuts": 0, "has_coords": False, "size": None}
    try:
        _real, model, _rec = ev(expr, ctx)
        check_unchanged(ctx, ctx.nodes, expr, "at the end of the whole expression")
        out["cuts"] = model.cuts
        out["has_coords"] = bool(model.coords)
        out["size"] = (model.cols, model.nrows)
    except Fail as f:
        out["fail"] = {"check": f.check, "why": f.why, "at": f.at, **f.extra}
    return out


# ------------------------------------------------------------------------------------ enumeration
def key_of(e):
    return json.dumps(e, ensure_ascii=False, separators=(",", ":"))


def unary_ops(cols, rows, pad=2, with_attr=True, with_wrap=True):
    if with_wrap:
        yield ["wrap"]
    for top in range(rows):
        for count in [None, *range(1, rows - top + 2)]:
            if top == 0 and count is None:
                continue  # identical to wrap
            yield ["trim", top, count]
    for n in range(1, rows):
        yield ["trim_end", n]
    for left in range(-(cols - 1), pad + 1):
        for right in range(-(cols - 1), pad + 1):
            if cols + min(left, 0) + min(right, 0) >= 1 and (left or right):
                yield ["plr", left, right]
    for top in range(-(rows - 1), pad + 1):
        for bottom in range(-(rows - 1), pad + 1):
            if rows + min(top, 0) + min(bottom, 0) >= 1 and (top or bottom):
                yield ["ptb", top, bottom]
    if with_attr:
        for m in MAPPINGS:
            yield ["attr", m]


def mk_unary(op, e):
    return [op[0], e, *op[1:]]


class Sizes:
    """Width/height of an expression according to the grid model (memoised)."""

    def __init__(self, mode):
        self.specs = LEAVES[mode]
        self.memo = {}

    def __call__(self, e):
        k = key_of(e)
        if k not in self.memo:
            g = model_eval(e, self.specs)
            self.memo[k] = (g.cols, g.nrows)
        return self.memo[k]


def binary_ops(a, b, size, join_deltas=(-1, 0, 1)):
    """All defined binary combinations of (a, b) in this order."""
    (ac, ar), (bc, br) = size(a), size(b)
    if ac == bc:
        yield ["combine", [a, b], 0]
    for da in join_deltas:
        for db in join_deltas:
            if ac + da >= 1 and bc + db >= 1:
                yield ["join", [[a, ac + da], [b, bc + db]], 1]
    for left in range(bc - ac + 1):  # a on top of b
        for top in range(br - ar + 1):
            yield ["overlay", a, b, left, top]


def depth1(leaf_ids, size):
    out = []
    for lid in leaf_ids:
        e = ["leaf", lid]
        c, r = size(e)
        out.extend(mk_unary(op, e) for op in unary_ops(c, r))
    for a in leaf_ids:
        for b in leaf_ids:
            out.extend(binary_ops(["leaf", a], ["leaf", b], size))
    for a in leaf_ids:  # three operands
        for b in leaf_ids:
            ea, eb = ["leaf", a], ["leaf", b]
            if size(ea)[0] == size(eb)[0]:
                out.append(["combine", [ea, eb, ea], 2])
            out.append(["join", [[ea, size(ea)[0]], [eb, size(eb)[0] + 1], [ea, max(1, size(ea)[0] - 1)]], 0])
    return out


def rand_tree(r, depth, leaf_ids, size, p_leaf=0.12):
    if depth == 0 or r.random() < p_leaf:
        return ["leaf", r.choice(leaf_ids)]
    kind = r.choice(["unary", "unary", "unary", "combine", "join", "overlay", "overlay"])
    if kind == "unary":
        e = rand_tree(r, depth - 1, leaf_ids, size)
        c, rws = size(e)
        fam = r.choice(["trim", "trim", "trim_end", "plr", "plr", "plr", "ptb", "ptb", "attr", "wrap"])
        ops = [op for op in unary_ops(c, rws) if op[0] == fam] or [["wrap"]]
        return mk_unary(r.choice(ops), e)
    if kind == "combine":
        first = rand_tree(r, depth - 1, leaf_ids, size)
        c = size(first)[0]
        kids = [first]
        for _ in range(r.choice([1, 1, 2])):
            for _try in range(10):
                e = rand_tree(r, depth - 1, leaf_ids, size)
                if size(e)[0] == c:
                    break
            else:
                e = first
            kids.append(e)
        r.shuffle(kids)
        return ["combine", kids, r.randrange(len(kids))]
    if kind == "join":
        items = []
        for _ in range(r.choice([2, 2, 3])):
            e = rand_tree(r, depth - 1, leaf_ids, size)
            items.append([e, max(1, size(e)[0] + r.choice([-2, -1, 0, 0, 1, 2]))])
        return ["join", items, r.randrange(len(items))]
    bottom = rand_tree(r, depth - 1, leaf_ids, size)
    bc, br = size(bottom)
    for _try in range(10):
        top = rand_tree(r, depth - 1, leaf_ids, size)
        tc, tr = size(top)
        if tc <= bc and tr <= br:
            break
    else:
        top, tc, tr = ["leaf", "a1"], 1, 1
    return ["overlay", top, bottom, r.randint(0, bc - tc), r.randint(0, br - tr)]


def depth_of(e):
    return 0 if e[0] == "leaf" else 1 + max(depth_of(k) for k in kids_of(e))


def leaves_in(e):
    if e[0] == "leaf":
        return [e[1]]
    return [x for k in kids_of(e) for x in leaves_in(k)]


def spec_subset(mode, ids):
    return {k: LEAVES[mode][k] for k in sorted(set(ids))}


# ----------------------------------------------------------------------------------------- delta
def cols_layout(chars):
    """[(col_start, width, ch, a, cs)]; zero-width characters take the column of their base."""
    out, x, last = [], 0, 0
    for ch, a, s in chars:
        w = G.char_width(ch)
        if w == 0:
            out.append((last, 0, ch, a, s))
        else:
            out.append((x, w, ch, a, s))
            last = x
            x += w
    return out


def apply_delta(old_rows, delta_rows, cols, mode):
    """Apply a content_delta result to the previously drawn rows. -> (rows, skipped_cols, drawn_cols).
    A delta row is a list whose items are (attr, cs, bytes) runs, drawn at the current column, or an
    int n: the next n columns stay as previously drawn. (A bare int row, which TextCanvas/SolidCanvas
    .content_delta(self) produce, is read as [n]: the statement does not fix the row container.)"""
    out = []
    skipped = drawn = 0
    for y, drow in enumerate(delta_rows):
        if isinstance(drow, int):
            drow = [drow]
        if y >= len(old_rows):
            raise Malformed(f"delta has more than {len(old_rows)} rows")
        x = 0
        chars = []
        lay = cols_layout(old_rows[y])
        for item in drow:
            if isinstance(item, int):
                if item <= 0:
                    raise Malformed(f"delta row {y}: unchanged run of {item} columns")
                for cs_, w, ch, a, s in lay:
                    if cs_ < x < cs_ + w or (cs_ < x + item < cs_ + w):
                        raise Malformed(f"delta row {y}: unchanged columns [{x},{x + item}) split the wide character at column {cs_} of the old row")
                    if x <= cs_ < x + item:
                        chars.append((ch, a, s))
                x += item
                skipped += item
            else:
                run = observe_rows([[item]], mode)[0]
                chars.extend(run)
                wdt = G.row_width(run)
                x += wdt
                drawn += wdt
        if x != cols:
            raise Malformed(f"delta row {y} covers {x} columns of {cols}")
        out.append(chars)
    if len(out) != len(old_rows):
        raise Malformed(f"delta has {len(out)} rows, canvas has {len(old_rows)}")
    return out, skipped, drawn


def run_delta(old_expr, new_expr, mode, same_object=False, specs=None):
    """-> dict(fail, skipped, drawn). old and new are built over the same leaf objects."""
    ctx = Ctx(mode, specs)
    out = {"fail": None, "skipped": 0, "drawn": 0}
    try:
        old_real, old_model, _ = ev(old_expr, ctx)
        if same_object:
            new_real, new_model = old_real, old_model
        else:
            new_real, new_model, _ = ev(new_expr, ctx)
    except Fail as f:
        out["fail"] = {"why": "building the pair failed: " + f.why, "at": f.at}
        return out
    if (old_model.cols, old_model.nrows) != (new_model.cols, new_model.nrows):
        raise ValueError("delta pair of different sizes")
    old_rows = G.grid_chars(old_model)
    try:
        delta = list(new_real.content_delta(old_real))
        got, out["skipped"], out["drawn"] = apply_delta(old_rows, delta, new_model.cols, mode)
    except Malformed as e:
        out["fail"] = {"why": str(e)}
        return out
    except Exception as e:  # noqa: BLE001
        out["fail"] = {"why": f"content_delta raised {e!r}"}
        return out
    exp = G.grid_chars(new_model)
    d = first_diff(exp, got)
    if d:
        out["fail"] = {"why": "old rows + delta differ from the new content: " + d, "expected": show_rows(exp), "actual": show_rows(got), "delta": repr(delta)}
        return out
    try:
        check_unchanged(ctx, ctx.nodes, new_expr, "after content_delta")
    except Fail as f:
        out["fail"] = {"why": f.why}
    return out


def replace_leaf(e, old, new):
    return json.loads(key_of(e).replace(key_of(["leaf", old]), key_of(["leaf", new])))


def delta_pairs(trees, size, leaf_ids, r, n_random):
    """-> (same_layout_pairs, any_layout_pairs); a pair is (old, new, same_object)."""
    by_size, leaf_by_size = {}, {}
    for e in trees:
        by_size.setdefault(size(e), []).append(e)
    for lid in leaf_ids:
        leaf_by_size.setdefault(size(["leaf", lid]), []).append(lid)
    same = []
    for e in trees:
        same.append((e, e, True))  # against itself (same object)
        same.append((e, e, False))  # rebuilt: new composites over the same leaf objects
        if e[0] == "attr":  # only the attribute map differs
            for m in MAPPINGS:
                if m != e[2]:
                    same.append((e, ["attr", e[1], m], False))
        for lid in sorted(set(leaves_in(e))):
            for other in leaf_by_size.get(size(["leaf", lid]), []):
                if other != lid:
                    same.append((e, replace_leaf(e, lid, other), False))
                    same.append((replace_leaf(e, lid, other), e, False))
    anyl = []
    sizes = sorted(k for k, v in by_size.items() if len(v) > 1)
    for _ in range(n_random):
        sz = r.choice(sizes)
        anyl.append((r.choice(by_size[sz]), r.choice(by_size[sz]), False))
    return same, anyl


# --------------------------------------------------------------------------------------- protocol
def protocol_cases(base_exprs, size):
    """(base expr, op) with op parameters over the whole precondition of the assumed contracts in
    contracts/proto_widget.py (including results of zero rows / zero columns: `degenerate`)."""
    for e in base_exprs:
        c, r = size(e)
        yield e, ["wrap"]
        for top in range(r):
            for count in [None, *range(r + 2)]:
                yield e, ["trim", top, count]
        for n in range(1, r + 1):
            yield e, ["trim_end", n]
        for left in range(-c, 3):
            for right in range(-c, 3):
                if c + min(left, 0) + min(right, 0) >= 0:
                    yield e, ["plr", left, right]
        for top in range(-r, 3):
            for bottom in range(-r, 3):
                if (top < 0 or bottom < 0) and not (max(0, -top) < r and r + min(top, 0) + min(bottom, 0) >= 0):
                    continue
                yield e, ["ptb", top, bottom]
        yield e, ["attr", MAPPINGS[0]]


def shift(cur, dx, dy):
    return None if cur is None else (cur[0] + dx, cur[1] + dy)


def run_protocol_unary(e, op, mode, specs=None):
    """Facts: size change by the documented amounts, cursor and pop-up translated by (left, top).
    -> (ok, why, degenerate, info)"""
    ctx = Ctx(mode, specs)
    base, _m, _ = ev(e, ctx)
    c, r, cur, pop = base.cols(), base.rows(), base.get_cursor(), base.get_pop_up()
    cc = UC.CompositeCanvas(base)
    info = {"base_size": [c, r], "base_cursor": cur}
    if (cc.cols(), cc.rows(), cc.get_cursor(), cc.get_pop_up()) != (c, r, cur, pop):
        return False, "CompositeCanvas(c) does not keep cols/rows/cursor/pop-up", False, info
    k = op[0]
    dx = dy = 0
    ec, er = c, r
    if k == "trim":
        er = r - op[1] if op[2] is None else min(op[2], r - op[1])
        dy = -op[1]
    elif k == "trim_end":
        er = r - op[1]
    elif k == "plr":
        ec = c + op[1] + op[2]
        dx = op[1]
    elif k == "ptb":
        er = r + op[1] + op[2]
        dy = op[1]
    # a call that trims everything away before padding also counts as degenerate
    degenerate = ec == 0 or er == 0 or (k == "plr" and c + min(op[1], 0) + min(op[2], 0) == 0) or (k == "ptb" and r + min(op[1], 0) + min(op[2], 0) == 0)
    # Triage: pad_trim_left_right trimming EVERY column is reported as "zero-width", not "degenerate":
    # shards_trim_sides rejects it on purpose (`if cols <= 0: raise ValueError(cols)`), so the operation is
    # not defined there and the call is outside the statement's quantifier ("all offsets and sizes for
    # which the operation is defined"). It was in this check only because contracts/proto_widget.py
    # (cc_ptlr.requires: cols + min(left,0) + min(right,0) >= 0) admits it; see INFORMATIONAL below.
    if k == "plr" and c + min(op[1], 0) + min(op[2], 0) == 0:
        degenerate = "zero-width"
    # fields for the known-finding predicates (lists, so that `case.got_size == [0, 0]` can be written)
    info.update(op_kind=k, want_size=[ec, er])
    try:
        if k == "trim":
            cc.trim(op[1], op[2])
        elif k == "trim_end":
            cc.trim_end(op[1])
        elif k == "plr":
            cc.pad_trim_left_right(op[1], op[2])
        elif k == "ptb":
            cc.pad_trim_top_bottom(op[1], op[2])
        elif k == "attr":
            cc.fill_attr_apply({a: b for a, b in op[1]})
    except Exception as ex:  # noqa: BLE001
        return False, f"raised {ex!r} inside the assumed precondition", degenerate, info
    got = (cc.cols(), cc.rows(), cc.get_cursor(), (cc.get_pop_up() or (None, None))[:2])
    wcur = shift(cur, dx, dy)
    trims = k in ("trim", "trim_end") or (k in ("plr", "ptb") and (op[1] < 0 or op[2] < 0))
    if trims and wcur is not None and not (0 <= wcur[0] < ec and 0 <= wcur[1] < er):
        wcur = None  # the cursor's cell was trimmed away: the cursor goes with it (see spec/grid.py clip_cursor)
    want = (ec, er, wcur, (shift(pop[:2], dx, dy) if pop else (None, None)))
    info.update(got=repr(got), want=repr(want), got_size=[got[0], got[1]])
    if got != want:
        names = ["cols", "rows", "cursor", "pop-up"]
        bad = [n for n, g_, w_ in zip(names, got, want) if g_ != w_]
        info["wrong"] = bad
        return False, f"{', '.join(bad)} after {op}: (cols, rows, cursor, pop-up) = {got}, documented {want}", degenerate, info
    if (base.cols(), base.rows(), base.get_cursor()) != (c, r, cur):
        return False, "wrapped canvas changed", degenerate, info
    return True, "", degenerate, info


def run_protocol_nary(expr, mode, specs=None):
    """CanvasCombine / CanvasJoin / CanvasOverlay: size and cursor facts, computed from the operands'
    reported sizes and cursors only (no grid)."""
    ctx = Ctx(mode, specs)
    kids = [ev(k, ctx)[0] for k in kids_of(expr)]
    sizes = [(k.cols(), k.rows()) for k in kids]
    curs = [k.get_cursor() for k in kids]
    try:
        res = _real_op(expr, kids)
    except Exception as ex:  # noqa: BLE001
        return False, f"raised {ex!r}", {}
    got = (res.cols(), res.rows(), res.get_cursor())
    op = expr[0]
    if op == "combine":
        offs, y = [], 0
        for _c, r in sizes:
            offs.append((0, y))
            y += r
        size = (sizes[0][0], y)
        cand = [shift(cu, *o) for cu, o in zip(curs, offs) if cu is not None]
    elif op == "join":
        offs, x = [], 0
        for it in expr[1]:
            offs.append((x, 0))
            x += it[1]
        size = (x, max(r for _c, r in sizes))
        # an operand wider than its slot is trimmed on the right: a cursor in the trimmed part goes with its cell
        cand = [shift(cu, *o) for cu, o, it in zip(curs, offs, expr[1]) if cu is not None and cu[0] < it[1]]
    else:
        size = sizes[1]
        cand = [shift(curs[0], expr[3], expr[4])] if curs[0] is not None else ([curs[1]] if curs[1] is not None else [])
    info = {"operand_sizes": sizes, "operand_cursors": curs, "got": repr(got), "documented_size": size, "admissible_cursors": cand}
    if got[:2] != size:
        return False, f"size {got[:2]}, documented {size}", info
    if (got[2] is None) != (not cand) or (cand and got[2] not in cand):
        return False, f"cursor {got[2]}, admissible {cand or None}", info
    return True, "", info


def run_finalized(lid, mode, specs=None):
    """A finalized composite refuses every mutator with CanvasError and stays as it was."""
    ctx = Ctx(mode, specs)
    base, _m, _ = ev(["leaf", lid], ctx)
    cc = UC.CompositeCanvas(base)
    cc.finalize(POPW, (cc.cols(),), False)
    snap = snapshot(cc, mode)
    other = UC.CompositeCanvas(UC.SolidCanvas("o", 1, 1))
    muts = {
        "trim": lambda: cc.trim(0, 1),
        "trim_end": lambda: cc.trim_end(1),
        "pad_trim_left_right": lambda: cc.pad_trim_left_right(1, 1),
        "pad_trim_top_bottom": lambda: cc.pad_trim_top_bottom(1, 1),
        "overlay": lambda: cc.overlay(other, 0, 0),
        "fill_attr": lambda: cc.fill_attr("Z"),
        "fill_attr_apply": lambda: cc.fill_attr_apply({None: "Z"}),
        "set_cursor": lambda: setattr(cc, "cursor", (0, 0)),
        "set_pop_up": lambda: cc.set_pop_up(POPW, 0, 0, 1, 1),
        "set_depends": lambda: cc.set_depends([]),
        "finalize": lambda: cc.finalize(POPW, (1,), False),
    }
    for name, f in muts.items():
        try:
            f()
        except UC.CanvasError:
            pass
        except Exception as ex:  # noqa: BLE001
            return False, f"{name} on a finalized canvas raised {ex!r} instead of CanvasError"
        else:
            return False, f"{name} on a finalized canvas did not raise"
        if snapshot(cc, mode) != snap:
            return False, f"{name} changed the finalized canvas before raising"
    return True, ""


# --------------------------------------------------------------------------------------------- run
def _digest(s):
    return hashlib.blake2b(s.encode("utf-8"), digest_size=8).digest()


def _compact(e, mode, res):
    """What travels back from a worker for one tree: small unless it failed."""
    f = res["fail"]
    if f:
        f = {"mode": mode, "expr": e, "leaves": spec_subset(mode, leaves_in(e)), **f}
    return (f, res["cuts"], res["has_coords"], res["size"])


def _tree_worker(args):
    mode, exprs = args
    with enc_mode(mode):
        return [_compact(e, mode, run_tree(e, mode)) for e in exprs]


def _rand_worker(args):
    mode, sub_seed, n, maxdepth, leaf_ids = args
    r = rng(sub_seed)
    size = Sizes(mode)
    out = []
    with enc_mode(mode):
        tries = 0
        while len(out) < n and tries < 3 * n:
            tries += 1
            e = rand_tree(r, maxdepth, leaf_ids, size)
            if e[0] == "leaf":
                continue
            c, rr = size(e)
            if c * rr > 400:
                continue
            if len(size.memo) > 200000:
                size.memo.clear()
            f, cuts, _hc, sz = _compact(e, mode, run_tree(e, mode))
            out.append((_digest(mode + key_of(e)), f, cuts, depth_of(e), e if len(out) < 2 else None, sz))
    return out


def _delta_worker(args):
    mode, pairs = args
    with enc_mode(mode):
        return [run_delta(o, n, mode, same) for o, n, same in pairs]


def _proto_worker(args):
    mode, jobs = args
    out = []
    with enc_mode(mode):
        for kind, e, op in jobs:
            try:
                if kind == "u":
                    out.append(run_protocol_unary(e, op, mode))
                else:
                    ok, why, info = run_protocol_nary(e, mode)
                    out.append((ok, why, False, info))
            except Fail as f:
                out.append((False, "building the operand(s) failed: " + f.why, False, {}))
    return out


def _pmap(fn, mode, items, procs):
    """Map a list-worker over items, keeping order."""
    if procs <= 1 or len(items) < 3000:
        return fn((mode, items))
    import multiprocessing as mp

    n = procs * 4
    chunks = [(mode, items[i::n]) for i in range(n)]
    with mp.get_context("fork").Pool(procs) as pool:
        res = pool.map(fn, chunks)
    out = [None] * len(items)
    for i, ch in enumerate(res):
        out[i::n] = ch
    return out


def enumerate_trees(mode, tier, size):
    """-> (leaf ids, d0, d1, d2, description). Clean, exhaustively enumerated scopes."""
    quick = tier == "quick"
    leaf_ids = QUICK_LEAVES[mode] if quick else list(LEAVES[mode])
    core = CORE[tier][mode]
    pad2 = 1 if quick else 2
    d0 = [["leaf", k] for k in leaf_ids]
    d1 = depth1(leaf_ids, size)
    d1core = depth1(core, size)
    d2 = []
    for e in d1core:  # every unary operation over every depth-1 tree of the core leaves
        c, rr = size(e)
        d2.extend(mk_unary(op, e) for op in unary_ops(c, rr, pad=pad2, with_attr=True, with_wrap=False))
    bin_leaves = core[:3] if quick else core
    for e in d1core:  # every binary operation between a depth-1 tree of the core leaves and a leaf, both orders
        for lid in bin_leaves:
            d2.extend(binary_ops(e, ["leaf", lid], size, join_deltas=(-1, 1)))
            d2.extend(binary_ops(["leaf", lid], e, size, join_deltas=(-1, 1)))
    desc = (
        f"[{mode}] leaves {leaf_ids} (<= 4x3); ALL trees of depth <= 1 (every trim/trim_end, pad_trim with pads <= 2 and every trim amount, "
        f"5 attribute maps, combine of 2 and 3, join of 2 and 3 with widths cols-1..cols+1, overlay at every offset); depth 2: every unary op (pads <= {pad2}) over every "
        f"depth-1 tree of core leaves {core}, and every combine/join(widths cols-1, cols+1)/overlay(every offset) of such a tree with a leaf of {bin_leaves} in both orders"
    )
    return leaf_ids, d0, d1, d2, desc


TREE_ASPECTS = ("content", "size", "coords", "unchanged", "shards")

# Checks reported as observations, never as violations (triage of the first run on the real tree).
INFORMATIONAL = {
    f"{ID}/canvas-protocol-zero-width": (
        "outside the statement's quantifier: pad_trim_left_right that trims every column raises ValueError(0) by design "
        "(shards_trim_sides: `if cols <= 0: raise ValueError(cols)`), i.e. the operation is not defined there, and the statement only speaks "
        "of offsets and sizes for which it is. Kept as an observation because the ASSUMED contract cc_ptlr in contracts/proto_widget.py "
        "admits these calls (requires cols + min(left,0) + min(right,0) >= 0, should be > 0): every observation is a call that a caller "
        "proved against that contract could make and that raises on the real code"
    ),
}


def run(tier="quick", seed=0):
    t0 = time.time()
    quick = tier == "quick"
    procs = 16  # quick used 8: with 16 the quick tier keeps its margin under the 45 s budget when the machine is busy
    base_rng = rng(seed)
    with enc_mode("utf8"):
        _check_alphabet()
    modes = ["utf8", "euc"]
    maxdepth = 2 if quick else 3
    n_rand = {"utf8": 16000 if quick else 300000, "euc": 4000 if quick else 75000}

    scope = {}
    descs = []
    for mode in modes:
        size = Sizes(mode)
        leaf_ids, d0, d1, d2, desc = enumerate_trees(mode, tier, size)
        scope[mode] = (size, leaf_ids, d0, d1, d2)
        descs.append(desc)
    bound_enum = "; ".join(descs)

    checks = {
        "content": Check(f"{ID}/content-cells", "content() of every node of every tree, decoded to (character, attr, cs) per row, equals the grid model's rows, and every row is cols() columns wide", True, bound_enum),
        "size": Check(f"{ID}/size", "cols()/rows() of every node equal the grid's width/height", True, bound_enum),
        "coords": Check(f"{ID}/coords", "cursor and pop-up coordinates (coords, get_cursor, get_pop_up, translate_coords) equal the grid's translated coordinates at every node; combine/join: one of the operands' translated coordinates; distinct = trees carrying a coordinate at the root", True, bound_enum),
        "unchanged": Check(f"{ID}/operands-unchanged", "after every operation its operands, and at the end all leaves and intermediate canvases, report the same size, content and coords as when created (a leaf is one shared object within a tree)", True, bound_enum),
        "widecut": Check(f"{ID}/wide-cut-space", "trees in which the grid cuts at least one double-width character (trim or overlay edge through it): the canvas emits only whole characters, a space with the cut character's attribute and the default charset in the remaining cell, and rows exactly cols() wide; distinct = trees with >= 1 cut", True, bound_enum),
        "shards": Check(f"{ID}/shards-wellformed", "after every operation the composite's cviews tile rows x cols exactly once, reach the end of their shard and stay inside their source canvas", True, bound_enum),
    }
    rchk = Check(f"{ID}/random-deep-trees", "seeded random trees: all of the above aspects (content, size, coords, operands unchanged, shards) at every node", False, f"{n_rand} random trees of depth <= {maxdepth} (combine of 2-3, join of 2-3 with widths cols-2..cols+2, pads <= 2), result area <= 400 cells, same leaves")

    n_enum = 0
    for mode in modes:
        size, leaf_ids, d0, d1, d2 = scope[mode]
        trees = d0 + d1 + d2
        n_enum += len(trees)
        results = _pmap(_tree_worker, mode, trees, procs)
        for e, (f, cuts, has_coords, sz) in zip(trees, results):
            k = (mode, key_of(e))
            sample = {"mode": mode, "expr": e, "size": sz, "cuts": cuts}
            for name in TREE_ASPECTS:
                bad = bool(f) and f["check"] == name
                nontriv = True
                if name == "coords":
                    nontriv = has_coords or bad
                elif name in ("shards", "unchanged"):
                    nontriv = e[0] != "leaf"
                checks[name].case(k, not bad, f if bad else None, nontrivial=nontriv, sample=sample)
            # wide-cut view of the content clause
            bad = bool(f) and f["check"] == "content" and bool(f.get("half_character") or f.get("model_cuts"))
            if cuts > 0 or bad:
                checks["widecut"].case(k, not bad, f if bad else None, nontrivial=True, sample=sample)
        # random trees, generated inside the workers
        nchunks = procs * 2
        per = (n_rand[mode] + nchunks - 1) // nchunks
        jobs = [(mode, base_rng.getrandbits(30), per, maxdepth, leaf_ids) for _ in range(nchunks)]
        if procs > 1:
            import multiprocessing as mp

            with mp.get_context("fork").Pool(procs) as pool:
                rres = pool.map(_rand_worker, jobs)
        else:
            rres = [_rand_worker(j) for j in jobs]
        for chunk in rres:
            for dig, f, cuts, depth, e, sz in chunk:
                rchk.case(dig, not f, f, nontrivial=True, sample={"mode": mode, "expr": e, "size": sz, "cuts": cuts, "depth": depth} if e else None)

    out = [c.result() for c in checks.values()] + [rchk.result()]

    # ---- content_delta
    dsame = Check(f"{ID}/content-delta-same-layout", "new.content_delta(old) applied to old's rows (int n = the next n columns stay as drawn, runs = draw) reproduces new's content; old and new have the same tree shape over the same leaf objects: the same object, the tree rebuilt, one leaf replaced by another of the same size (both directions), another attribute map; nontrivial = delta that both skips and draws", True, "")
    dany = Check(f"{ID}/content-delta-any-layout", "the same, old and new being two arbitrary trees of equal size over the same leaf objects (shard boundaries need not line up); nontrivial = delta that both skips and draws", False, "")
    n_pairs = 0
    for mode in modes:
        size, leaf_ids, d0, d1, d2 = scope[mode]
        dl = [k for k in leaf_ids if k != "orph"]  # see apply_delta: orphan zero-width characters have no column of their own
        base = [e for e in d0 + d1 + d2[:: (9 if quick else 8)] if "orph" not in leaves_in(e)]
        if quick:
            base = base[::2]
        same, anyl = delta_pairs(base, size, dl, base_rng, (3000 if quick else 80000) // (1 if mode == "utf8" else 4))
        n_pairs += len(same) + len(anyl)
        for chk, pairs in ((dsame, same), (dany, anyl)):
            chk.bound += f"[{mode}] {len(pairs)} pairs from {len(base)} trees of depth <= 2 (leaves without orphan zero-width characters); "
            res = _pmap(_delta_worker, mode, pairs, procs)
            for (o, n, sameobj), rs in zip(pairs, res):
                f = rs["fail"]
                detail = None
                if f:
                    detail = {"mode": mode, "old": o, "new": n, "same_object": sameobj, "leaves": spec_subset(mode, leaves_in(o) + leaves_in(n)), **f}
                chk.case((mode, key_of(o), key_of(n), sameobj), not f, detail, nontrivial=bool(f) or (rs["skipped"] > 0 and rs["drawn"] > 0), sample={"mode": mode, "old": o, "new": n, "skipped_cols": rs["skipped"], "drawn_cols": rs["drawn"]})

    out += [dsame.result(), dany.result()]

    # ---- canvas protocol (owned facts)
    pchk = Check(
        f"{ID}/canvas-protocol",
        "size/cursor effects assumed by contracts/proto_widget.py, for results with >= 1 row and >= 1 column: CompositeCanvas(c) keeps cols/rows/cursor/pop-up; trim(top,count): rows = rows-top or min(count, rows-top), "
        "cursor y-top; trim_end(n): rows-n, cursor kept; pad_trim_left_right(l,r): cols+l+r, cursor x+l; pad_trim_top_bottom(t,b): rows+t+b, cursor y+t (a cursor whose cell is trimmed away is dropped); fill_attr_apply: nothing; the other dimension is unchanged and the pop-up "
        "moves like the cursor; CanvasOverlay: bottom's size, top's cursor+(left,top) else bottom's; CanvasCombine: (cols, sum of rows), a child's cursor+(0, rows above); CanvasJoin: (sum of requested cols, max rows), a child's cursor+(cols to the left, 0)",
        True,
        "operands: every leaf and every 2nd depth-1 tree (quick: every 5th); unary parameters: everything inside the contracts' preconditions with pads <= 2 and count <= rows+1; n-ary: the depth <= 2 combine/join/overlay trees of the enumerated scope (quick: every 2nd)",
    )
    gchk = Check(
        f"{ID}/canvas-protocol-degenerate",
        "the same facts for the calls the assumed contracts also admit whose (intermediate) result has zero rows: trim(top, 0), trim_end(rows), pad_trim_top_bottom trimming every row (then possibly padding)",
        True,
        "same operands; parameters at the edge of the contracts' preconditions",
    )
    zchk = Check(
        f"{ID}/canvas-protocol-zero-width",
        "pad_trim_left_right(l, r) with cols + min(l,0) + min(r,0) == 0 (every column trimmed away, then possibly padded), which the assumed contract cc_ptlr admits: cols+l+r columns, cursor x+l; an observation is a call that does not do that",
        True,
        "same operands; every (l, r) with pads <= 2 that trims every column",
    )
    fchk = Check(f"{ID}/finalized-guard", "a finalized CompositeCanvas refuses trim, trim_end, pad_trim_*, overlay, fill_attr(_apply), set_cursor, set_pop_up, set_depends and finalize with CanvasError and is unchanged afterwards", True, "one composite per leaf and mode")
    for chk in (pchk, gchk, zchk, fchk):
        chk.t0 = time.time()
    for mode in modes:
        size, leaf_ids, d0, d1, d2 = scope[mode]
        pbase = d0 + (d1[::5] if quick else d1[::2])
        nary = [e for e in (d1 + d2) if e[0] in ("combine", "join", "overlay")]
        if quick:
            nary = nary[::2]
        jobs = [("u", e, op) for e, op in protocol_cases(pbase, size)] + [("n", e, None) for e in nary]
        for (kind, e, op), (ok, why, degen, info) in zip(jobs, _pmap(_proto_worker, mode, jobs, procs)):
            if kind == "u":
                tgt = zchk if degen == "zero-width" else (gchk if degen else pchk)
                tgt.case((mode, key_of(e), key_of(op)), ok, {"mode": mode, "base": e, "op": op, "leaves": spec_subset(mode, leaves_in(e)), "why": why, **info}, sample={"mode": mode, "base": e, "op": op})
            else:
                pchk.case((mode, key_of(e)), ok, {"mode": mode, "expr": e, "leaves": spec_subset(mode, leaves_in(e)), "why": why, **info}, sample={"mode": mode, "expr": e})
        with enc_mode(mode):
            for lid in leaf_ids:
                ok, why = run_finalized(lid, mode)
                fchk.case((mode, lid), ok, {"mode": mode, "leaf": lid, "leaves": spec_subset(mode, [lid]), "why": why}, sample={"mode": mode, "leaf": lid})

    out += [pchk.result(), gchk.result(), zchk.result(), fchk.result()]
    wall = round(time.time() - t0, 1)
    return {
        "checks": out,
        "bound": f"UTF-8 and euc-jp (double-byte) modes; leaf canvases <= 4x3 (text with wide, zero-width, orphan zero-width, DEC-charset runs, 2-run attributes; solid; blank); {n_enum} enumerated trees of depth <= 2 + {rchk.evaluations} seeded random trees of depth <= {maxdepth}; {n_pairs} content_delta pairs; wall {wall}s",
    }


# ------------------------------------------------------------------------------------------ replay
def replay(check_name, case):
    mode = case.get("mode", "utf8")
    specs = dict(LEAVES[mode])
    specs.update(case.get("leaves") or {})
    name = check_name.split("/", 1)[-1]
    with enc_mode(mode):
        if name.startswith("content-delta"):
            res = run_delta(case["old"], case["new"], mode, case.get("same_object", False), specs)
            f = res["fail"]
            return {"outcome": "confirmed" if f else "not-reproduced", "detail": f or res}
        if name in ("canvas-protocol", "canvas-protocol-degenerate", "canvas-protocol-zero-width"):
            try:
                if "op" in case:
                    ok, why, _degen, info = run_protocol_unary(case["base"], case["op"], mode, specs)
                else:
                    ok, why, info = run_protocol_nary(case["expr"], mode, specs)
            except Fail as f:
                ok, why, info = False, f.why, {}
            return {"outcome": "not-reproduced" if ok else "confirmed", "detail": {"why": why, **info}}
        if name == "finalized-guard":
            ok, why = run_finalized(case["leaf"], mode, specs)
            return {"outcome": "not-reproduced" if ok else "confirmed", "detail": {"why": why}}
        res = run_tree(case["expr"], mode, specs)
        f = res["fail"]
        want = {"content-cells": "content", "wide-cut-space": "content", "size": "size", "coords": "coords", "operands-unchanged": "unchanged", "shards-wellformed": "shards"}.get(name)
        confirmed = bool(f) and (want is None or f["check"] == want)
        return {"outcome": "confirmed" if confirmed else "not-reproduced", "detail": f or {"size": res["size"], "cuts": res["cuts"]}}
