"""C02 bounded stand-in: expression trees of canvas operations, real urwid canvases against the plain
grid of cells in spec/grid.py.

Every case is one expression tree (JSON-able nested lists, see `build`). The real tree and the model
tree are evaluated in lock step; after EVERY node the real canvas is observed through content(),
cols(), rows(), coords and compared with the grid, and the operands of the node are re-observed and
compared with the snapshot taken when they were created. At the root all leaves and all intermediate
canvases are re-observed once more.

Expression forms
  ["leaf", id]                          a leaf canvas from LEAVES (one object per id per case: shared,
                                        like a cached canvas)
  ["wrap", e]                           CompositeCanvas(e)
  ["trim", e, top, count|None]          CompositeCanvas(e).trim(top, count)
  ["trim_end", e, n]
  ["plr", e, left, right]               pad_trim_left_right
  ["ptb", e, top, bottom]               pad_trim_top_bottom
  ["attr", e, [[k, v], ...]]            fill_attr_apply(dict)
  ["combine", [e, ...], focus_index]    CanvasCombine
  ["join", [[e, cols], ...], focus_idx] CanvasJoin
  ["overlay", e_top, e_bottom, left, top]  CanvasOverlay(CompositeCanvas(top), bottom, left, top)
"""
from __future__ import annotations

import contextlib
import json
import time

from bounded.common import Check, rng
from spec import grid as G

import urwid
from urwid import canvas as UC
from urwid import str_util, util

ID = "C02"
W1, W2, ACC = "中", "文", "́"
POPW = "POPW"  # stands for the pop-up widget (opaque data carried with the coordinates)


# ------------------------------------------------------------------------------------------ leaves
def _t(rows, maxcol=None, cursor=None, popup=None):
    return {"kind": "text", "rows": rows, "maxcol": maxcol, "cursor": cursor, "popup": popup}


LEAVES = {
    # 1x1 with a cursor
    "a1": _t([[["a", "A", None]]], cursor=[0, 0]),
    # 2x1, two attribute runs
    "ab": _t([[["a", "A", None], ["b", "B", None]]]),
    # one wide character, 2x1, pop-up
    "w": _t([[[W1, "A", None]]], popup=[1, 0, [POPW, 3, 2]]),
    # 3x2 wide characters at both alignments, 2-run attribute lists, cursor on the second row
    "wa": _t([[[W1, "A", None], ["a", None, None]], [["b", "B", None], [W2, "A", None]]], cursor=[1, 1]),
    # 4x2: accented (zero-width) characters and two wide characters with different attributes
    "zw": _t([[["a" + ACC, "A", None], ["b", "A", None], ["c" + ACC + ACC, "B", None], ["d", "B", None]], [[W1 + ACC, "A", None], [W2, "B", None]]]),
    # 3x1 starting with an orphan zero-width character, then a wide character
    "orph": _t([[[ACC, "B", None], [W1, "A", None], ["z", None, None]]]),
    # 3x1 DEC special character set runs, with a pop-up and a cursor
    "dec": _t([[["q", None, "0"], ["x", "A", "0"], ["y", "A", None]]], cursor=[2, 0], popup=[0, 0, [POPW, 2, 1]]),
    # 3x2 ragged: the second row is padded by TextCanvas itself
    "rag": _t([[["a", "A", None], ["b", "A", None], ["c", "B", None]], [[W1, "B", None]]]),
    # 4x3 mixed
    "big": _t(
        [
            [[W1, "A", None], [W2, "B", None]],
            [["a", "A", None], [W1, "A", None], ["b" + ACC, "B", None]],
            [["x", None, None], ["y", "A", None], [W2, "B", None]],
        ],
        cursor=[3, 2],
    ),
    # 4x1: explicit maxcol wider than the text
    "mx": _t([[[W1, "B", None]]], maxcol=4),
    "sx": {"kind": "solid", "char": "x", "cols": 2, "rows": 2},
    "sl": {"kind": "solid", "char": "─", "cols": 3, "rows": 1},
    "s1": {"kind": "solid", "char": " ", "cols": 1, "rows": 3},
    "b21": {"kind": "blank", "cols": 2, "rows": 1},
    "b32": {"kind": "blank", "cols": 3, "rows": 2},
}
QUICK_LEAVES = ["a1", "ab", "w", "wa", "zw", "orph", "dec", "rag", "big", "sx", "b21"]
ALL_LEAVES = list(LEAVES)
NO_ORPHAN = [k for k in ALL_LEAVES if k != "orph"]
MAPPINGS = [
    [[None, "X"]],
    [["A", "B"]],
    [["A", "B"], ["B", "A"]],
    [["A", None], [None, "A"]],
    [["X", "Y"], ["B", "X"]],
]


@contextlib.contextmanager
def utf8_mode():
    saved = (util._target_encoding, util._use_dec_special, str_util.get_byte_encoding())
    try:
        urwid.set_encoding("utf-8")
        UC.CanvasCache.clear()
        yield
    finally:
        util._target_encoding, util._use_dec_special = saved[0], saved[1]
        str_util.set_byte_encoding(saved[2])
        UC.CanvasCache.clear()


def _check_alphabet():
    """The reference width function and urwid's must agree on the alphabet used (harness sanity)."""
    for ch in "abcdqxyz " + W1 + W2 + ACC + "─":
        if G.char_width(ch) != str_util.get_char_width(ch):
            raise AssertionError(f"width table disagreement on {ch!r}")


def real_leaf(spec):
    if spec["kind"] == "text":
        text, attr, cs = [], [], []
        for row in spec["rows"]:
            text.append(b"".join(s.encode("utf-8") for s, _a, _c in row))
            attr.append([(a, len(s.encode("utf-8"))) for s, a, _c in row])
            cs.append([(c, len(s.encode("utf-8"))) for s, _a, c in row])
        cur = tuple(spec["cursor"]) if spec["cursor"] else None
        c = UC.TextCanvas(text, attr, cs, cursor=cur, maxcol=spec["maxcol"])
        if spec["popup"]:
            left, top, (w, ow, oh) = spec["popup"]
            c.set_pop_up(w, left, top, ow, oh)
        return c
    if spec["kind"] == "solid":
        return UC.SolidCanvas(spec["char"], spec["cols"], spec["rows"])
    if spec["kind"] == "blank":
        # a canvas made only of blank padding, built the way pad_trim_* builds padding
        c = UC.CompositeCanvas()
        c.shards = [(spec["rows"], [(0, 0, spec["cols"], spec["rows"], None, UC.blank_canvas)])]
        return c
    raise ValueError(spec)


def model_leaf(spec):
    if spec["kind"] == "text":
        pop = None
        if spec["popup"]:
            left, top, data = spec["popup"]
            pop = (left, top, tuple(data))
        return G.text_grid([[tuple(c) for c in row] for row in spec["rows"]], spec["maxcol"], spec["cursor"], pop)
    if spec["kind"] == "solid":
        return G.solid_grid(spec["char"].encode("utf-8"), None, spec["cols"], spec["rows"])
    return G.blank_grid(spec["cols"], spec["rows"])


# ------------------------------------------------------------------------------------- observation
class Malformed(Exception):
    pass


def observe_rows(content_iter):
    """content() -> list of rows of (char, attr, cs). Raises Malformed if a run is not (attr, cs,
    bytes) or its bytes are not whole characters (half a character emitted)."""
    rows = []
    for y, row in enumerate(content_iter):
        chars = []
        for item in row:
            if not (isinstance(item, tuple) and len(item) == 3 and isinstance(item[2], bytes)):
                raise Malformed(f"row {y}: run {item!r} is not (attr, cs, bytes)")
            a, cs, text = item
            try:
                s = text.decode("utf-8")
            except UnicodeDecodeError:
                raise Malformed(f"row {y}: run {item!r} holds part of a character") from None
            chars.extend((ch, a, cs) for ch in s)
        rows.append(chars)
    return rows


def snapshot(c):
    return (c.cols(), c.rows(), observe_rows(c.content()) if c.rows() else [], dict(c.coords))


def show_rows(rows):
    """Compact human-readable form: one string per row, 'char/attr/cs' separated by spaces."""
    return [" ".join(f"{ch!r}/{a}/{s}" for ch, a, s in r) for r in rows]


def first_diff(exp, act):
    if len(exp) != len(act):
        return f"{len(act)} rows of content instead of {len(exp)}"
    for y, (e, a) in enumerate(zip(exp, act)):
        if e != a:
            for i in range(max(len(e), len(a))):
                ei = e[i] if i < len(e) else None
                ai = a[i] if i < len(a) else None
                if ei != ai:
                    return f"row {y}, character #{i}: grid has {ei!r}, canvas emits {ai!r}"
    return None


def wf_shards(canv):
    """Shard well-formedness: the cviews tile the rows x cols rectangle exactly once, every cview
    reaches the end of the shard it starts in, and views stay inside their source canvases."""
    rows, cols = canv.rows(), canv.cols()
    if rows == 0:
        return None
    occ = [[False] * cols for _ in range(rows)]
    y = 0
    for num_rows, cviews in canv.shards:
        if not isinstance(num_rows, int) or num_rows <= 0:
            return f"shard with {num_rows!r} rows"
        x = 0
        for cv in cviews:
            tl, tt, c, r, _amap, src = cv[:6]
            if c <= 0 or r <= 0:
                return f"empty cview {cv[:4]}"
            while x < cols and occ[y][x]:
                x += 1
            if x + c > cols or y + r > rows:
                return f"cview {cv[:4]} placed at ({x},{y}) leaves the {cols}x{rows} canvas"
            if r < num_rows:
                return f"cview {cv[:4]} shorter than its shard ({num_rows} rows)"
            for yy in range(y, y + r):
                for xx in range(x, x + c):
                    if occ[yy][xx]:
                        return f"cview {cv[:4]} at ({x},{y}) overlaps another view"
                    occ[yy][xx] = True
            x += c
            if src is not UC.blank_canvas and not (0 <= tl and tl + c <= src.cols() and 0 <= tt and tt + r <= src.rows()):
                return f"cview {cv[:4]} outside its {src.cols()}x{src.rows()} source"
        for yy in range(y, min(rows, y + num_rows)):
            if not all(occ[yy]):
                return f"row {yy} not fully covered after the shard starting at row {y}"
        y += num_rows
    if y != rows:
        return "shard rows do not add up"
    return None


# ---------------------------------------------------------------------------------- lock-step eval
class Fail(Exception):
    def __init__(self, check, why, at, extra=None):
        super().__init__(why)
        self.check, self.why, self.at, self.extra = check, why, at, extra or {}


class Ctx:
    def __init__(self, leaves=None):
        self.specs = leaves or LEAVES
        self.leaf = {}
        self.nodes = []  # (expr, real canvas, snapshot)
        self.used = set()

    def get_leaf(self, lid):
        if lid not in self.leaf:
            spec = self.specs[lid]
            real, model = real_leaf(spec), model_leaf(spec)
            self.leaf[lid] = (real, model)
            self.used.add(lid)
        return self.leaf[lid]


def _real_op(expr, kids):
    """Apply the real operation of `expr` to the already built real operand canvases."""
    op = expr[0]
    if op == "wrap":
        return UC.CompositeCanvas(kids[0])
    if op in ("trim", "trim_end", "plr", "ptb", "attr"):
        cc = UC.CompositeCanvas(kids[0])
        if op == "trim":
            cc.trim(expr[2], expr[3])
        elif op == "trim_end":
            cc.trim_end(expr[2])
        elif op == "plr":
            cc.pad_trim_left_right(expr[2], expr[3])
        elif op == "ptb":
            cc.pad_trim_top_bottom(expr[2], expr[3])
        else:
            cc.fill_attr_apply({k: v for k, v in expr[2]})
        return cc
    if op == "combine":
        return UC.CanvasCombine([(c, None, i == expr[2]) for i, c in enumerate(kids)])
    if op == "join":
        return UC.CanvasJoin([(c, None, i == expr[2], item[1]) for i, (c, item) in enumerate(zip(kids, expr[1]))])
    if op == "overlay":
        return UC.CanvasOverlay(UC.CompositeCanvas(kids[0]), kids[1], expr[3], expr[4])
    raise ValueError(op)


def _model_op(expr, kids):
    """-> (grid, admissible coords or None)."""
    op = expr[0]
    if op == "wrap":
        return G.wrap(kids[0]), None
    if op == "trim":
        return G.trim(kids[0], expr[2], expr[3]), None
    if op == "trim_end":
        return G.trim_end(kids[0], expr[2]), None
    if op == "plr":
        return G.pad_trim_left_right(kids[0], expr[2], expr[3]), None
    if op == "ptb":
        return G.pad_trim_top_bottom(kids[0], expr[2], expr[3]), None
    if op == "attr":
        return G.fill_attr_apply(kids[0], {k: v for k, v in expr[2]}), None
    if op == "combine":
        return G.combine(kids), G.candidates(G.combine_coord_parts(kids))[0]
    if op == "join":
        items = [(g, item[1]) for g, item in zip(kids, expr[1])]
        return G.join(items), G.candidates(G.join_coord_parts(items))[0]
    if op == "overlay":
        return G.overlay(kids[0], kids[1], expr[3], expr[4]), None
    raise ValueError(op)


def kids_of(expr):
    op = expr[0]
    if op == "leaf":
        return []
    if op == "combine":
        return list(expr[1])
    if op == "join":
        return [it[0] for it in expr[1]]
    if op == "overlay":
        return [expr[1], expr[2]]
    return [expr[1]]


def model_eval(expr, specs=None, _memo=None):
    if expr[0] == "leaf":
        return model_leaf((specs or LEAVES)[expr[1]])
    return _model_op(expr, [model_eval(k, specs) for k in kids_of(expr)])[0]


def compare(real, model, adm, at, ctx, flags):
    """Observe a real canvas against a grid. Raises Fail on the first disagreement."""
    try:
        rcols, rrows = real.cols(), real.rows()
    except Exception as e:  # noqa: BLE001
        raise Fail("size", f"cols()/rows() raised {e!r}", at) from None
    if (rcols, rrows) != (model.cols, model.nrows):
        raise Fail("size", f"reports {rcols}x{rrows} (cols x rows), the grid is {model.cols}x{model.nrows}", at)
    try:
        rows = observe_rows(real.content()) if rrows else []
    except Malformed as e:
        raise Fail("content", str(e), at, {"half_character": True}) from None
    except Exception as e:  # noqa: BLE001
        raise Fail("content", f"content() raised {e!r}", at) from None
    exp = G.grid_chars(model)
    d = first_diff(exp, rows)
    if d:
        raise Fail("content", d, at, {"expected": show_rows(exp), "actual": show_rows(rows)})
    for y, r in enumerate(rows):
        if G.row_width(r) != rcols:
            raise Fail("content", f"row {y} is {G.row_width(r)} columns wide, canvas reports {rcols}", at)
    # coordinates
    rc = dict(real.coords)
    if adm is None:
        if rc != model.coords:
            raise Fail("coords", f"coords {rc!r}, expected {model.coords!r}", at)
    else:
        if set(rc) != set(adm) or any(rc[k] not in adm[k] for k in rc):
            raise Fail("coords", f"coords {rc!r}, admissible {adm!r}", at)
        model.coords = rc  # follow the implementation's tie-break among admissible operands
    if real.get_cursor() != (model.coords["cursor"][:2] if "cursor" in model.coords else None):
        raise Fail("coords", f"get_cursor() {real.get_cursor()!r} disagrees with coords {model.coords!r}", at)
    if real.get_pop_up() != model.coords.get("pop up"):
        raise Fail("coords", f"get_pop_up() {real.get_pop_up()!r} disagrees with coords {model.coords!r}", at)
    if real.translate_coords(2, 3) != G.translate(model.coords, 2, 3):
        raise Fail("coords", "translate_coords(2,3) is not a shift of the coords", at)
    if hasattr(real, "shards"):
        w = wf_shards(real)
        if w:
            raise Fail("shards", w, at)
    return (rcols, rrows, rows, rc)


def check_unchanged(ctx, exprs_snaps, at, when):
    for e, c, snap in exprs_snaps:
        try:
            now = snapshot(c)
        except Exception as ex:  # noqa: BLE001
            raise Fail("unchanged", f"operand {json.dumps(e, ensure_ascii=False)} cannot be observed {when}: {ex!r}", at) from None
        if now != snap:
            what = "size" if now[:2] != snap[:2] else ("coords" if now[3] != snap[3] else "content")
            raise Fail("unchanged", f"operand {json.dumps(e, ensure_ascii=False)} changed ({what}) {when}", at, {"before": show_rows(snap[2]), "after": show_rows(now[2]), "coords_before": repr(snap[3]), "coords_after": repr(now[3])})


def ev(expr, ctx, flags):
    """-> (real, model, node record)."""
    if expr[0] == "leaf":
        real, model = ctx.get_leaf(expr[1])
        for rec in ctx.nodes:
            if rec[1] is real:
                return real, model, rec
        snap = compare(real, model, None, expr, ctx, flags)
        rec = (expr, real, snap)
        ctx.nodes.append(rec)
        return real, model, rec
    kids = [ev(k, ctx, flags) for k in kids_of(expr)]
    try:
        real = _real_op(expr, [k[0] for k in kids])
    except Exception as e:  # noqa: BLE001
        raise Fail("content", f"raised {e!r}", expr) from None
    model, adm = _model_op(expr, [k[1] for k in kids])
    snap = compare(real, model, adm, expr, ctx, flags)
    check_unchanged(ctx, [k[2] for k in kids], expr, "after the operation")
    rec = (expr, real, snap)
    ctx.nodes.append(rec)
    return real, model, rec


TREE_CHECKS = ("content", "size", "coords", "unchanged", "shards")


def run_tree(expr, specs=None):
    """Evaluate one tree. -> dict(ok per check, fail info, flags)."""
    ctx = Ctx(specs)
    flags = {}
    out = {"fail": None, "cuts": 0, "has_coords": False, "size": None}
    try:
        real, model, _rec = ev(expr, ctx, flags)
        check_unchanged(ctx, ctx.nodes, expr, "at the end of the whole expression")
        out["cuts"] = model.cuts
        out["has_coords"] = bool(model.coords)
        out["size"] = (model.cols, model.nrows)
    except Fail as f:
        out["fail"] = {"check": f.check, "why": f.why, "at": f.at, **f.extra}
    out["leaves"] = sorted(ctx.used)
    return out


# ------------------------------------------------------------------------------------ enumeration
def unary_ops(cols, rows, pad=2, with_attr=True, with_wrap=True):
    if with_wrap:
        yield ["wrap"]
    for top in range(rows):
        for count in [None, *range(1, rows - top + 2)]:
            if top == 0 and count is None:
                continue  # identical to wrap
            yield ["trim", top, count]
    for n in range(1, rows):
        yield ["trim_end", n]
    for left in range(-(cols - 1), pad + 1):
        for right in range(-(cols - 1), pad + 1):
            if cols + min(left, 0) + min(right, 0) >= 1 and (left or right):
                yield ["plr", left, right]
    for top in range(-(rows - 1), pad + 1):
        for bottom in range(-(rows - 1), pad + 1):
            if rows + min(top, 0) + min(bottom, 0) >= 1 and (top or bottom):
                yield ["ptb", top, bottom]
    if with_attr:
        for m in MAPPINGS:
            yield ["attr", m]


def mk_unary(op, e):
    return [op[0], e, *op[1:]]


def size_of(e, memo):
    k = json.dumps(e, ensure_ascii=False)
    if k not in memo:
        g = model_eval(e)
        memo[k] = (g.cols, g.nrows)
    return memo[k]


def binary_ops(a, b, memo, join_deltas=(-1, 0, 1)):
    """All defined binary combinations of (a, b) in this order."""
    (ac, ar), (bc, br) = size_of(a, memo), size_of(b, memo)
    if ac == bc:
        yield ["combine", [a, b], 0]
    for da in join_deltas:
        for db in join_deltas:
            if ac + da >= 1 and bc + db >= 1:
                yield ["join", [[a, ac + da], [b, bc + db]], 1]
    # a on top of b
    for left in range(bc - ac + 1):
        for top in range(br - ar + 1):
            yield ["overlay", a, b, left, top]


def depth1(leaf_ids, memo):
    out = []
    for lid in leaf_ids:
        e = ["leaf", lid]
        c, r = size_of(e, memo)
        out.extend(mk_unary(op, e) for op in unary_ops(c, r))
    for a in leaf_ids:
        for b in leaf_ids:
            out.extend(binary_ops(["leaf", a], ["leaf", b], memo))
    # three operands
    for a in leaf_ids:
        for b in leaf_ids:
            ea, eb = ["leaf", a], ["leaf", b]
            if size_of(ea, memo)[0] == size_of(eb, memo)[0]:
                out.append(["combine", [ea, eb, ea], 2])
            out.append(["join", [[ea, size_of(ea, memo)[0]], [eb, size_of(eb, memo)[0] + 1], [ea, max(1, size_of(ea, memo)[0] - 1)]], 0])
    return out


def rand_tree(r, depth, leaf_ids, memo, p_leaf=0.12):
    if depth == 0 or r.random() < p_leaf:
        return ["leaf", r.choice(leaf_ids)]
    kind = r.choice(["unary", "unary", "unary", "combine", "join", "overlay", "overlay"])
    if kind == "unary":
        e = rand_tree(r, depth - 1, leaf_ids, memo)
        c, rws = size_of(e, memo)
        fam = r.choice(["trim", "trim", "trim_end", "plr", "plr", "plr", "ptb", "ptb", "attr", "wrap"])
        ops = [op for op in unary_ops(c, rws) if op[0] == fam]
        if not ops:
            ops = [["wrap"]]
        return mk_unary(r.choice(ops), e)
    if kind == "combine":
        first = rand_tree(r, depth - 1, leaf_ids, memo)
        c = size_of(first, memo)[0]
        kids = [first]
        for _ in range(r.choice([1, 1, 2])):
            for _try in range(10):
                e = rand_tree(r, depth - 1, leaf_ids, memo)
                if size_of(e, memo)[0] == c:
                    break
            else:
                e = first
            kids.append(e)
        r.shuffle(kids)
        return ["combine", kids, r.randrange(len(kids))]
    if kind == "join":
        items = []
        for _ in range(r.choice([2, 2, 3])):
            e = rand_tree(r, depth - 1, leaf_ids, memo)
            c = size_of(e, memo)[0]
            items.append([e, max(1, c + r.choice([-2, -1, 0, 0, 1, 2]))])
        return ["join", items, r.randrange(len(items))]
    bottom = rand_tree(r, depth - 1, leaf_ids, memo)
    bc, br = size_of(bottom, memo)
    for _try in range(10):
        top = rand_tree(r, depth - 1, leaf_ids, memo)
        tc, tr = size_of(top, memo)
        if tc <= bc and tr <= br:
            break
    else:
        top = ["leaf", "a1"]
        tc, tr = 1, 1
    return ["overlay", top, bottom, r.randint(0, bc - tc), r.randint(0, br - tr)]


def depth_of(e):
    return 0 if e[0] == "leaf" else 1 + max(depth_of(k) for k in kids_of(e))


# ----------------------------------------------------------------------------------------- delta
def cols_layout(chars):
    """[(col_start, width, ch, a, cs)]; zero-width characters take the column of their base."""
    out, x, last = [], 0, 0
    for ch, a, s in chars:
        w = G.char_width(ch)
        if w == 0:
            out.append((last, 0, ch, a, s))
        else:
            out.append((x, w, ch, a, s))
            last = x
            x += w
    return out


def apply_delta(old_rows, delta_rows, cols):
    """Apply a content_delta result to the previously drawn rows. -> (rows, skipped_cols, drawn_cols).
    A delta row is a list whose items are (attr, cs, bytes) runs, drawn at the current column, or an
    int n: the next n columns are as previously drawn. (A bare int row, which TextCanvas/SolidCanvas
    .content_delta(self) produce, is read as [n]: the statement does not fix the row container.)"""
    out = []
    skipped = drawn = 0
    for y, drow in enumerate(delta_rows):
        if isinstance(drow, int):
            drow = [drow]
        if y >= len(old_rows) and any(isinstance(i, int) for i in drow):
            raise Malformed(f"delta row {y} refers to a previously drawn row that does not exist")
        x = 0
        chars = []
        lay = cols_layout(old_rows[y]) if y < len(old_rows) else []
        for item in drow:
            if isinstance(item, int):
                if item <= 0:
                    raise Malformed(f"delta row {y}: unchanged run of {item} columns")
                for cs_, w, ch, a, s in lay:
                    if cs_ < x < cs_ + w or (cs_ < x + item < cs_ + w):
                        raise Malformed(f"delta row {y}: unchanged columns [{x},{x + item}) split the wide character at column {cs_} of the old row")
                    if x <= cs_ < x + item:
                        chars.append((ch, a, s))
                x += item
                skipped += item
            else:
                run = observe_rows([[item]])[0]
                chars.extend(run)
                wdt = G.row_width(run)
                x += wdt
                drawn += wdt
        if x != cols:
            raise Malformed(f"delta row {y} covers {x} columns of {cols}")
        out.append(chars)
    return out, skipped, drawn


def run_delta(old_expr, new_expr, specs=None, same_object=False):
    """-> dict(fail, skipped, drawn). old and new are built over the same leaf objects."""
    ctx = Ctx(specs)
    out = {"fail": None, "skipped": 0, "drawn": 0}
    try:
        old_real, old_model, _ = ev(old_expr, ctx, {})
        if same_object:
            new_real, new_model = old_real, old_model
        else:
            new_real, new_model, _ = ev(new_expr, ctx, {})
    except Fail as f:
        out["fail"] = {"check": "setup:" + f.check, "why": "building the pair failed: " + f.why, "at": f.at}
        return out
    if (old_model.cols, old_model.nrows) != (new_model.cols, new_model.nrows):
        raise ValueError("delta pair of different sizes")
    old_rows = G.grid_chars(old_model)
    try:
        delta = list(new_real.content_delta(old_real))
        got, out["skipped"], out["drawn"] = apply_delta(old_rows, delta, new_model.cols)
    except Malformed as e:
        out["fail"] = {"check": "delta", "why": str(e)}
        return out
    except Exception as e:  # noqa: BLE001
        out["fail"] = {"check": "delta", "why": f"content_delta raised {e!r}"}
        return out
    exp = G.grid_chars(new_model)
    d = first_diff(exp, got)
    if d:
        out["fail"] = {"check": "delta", "why": "old rows + delta differ from the new content: " + d, "expected": show_rows(exp), "actual": show_rows(got), "delta": repr(delta)}
        return out
    try:
        check_unchanged(ctx, ctx.nodes, new_expr, "after content_delta")
    except Fail as f:
        out["fail"] = {"check": "delta", "why": f.why}
    return out


def leaves_in(e):
    if e[0] == "leaf":
        return [e[1]]
    return [x for k in kids_of(e) for x in leaves_in(k)]


def replace_leaf(e, old, new):
    return json.loads(json.dumps(e, ensure_ascii=False).replace(json.dumps(["leaf", old]), json.dumps(["leaf", new])))


def delta_pairs(trees, memo, r, n_random):
    """(old, new, same_object) pairs of equal size sharing leaf objects."""
    by_size = {}
    for e in trees:
        by_size.setdefault(size_of(e, memo), []).append(e)
    leaf_by_size = {}
    for lid in NO_ORPHAN:
        leaf_by_size.setdefault(size_of(["leaf", lid], memo), []).append(lid)
    pairs = []
    for e in trees:
        pairs.append((e, e, True))  # against itself (same object)
        pairs.append((e, e, False))  # rebuilt: new composites over the same leaves
        seen = set()
        for lid in leaves_in(e):
            if lid in seen:
                continue
            seen.add(lid)
            for other in leaf_by_size.get(size_of(["leaf", lid], memo), []):
                if other != lid:
                    pairs.append((e, replace_leaf(e, lid, other), False))
                    pairs.append((replace_leaf(e, lid, other), e, False))
    for _ in range(n_random):
        sz = r.choice(sorted(by_size))
        pairs.append((r.choice(by_size[sz]), r.choice(by_size[sz]), False))
    return pairs


# --------------------------------------------------------------------------------------- protocol
def protocol_cases(base_exprs, memo):
    """(base expr, op) with op parameters over the whole precondition of the assumed contracts in
    contracts/proto_widget.py (including results of zero rows / zero columns: `degenerate`)."""
    for e in base_exprs:
        c, r = size_of(e, memo)
        yield e, ["wrap"]
        for top in range(r):
            for count in [None, *range(0, r + 2)]:
                yield e, ["trim", top, count]
        for n in range(1, r + 1):
            yield e, ["trim_end", n]
        for left in range(-c, 3):
            for right in range(-c, 3):
                if c + min(left, 0) + min(right, 0) >= 0:
                    yield e, ["plr", left, right]
        for top in range(-r, 3):
            for bottom in range(-r, 3):
                if (top < 0 or bottom < 0) and not (max(0, -top) < r and r + min(top, 0) + min(bottom, 0) >= 0):
                    continue
                yield e, ["ptb", top, bottom]
        yield e, ["attr", MAPPINGS[0]]


def shift(cur, dx, dy):
    return None if cur is None else (cur[0] + dx, cur[1] + dy)


def run_protocol_unary(e, op, specs=None):
    """Facts: size change by the documented amounts, cursor and pop-up translated by (left, top).
    -> (ok, why, degenerate, info)"""
    ctx = Ctx(specs)
    base, _m, _ = ev(e, ctx, {})
    c, r, cur, pop = base.cols(), base.rows(), base.get_cursor(), base.get_pop_up()
    cc = UC.CompositeCanvas(base)
    info = {"base_size": [c, r], "base_cursor": cur}
    if (cc.cols(), cc.rows(), cc.get_cursor(), cc.get_pop_up()) != (c, r, cur, pop):
        return False, "CompositeCanvas(c) does not keep cols/rows/cursor/pop-up", False, info
    k = op[0]
    dx = dy = 0
    ec, er = c, r
    if k == "trim":
        er = r - op[1] if op[2] is None else min(op[2], r - op[1])
        dy = -op[1]
    elif k == "trim_end":
        er = r - op[1]
    elif k == "plr":
        ec = c + op[1] + op[2]
        dx = op[1]
    elif k == "ptb":
        er = r + op[1] + op[2]
        dy = op[1]
    # a call that trims everything away before padding also counts as degenerate
    degenerate = ec == 0 or er == 0 or (k == "plr" and c + min(op[1], 0) + min(op[2], 0) == 0) or (k == "ptb" and r + min(op[1], 0) + min(op[2], 0) == 0)
    try:
        if k == "trim":
            cc.trim(op[1], op[2])
        elif k == "trim_end":
            cc.trim_end(op[1])
        elif k == "plr":
            cc.pad_trim_left_right(op[1], op[2])
        elif k == "ptb":
            cc.pad_trim_top_bottom(op[1], op[2])
        elif k == "attr":
            cc.fill_attr_apply({a: b for a, b in op[1]})
    except Exception as ex:  # noqa: BLE001
        return False, f"raised {ex!r} inside the assumed precondition", degenerate, info
    got = (cc.cols(), cc.rows(), cc.get_cursor(), (cc.get_pop_up() or (None, None))[:2])
    want = (ec, er, shift(cur, dx, dy), (shift(pop[:2], dx, dy) if pop else (None, None)))
    info.update(got=repr(got), want=repr(want))
    if got != want:
        names = ["cols", "rows", "cursor", "pop-up"]
        bad = [n for n, g_, w_ in zip(names, got, want) if g_ != w_]
        return False, f"{', '.join(bad)} after {op}: (cols, rows, cursor, pop-up) = {got}, documented {want}", degenerate, info
    if (base.cols(), base.rows(), base.get_cursor()) != (c, r, cur):
        return False, "wrapped canvas changed", degenerate, info
    return True, "", degenerate, info


def run_protocol_nary(expr, specs=None):
    """CanvasCombine / CanvasJoin / CanvasOverlay: size and cursor facts, computed from the operands'
    reported sizes and cursors only (no grid)."""
    ctx = Ctx(specs)
    kids = [ev(k, ctx, {})[0] for k in kids_of(expr)]
    sizes = [(k.cols(), k.rows()) for k in kids]
    curs = [k.get_cursor() for k in kids]
    try:
        res = _real_op(expr, kids)
    except Exception as ex:  # noqa: BLE001
        return False, f"raised {ex!r}", {}
    got = (res.cols(), res.rows(), res.get_cursor())
    op = expr[0]
    if op == "combine":
        offs, y = [], 0
        for _c, r in sizes:
            offs.append((0, y))
            y += r
        size = (sizes[0][0], y)
        cand = [shift(cu, *o) for cu, o in zip(curs, offs) if cu is not None]
    elif op == "join":
        offs, x = [], 0
        for it in expr[1]:
            offs.append((x, 0))
            x += it[1]
        size = (x, max(r for _c, r in sizes))
        cand = [shift(cu, *o) for cu, o in zip(curs, offs) if cu is not None]
    else:
        size = sizes[1]
        cand = [shift(curs[0], expr[3], expr[4])] if curs[0] is not None else ([curs[1]] if curs[1] is not None else [])
    info = {"operand_sizes": sizes, "operand_cursors": curs, "got": repr(got), "documented_size": size, "admissible_cursors": cand}
    if got[:2] != size:
        return False, f"size {got[:2]}, documented {size}", info
    if (got[2] is None) != (not cand) or (cand and got[2] not in cand):
        return False, f"cursor {got[2]}, admissible {cand or None}", info
    return True, "", info


def run_finalized(lid, specs=None):
    """A finalized composite refuses every mutator with CanvasError and stays as it was."""
    ctx = Ctx(specs)
    base, _m, _ = ev(["leaf", lid], ctx, {})
    cc = UC.CompositeCanvas(base)
    cc.finalize(POPW, (cc.cols(),), False)
    snap = snapshot(cc)
    other = UC.CompositeCanvas(UC.SolidCanvas("o", 1, 1))
    muts = {
        "trim": lambda: cc.trim(0, 1),
        "trim_end": lambda: cc.trim_end(1),
        "pad_trim_left_right": lambda: cc.pad_trim_left_right(1, 1),
        "pad_trim_top_bottom": lambda: cc.pad_trim_top_bottom(1, 1),
        "overlay": lambda: cc.overlay(other, 0, 0),
        "fill_attr": lambda: cc.fill_attr("Z"),
        "fill_attr_apply": lambda: cc.fill_attr_apply({None: "Z"}),
        "set_cursor": lambda: setattr(cc, "cursor", (0, 0)),
        "set_pop_up": lambda: cc.set_pop_up(POPW, 0, 0, 1, 1),
        "set_depends": lambda: cc.set_depends([]),
        "finalize": lambda: cc.finalize(POPW, (1,), False),
    }
    for name, f in muts.items():
        try:
            f()
        except UC.CanvasError:
            pass
        except Exception as ex:  # noqa: BLE001
            return False, f"{name} on a finalized canvas raised {ex!r} instead of CanvasError"
        else:
            return False, f"{name} on a finalized canvas did not raise"
        if snapshot(cc) != snap:
            return False, f"{name} changed the finalized canvas before raising"
    return True, ""


# --------------------------------------------------------------------------------------------- run
def _spec_subset(ids):
    return {k: LEAVES[k] for k in ids}


def _tree_worker(exprs):
    with utf8_mode():
        return [run_tree(e) for e in exprs]


def _delta_worker(pairs):
    with utf8_mode():
        return [run_delta(o, n, None, same) for o, n, same in pairs]


def _pmap(fn, items, procs):
    if procs <= 1 or len(items) < 2000:
        return fn(items)
    import multiprocessing as mp

    n = procs * 8
    chunks = [items[i::n] for i in range(n)]
    with mp.get_context("fork").Pool(procs) as pool:
        res = pool.map(fn, chunks)
    out = [None] * len(items)
    for i, ch in enumerate(res):
        out[i::n] = ch
    return out


def key_of(e):
    return json.dumps(e, ensure_ascii=False, separators=(",", ":"))


def run(tier="quick", seed=0):
    t0 = time.time()
    quick = tier == "quick"
    procs = 8 if quick else 16
    r = rng(seed)
    memo = {}
    with utf8_mode():
        _check_alphabet()
        leaf_ids = QUICK_LEAVES if quick else ALL_LEAVES
        maxdepth = 2 if quick else 3
        # ---- trees
        d0 = [["leaf", k] for k in leaf_ids]
        d1 = depth1(leaf_ids, memo)
        # depth 2, exhaustive part: every unary operation (full parameter range) over every depth-1 tree
        # of the core leaves, and every binary operation over (depth-1 sample, leaf) in both orders
        core = ["wa", "zw", "orph", "dec"] if quick else ["wa", "zw", "orph", "dec", "big", "rag", "w", "sx"]
        d1core = depth1(core, memo)
        d2 = []
        stride = 3 if quick else 1
        for i, e in enumerate(d1core):
            c, rr = size_of(e, memo)
            ops = list(unary_ops(c, rr, pad=1, with_attr=True, with_wrap=False))
            d2.extend(mk_unary(op, e) for op in ops[i % stride :: stride])
        pick = d1core[:: (9 if quick else 2)]
        for e in pick:
            for lid in core[: (3 if quick else 6)]:
                d2.extend(binary_ops(e, ["leaf", lid], memo, join_deltas=(-1, 1)))
                d2.extend(binary_ops(["leaf", lid], e, memo, join_deltas=(-1, 1)))
        exhaustive = d0 + d1 + d2
        n_rand = 6000 if quick else 400000
        rnd, seen = [], {key_of(e) for e in exhaustive}
        tries = 0
        while len(rnd) < n_rand and tries < n_rand * 3:
            tries += 1
            e = rand_tree(r, maxdepth, leaf_ids, memo)
            k = key_of(e)
            if k in seen or e[0] == "leaf":
                continue
            c, rr = size_of(e, memo)
            if c * rr > 400:
                continue
            seen.add(k)
            rnd.append(e)

    bound_ex = f"leaves {leaf_ids} (<= 4x3, UTF-8: wide, zero-width, orphan zero-width, DEC charset runs, 2-run attrs, solid, blank); all trees of depth <= 1 (pads <= 2, every trim, every overlay offset, join widths cols-1..cols+1, 5 attribute maps); depth 2: unary-over-depth-1 (1/{stride} of parameters) and binary (depth-1, leaf) over core leaves {core}"
    bound_rnd = f"{len(rnd)} seeded random trees of depth <= {maxdepth} over the same leaves and operations (combine of 2-3, join of 2-3 with widths cols-2..cols+2)"
    checks = {
        "content": Check(f"{ID}/content-cells", "content() of every node of every tree, decoded to (character, attr, cs) per row, equals the grid model's rows; each row is cols() wide", False, bound_ex + "; plus " + bound_rnd),
        "size": Check(f"{ID}/size", "cols()/rows() of every node equal the grid's width/height", False, bound_ex + "; plus " + bound_rnd),
        "coords": Check(f"{ID}/coords", "cursor and pop-up coordinates (coords, get_cursor, get_pop_up, translate_coords) equal the grid's translated coordinates at every node; combine/join: one of the operands' translated coordinates; distinct = trees carrying a coordinate at the root", False, bound_ex + "; plus " + bound_rnd),
        "unchanged": Check(f"{ID}/operands-unchanged", "after every operation its operands, and at the end all leaves and intermediate canvases, report the same size, content and coords as when created (leaves are shared objects within a tree)", False, bound_ex + "; plus " + bound_rnd),
        "widecut": Check(f"{ID}/wide-cut-space", "trees in which the grid model cuts at least one double-width character: the canvas emits only whole characters, a space (attribute of the cut character, default charset) where the grid has one, and every row is exactly cols() wide; distinct = trees with >= 1 cut", False, bound_ex + "; plus " + bound_rnd),
        "shards": Check(f"{ID}/shards-wellformed", "after every operation the composite's cviews tile rows x cols exactly once, reach the end of their shard and stay inside their source canvas", False, bound_ex + "; plus " + bound_rnd),
    }
    all_trees = exhaustive + rnd
    results = _pmap(_tree_worker, all_trees, procs)
    for e, res in zip(all_trees, results):
        k = key_of(e)
        f = res["fail"]
        sample = {"expr": e, "size": res["size"], "cuts": res["cuts"]}
        detail = None
        if f:
            detail = {"expr": e, "leaves": _spec_subset(res["leaves"]), "encoding": "utf-8", **f, "at": f["at"]}
        for name in ("content", "size", "coords", "unchanged", "shards"):
            bad = bool(f) and f["check"] == name
            nontriv = True
            if name == "coords":
                nontriv = res["has_coords"] or bad
            if name == "shards":
                nontriv = e[0] != "leaf"
            if name == "unchanged":
                nontriv = e[0] != "leaf"
            checks[name].case(k, not bad, detail if bad else None, nontrivial=nontriv, sample=sample)
        cut_rel = res["cuts"] > 0 or bool(f and f.get("half_character"))
        if cut_rel or (f and f["check"] == "content"):
            bad = bool(f) and f["check"] == "content" and (res["cuts"] > 0 or f.get("half_character") or "' '" in f["why"])
            if cut_rel or bad:
                checks["widecut"].case(k, not bad, detail if bad else None, nontrivial=True, sample=sample)

    with utf8_mode():
        # ---- content_delta
        delta_ids = [k for k in leaf_ids if k != "orph"]
        dmemo = {}
        base = [e for e in (d0 + d1 + d2[:: (7 if quick else 3)]) if "orph" not in leaves_in(e)]
        base = base[:: (2 if quick else 1)]
        pairs = delta_pairs(base, memo, r, 2000 if quick else 60000)
        del dmemo, delta_ids
    dchk = Check(f"{ID}/content-delta", "new.content_delta(old) applied to old's rows (int n = keep n columns as drawn, runs = draw) reproduces new's content; old/new have equal size and are built over the same leaf objects: same object, rebuilt tree, one leaf replaced by another of the same size (both directions), random same-size pairs; nontrivial = delta that both skips and draws", False, f"{len(pairs)} pairs from trees of depth <= 2 over leaves without orphan zero-width characters")
    dres = _pmap(_delta_worker, pairs, procs)
    for (o, n, same), res in zip(pairs, dres):
        k = (key_of(o), key_of(n), same)
        f = res["fail"]
        detail = None
        if f:
            detail = {"old": o, "new": n, "same_object": same, "leaves": _spec_subset(sorted(set(leaves_in(o) + leaves_in(n)))), "encoding": "utf-8", **f}
        dchk.case(k, not f, detail, nontrivial=bool(f) or (res["skipped"] > 0 and res["drawn"] > 0), sample={"old": o, "new": n, "skipped_cols": res["skipped"], "drawn_cols": res["drawn"]})

    # ---- canvas protocol (owned facts)
    pchk = Check(f"{ID}/canvas-protocol", "size/cursor effects assumed by contracts/proto_widget.py: CompositeCanvas(c) keeps cols/rows/cursor; trim(top,count): rows = rows-top or min(count, rows-top), cursor y-top; trim_end(n): rows-n; pad_trim_left_right(l,r): cols+l+r, cursor x+l; pad_trim_top_bottom(t,b): rows+t+b, cursor y+t; fill_attr_apply: nothing; other dimension unchanged; pop-up moves like the cursor; CanvasOverlay: bottom's size, top's cursor+(left,top) else bottom's; CanvasCombine: (cols, sum rows), a child's cursor + (0, rows above); CanvasJoin: (sum of requested cols, max rows), a child's cursor + (cols to the left, 0). Results with >= 1 row and >= 1 column", True, "every leaf and every depth-1 tree as the operand; every parameter inside the contracts' preconditions with pads <= 2; n-ary: every depth-1 combine/join/overlay over the leaves plus depth-2 ones from the tree scope")
    gchk = Check(f"{ID}/canvas-protocol-degenerate", "the same facts for calls the assumed contracts admit whose result has zero rows or zero columns (trim(top, 0), trim_end(rows), pad_trim_* trimming everything)", True, "same operands; parameters at the edge of the contracts' preconditions")
    fchk = Check(f"{ID}/finalized-guard", "a finalized CompositeCanvas refuses trim, trim_end, pad_trim_*, overlay, fill_attr(_apply), set_cursor, set_pop_up, set_depends, finalize with CanvasError and is unchanged", True, "one composite per leaf")
    with utf8_mode():
        pbase = d0 + (d1[::5] if quick else d1)
        for e, op in protocol_cases(pbase, memo):
            try:
                ok, why, degen, info = run_protocol_unary(e, op)
            except Fail as f:
                ok, why, degen, info = False, "building the operand failed: " + f.why, False, {}
            tgt = gchk if degen else pchk
            tgt.case((key_of(e), key_of(op)), ok, {"base": e, "op": op, "leaves": _spec_subset(sorted(set(leaves_in(e)))), "why": why, **info}, sample={"base": e, "op": op})
        nary = [e for e in (d1 + d2) if e[0] in ("combine", "join", "overlay")]
        if quick:
            nary = nary[::2]
        for e in nary:
            try:
                ok, why, info = run_protocol_nary(e)
            except Fail as f:
                ok, why, info = False, "building the operands failed: " + f.why, {}
            pchk.case(key_of(e), ok, {"expr": e, "leaves": _spec_subset(sorted(set(leaves_in(e)))), "why": why, **info}, sample={"expr": e})
        for lid in leaf_ids:
            ok, why = run_finalized(lid)
            fchk.case(lid, ok, {"leaf": lid, "leaves": _spec_subset([lid]), "why": why}, sample={"leaf": lid})

    out = [c.result() for c in checks.values()] + [dchk.result(), pchk.result(), gchk.result(), fchk.result()]
    wall = round(time.time() - t0, 1)
    return {
        "checks": out,
        "bound": f"UTF-8; {len(leaf_ids)} leaf canvases <= 4x3; {len(exhaustive)} enumerated trees of depth <= 2 + {len(rnd)} seeded random trees of depth <= {maxdepth}; {len(pairs)} delta pairs; wall {wall}s",
    }


# ------------------------------------------------------------------------------------------ replay
def _norm(x):
    """JSON round trip turns tuples into lists and None keys are never used; nothing to do for leaf specs
    beyond accepting lists."""
    return x


def replay(check_name, case):
    specs = dict(LEAVES)
    specs.update(case.get("leaves") or {})
    name = check_name.split("/", 1)[-1]
    with utf8_mode():
        if name == "content-delta":
            res = run_delta(case["old"], case["new"], specs, case.get("same_object", False))
            f = res["fail"]
            return {"outcome": "confirmed" if f else "not-reproduced", "detail": f or res}
        if name in ("canvas-protocol", "canvas-protocol-degenerate"):
            if "op" in case:
                try:
                    ok, why, _degen, info = run_protocol_unary(case["base"], case["op"], specs)
                except Fail as f:
                    ok, why, info = False, f.why, {}
            else:
                try:
                    ok, why, info = run_protocol_nary(case["expr"], specs)
                except Fail as f:
                    ok, why, info = False, f.why, {}
            return {"outcome": "not-reproduced" if ok else "confirmed", "detail": {"why": why, **info}}
        if name == "finalized-guard":
            ok, why = run_finalized(case["leaf"], specs)
            return {"outcome": "not-reproduced" if ok else "confirmed", "detail": {"why": why}}
        res = run_tree(case["expr"], specs)
        f = res["fail"]
        want = {"content-cells": "content", "wide-cut-space": "content", "size": "size", "coords": "coords", "operands-unchanged": "unchanged", "shards-wellformed": "shards"}.get(name)
        confirmed = bool(f) and (want is None or f["check"] == want)
        return {"outcome": "confirmed" if confirmed else "not-reproduced", "detail": f or {"size": res["size"], "cuts": res["cuts"]}}
