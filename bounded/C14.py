"""C14 bounded stand-in: the real urwid signal machinery (urwid.connect_signal / disconnect_signal /
disconnect_signal_by_key / emit_signal, MetaSignals, register_signal) driven through small,
exhaustively enumerated histories; every observation is judged by the independent reference model
spec/signals_model.py (an acceptor written from the statement; it never looks at `_urwid_signals`).

A *scenario* is a JSON-able dict {"senders": {skey: kind}, "cyclic": bool, "ops": [op, ...]}; handlers'
behaviours are themselves lists of ops executed when the handler is called, so one interpreter
(`run_scenario`) serves every check and `replay`.

ops:  ["c", hid, skey, name, {"wids":[..], "uargs":[..], "uarg":x, "beh":[ops], "ret":r}]   connect
      ... {"dying": [[wid, via, at], ...]} in the connect options: weak argument wid (of OTHER handlers) loses its last
          strong reference (+ gc.collect()) WHILE this connect_signal() call is consuming its `weak_args` (via "w") or
          `user_args` (via "u") iterable, just before item `at` of that iterable is produced (at == length: at its end)
      ["cnew", skey, name]            connect a fresh plain handler (hid N<k>)
      ["da", hid, {overrides}]        disconnect by the arguments given at connect time (overridable)
      ["dk", hid|"foreign", skey?, name?]   disconnect by the key of hid's latest connection
      ["e", skey, name, [args]]       emit ("@s0" in args = the sender object s0)
      ["erec", skey, name, [args]]    emit only if fewer than 2 emits are in progress (recursion bound)
      ["k", wid]                      drop the last strong reference to weak argument wid + gc.collect()
      ["k1", wid]                     the same, but only in the handler's first call made by an outermost emit
      ["drop", skey]                  drop the last strong reference to the sender + gc.collect()

Two further families have their own small interpreters: class-definition histories for the MetaSignals metaclass
(`run_metaclass_program`: which names each class accepts afterwards) and the connections the library makes and drops
itself (`run_setter_history`: `ListBox.body = ...`; `run_mainloop_history`: MainLoop.start()/stop(); `run_ctor_wiring`: the
callback + user_data parameters of the Button / CheckBox / RadioButton constructors).
"""
from __future__ import annotations

import gc
import itertools
import sys
import time
import warnings
import weakref

import urwid
from urwid import signals as usig

from bounded.common import Check, rng
from spec.signals_model import Ambiguous, check_trace

# ----------------------------------------------------------------------------------------------
# real objects


class W:
    """a weakly referenceable argument; `cyclic` makes it garbage only a gc.collect() can free"""

    def __init__(self, wid, cyclic):
        self.wid = wid
        self.me = self if cyclic else None


_CLASSES = {}
_REGISTERED = {}


def _setup_classes():
    """Create and register the sender classes (global registry of urwid.signals; undone by _teardown)."""
    if _CLASSES:
        return

    class S:  # registered with register_signal
        pass

    class SF:  # a sender that is falsy (like an empty SimpleFocusListWalker)
        def __len__(self):
            return 0

    class SM(metaclass=urwid.MetaSignals):
        signals = ["a", "b"]  # noqa: RUF012

    class SM2(SM):  # inherits a, b through the metaclass
        signals = ["c"]  # noqa: RUF012

    class U:  # never registered
        pass

    class Sub(S):  # subclass of a class registered by hand: itself not registered
        pass

    urwid.register_signal(S, ["a", "b"])
    urwid.register_signal(SF, ["a", "b"])
    _CLASSES.update(S=S, SF=SF, SM=SM, SM2=SM2, U=U, Sub=Sub)
    _REGISTERED.update(S=["a", "b"], SF=["a", "b"], SM=["a", "b"], SM2=["c", "a", "b"], U=[], Sub=[])


def _teardown_classes():
    for cls in _CLASSES.values():
        usig._signals._supported.pop(cls, None)  # only to restore the global registry
    _CLASSES.clear()
    _REGISTERED.clear()


_UNRAISABLE = []


def _hook(u):
    _UNRAISABLE.append(f"{u.err_msg or 'Exception ignored in'} {u.object!r}: {u.exc_value!r}")


class Stop(Exception):
    pass


class Handler:
    def __init__(self, world, hid, beh, ret):
        self.world, self.hid, self.beh, self.ret = world, hid, beh or [], ret
        self.ncalls = 0

    def call(self, *args):
        w = self.world
        toks = [w.tok(a) for a in args]
        w.trace.append(["call", self.hid, toks])
        self.ncalls += 1
        w.active.append(toks)
        nested = None
        try:
            for op in self.beh:
                r = w.exec_op(op, self)
                if op[0] in ("e", "erec") and r is not None:
                    nested = r
        finally:
            w.active.pop()
        ret = nested if self.ret == "nested" else self.ret
        w.trace.append(["return", self.hid, bool(ret)])
        return ret


class World:
    def __init__(self, senders, cyclic=False):
        self.trace = []
        self.problems = []
        self.cyclic = cyclic
        self.senders = {k: _CLASSES[kind]() for k, kind in senders.items()}
        self.registered = {k: _REGISTERED[kind] for k, kind in senders.items()}
        self.weak = {}
        self.weak_refs = {}
        self.gen = {}
        self.keys = {}
        self.info = {}
        self.handlers = {}
        self.ncid = self.neid = self.nnew = self.depth = 0
        self.active = []

    # -- identity <-> token
    def tok(self, x):
        if isinstance(x, (list, tuple)):
            return [self.tok(y) for y in x]
        if x is None or isinstance(x, (str, int, bool)):
            return x
        for k, s in self.senders.items():
            if s is x:
                return ["S", k]
        for k, o in self.weak.items():
            if o is x:
                return ["W", k]
        return ["?", repr(x)]

    def untok(self, a):
        return self.senders[a[1:]] if isinstance(a, str) and a.startswith("@") else a

    def weak_obj(self, base):
        """current live object for the weak-argument name `base` (a fresh generation after a death)"""
        wid = self.gen.get(base, base)
        if wid not in self.weak:
            if wid in self.weak_refs:  # died: next generation
                wid = wid + "'"
                while wid in self.weak_refs:
                    wid += "'"
                self.gen[base] = wid
            self.weak[wid] = W(wid, self.cyclic)
            self.weak_refs[wid] = weakref.ref(self.weak[wid])
        return wid

    # -- requests
    def _dying_iterable(self, items, deaths):
        """An iterable over `items` during whose iteration (by connect_signal itself) the weak arguments named in
        `deaths` = [(base, at)] die.  It holds no reference to them (only their names)."""
        for i in range(len(items) + 1):
            for base, at in deaths:
                if at == i or (i == len(items) and at > i):
                    self.kill(base)
            if i < len(items):
                yield items[i]

    def connect(self, hid, skey, name, wids=(), uargs=(), uarg=None, beh=None, ret=None, dying=()):
        h = self.handlers.get(hid)
        if h is None:
            h = self.handlers[hid] = Handler(self, hid, beh, ret)
        wids = [self.weak_obj(b) for b in wids]
        real_uargs = [self.untok(a) for a in uargs]
        kw = {}
        if wids:
            kw["weak_args"] = [self.weak[x] for x in wids]
        if uargs:
            kw["user_args"] = tuple(real_uargs) if len(uargs) % 2 else list(real_uargs)
        # deaths of OTHER handlers' weak arguments in the middle of this connect (the API takes any iterable)
        dw = [(b, at) for b, via, at in dying if via == "w" and self.gen.get(b, b) not in wids]
        du = [(b, at) for b, via, at in dying if via == "u" and self.gen.get(b, b) not in wids]
        if dw:
            kw["weak_args"] = self._dying_iterable(kw.get("weak_args", []), dw)
        if du:
            kw["user_args"] = self._dying_iterable(list(kw.get("user_args", [])), du)
        key = None
        try:
            if uarg is not None:
                key = urwid.connect_signal(self.senders[skey], name, h.call, uarg, **kw)
            else:
                key = urwid.connect_signal(self.senders[skey], name, h.call, **kw)
            outcome = "ok"
        except NameError:
            outcome = "NameError"
        except Exception as e:  # noqa: BLE001
            outcome = f"raised {e!r}"
        kw.clear()
        cid = None
        if outcome == "ok":
            cid = self.ncid
            self.ncid += 1
            self.keys[cid] = key
            self.info[hid] = {"cid": cid, "skey": skey, "name": name, "wids": wids, "uargs": list(uargs), "uarg": uarg}
        self.trace.append(["connect", cid, hid, skey, name, wids, self.tok(real_uargs), uarg, outcome])
        return cid

    def connect_new(self, skey, name):
        self.nnew += 1
        return self.connect(f"N{self.nnew}", skey, name, uargs=["new", self.nnew])

    def disconnect_args(self, hid, over=None):
        inf = dict(self.info.get(hid) or {"skey": "s0", "name": "a", "wids": [], "uargs": [], "uarg": None})
        inf.update(over or {})
        h = self.handlers.get(hid) or self.handlers.setdefault(hid, Handler(self, hid, None, None))
        tmp = {}
        wids = []
        for x in inf["wids"]:
            if x not in self.weak:  # dead (or never existed): an object that is connected nowhere
                x = f"dummy{len(tmp)}"
                tmp[x] = W(x, False)
            wids.append(x)
        real_uargs = [self.untok(a) for a in inf["uargs"]]
        kw = {}
        if wids:
            kw["weak_args"] = [self.weak.get(x) or tmp[x] for x in wids]
        if real_uargs:
            kw["user_args"] = list(real_uargs)
        if inf["skey"] not in self.senders:
            return
        try:
            # a *fresh* bound method object every time: "the same arguments" means equal, not identical
            if inf["uarg"] is not None:
                urwid.disconnect_signal(self.senders[inf["skey"]], inf["name"], h.call, inf["uarg"], **kw)
            else:
                urwid.disconnect_signal(self.senders[inf["skey"]], inf["name"], h.call, **kw)
            outcome = "ok"
        except Exception as e:  # noqa: BLE001
            outcome = f"raised {e!r}"
        kw.clear()
        self.trace.append(["disconnect_args", hid, inf["skey"], inf["name"], wids, self.tok(real_uargs), inf["uarg"], outcome])

    def disconnect_key(self, hid, skey=None, name=None):
        inf = self.info.get(hid)
        cid = inf["cid"] if inf else None
        key = self.keys[cid] if inf else usig.Key()
        skey = skey or (inf["skey"] if inf else "s0")
        name = name or (inf["name"] if inf else "a")
        if skey not in self.senders:
            return
        try:
            urwid.disconnect_signal_by_key(self.senders[skey], name, key)
            outcome = "ok"
        except Exception as e:  # noqa: BLE001
            outcome = f"raised {e!r}"
        # the key names one connection on one (sender, name); used elsewhere it names nothing
        hit = inf is not None and (skey, name) == (inf["skey"], inf["name"])
        self.trace.append(["disconnect_key", cid if hit else None, skey, name, outcome])

    def emit(self, skey, name, args=()):
        if skey not in self.senders:
            return None
        real = [self.untok(a) for a in args]
        eid = self.neid
        self.neid += 1
        self.trace.append(["emit_start", eid, skey, name, self.tok(real)])
        self.depth += 1
        try:
            r = urwid.emit_signal(self.senders[skey], name, *real)
        finally:
            self.depth -= 1
        self.trace.append(["emit_end", eid, r if type(r) is bool else ["?", repr(r)]])
        return r

    def kill(self, base):
        wid = self.gen.get(base, base)
        if wid not in self.weak:
            return False
        if any(["W", wid] in t for t in self.active):
            return False  # a running handler was handed this object: it cannot die now
        ref = self.weak_refs[wid]
        del self.weak[wid]
        gc.collect()
        if ref() is not None:
            self.problems.append(f"weak argument {wid} is still alive after its last outside reference was dropped and gc.collect() ran")
            raise Stop
        self.trace.append(["kill", wid])
        return True

    def drop_sender(self, skey):
        if skey not in self.senders:
            return
        ref = weakref.ref(self.senders[skey])
        del self.senders[skey]
        gc.collect()
        if ref() is not None:
            self.problems.append(f"sender {skey} is still alive after its last outside reference was dropped and gc.collect() ran")
            raise Stop

    def exec_op(self, op, me=None):
        t = op[0]
        if t == "c":
            return self.connect(op[1], op[2], op[3], **op[4])
        if t == "cnew":
            return self.connect_new(op[1], op[2])
        if t == "da":
            return self.disconnect_args(op[1], op[2] if len(op) > 2 else None)
        if t == "dk":
            return self.disconnect_key(*op[1:])
        if t == "e":
            return self.emit(op[1], op[2], op[3] if len(op) > 3 else ())
        if t == "erec":
            return self.emit(op[1], op[2], op[3] if len(op) > 3 else ()) if self.depth < 2 else None
        if t == "k":
            return self.kill(op[1])
        if t == "k1":
            return self.kill(op[1]) if me is not None and me.ncalls == 1 and self.depth == 1 else None
        if t == "drop":
            return self.drop_sender(op[1])
        raise ValueError(op)


def run_scenario(sc):
    """-> (violations, emits, trace) ; violations == [] means the statement held on this history.
    Raises Ambiguous when the history is outside the oracle's scope."""
    w = World(sc["senders"], sc.get("cyclic", False))
    del _UNRAISABLE[:]
    exc = None
    try:
        for op in sc["ops"]:
            w.exec_op(op)
    except Stop:
        pass
    except Exception as e:  # noqa: BLE001  an exception escaping the machinery is a failure
        exc = f"raised {type(e).__name__}: {e}"
    viol = list(w.problems)
    if exc:
        viol.append(exc)
    v2, emits = check_trace(w.registered, w.trace, complete=exc is None and not w.problems)
    viol += v2
    # end of history: nothing is kept alive by the machinery
    if not viol and sc.get("final_drop", True):
        # (all senders at once: a sender may legitimately be a *user* argument of another sender's handler)
        refs = {f"weak argument {k}": r for k, r in w.weak_refs.items()}
        refs.update({f"sender {k}": weakref.ref(s) for k, s in w.senders.items()})
        w.weak.clear()
        w.senders.clear()
        gc.collect()
        viol += [f"{k} is still alive at the end of the history after every outside reference was dropped and gc.collect() ran" for k, r in refs.items() if r() is not None]
    if _UNRAISABLE:
        viol += [f"exception swallowed in a weakref callback/destructor: {u}" for u in _UNRAISABLE]
        del _UNRAISABLE[:]
    trace = w.trace
    w.handlers.clear()
    return viol, emits, trace


def _detail(sc, viol, emits, trace):
    return {"why": "; ".join(viol[:3]), "scenario": sc, "emits": emits[:6], "trace_head": trace[:40]}


# ----------------------------------------------------------------------------------------------
# scenario generators

E1 = ["@s0", "e1"]  # like urwid widgets: the sender first
E2 = []
ER = ["r", 7]


def _style(k, i):
    k %= 5
    if k == 0:
        return {}
    if k == 1:
        return {"uargs": ["u", i]}
    if k == 2:
        return {"wids": ["SH"]}
    if k == 3:
        return {"uarg": f"ua{i}"}
    return {"wids": [f"W{i}", "SH"], "uargs": [f"v{i}"], "uarg": 100 + i}


FALSY = (None, 0, "")
TRUTHY = (True, 1, "yes")
KINDS = ("S", "SF", "SM")


def behaviours(n, i):
    out = ["plain", "true", "self", "new", "rec"]
    out += [f"earlier:{j}" for j in range(i)]
    out += [f"later:{j}" for j in range(i + 1, n)]
    return out


def _beh_ops(b, i, v):
    """(ops, ret) of handler H<i> with behaviour b in variant v"""
    fals = FALSY[(i + v) % 3]
    if b == "plain":
        return [], fals
    if b == "true":
        return [], TRUTHY[(i + v) % 3]
    if b == "new":
        return [["cnew", "s0", "a"]], fals
    if b == "rec":
        ops = [["erec", "s0", "a", ER]]
        if v % 2:
            ops.append(["erec", "s0", "b", ER])
        return ops, "nested"
    j = i if b == "self" else int(b.split(":")[1])
    by_key = (i + j + v) % 2 == 0
    ret = TRUTHY[0] if (i + v) % 4 == 3 else fals
    return [["dk", f"H{j}"] if by_key else ["da", f"H{j}"]], ret


def reentrant_scenario(n, behs, v, inj):
    """n handlers H0..H(n-1) on (s0,'a'), bystanders on (s0,'b') and (s1,'a'); two emits, then probes.
    inj: None | ["conn", k, wid] | ["pre"|"post", i, wid] | ["mid", wid] | ["during", k, wid, via, at] (wid dies
    while H<k> is being connected: inside connect_signal, see the "dying" connect option)"""
    ops = [["c", "HB", "s0", "b", {"uargs": ["hb"], "ret": 1}],
           ["c", "HC", "s1", "a", {"wids": ["SH"], "ret": 0} if v % 2 else {"ret": 0}]]
    for i in range(n):
        st = dict(_style(i + v, i))
        bops, ret = _beh_ops(behs[i], i, v)
        if inj and inj[0] == "pre" and inj[1] == i:
            bops = [["k1", inj[2]], *bops]
        if inj and inj[0] == "post" and inj[1] == i:
            bops = [*bops, ["k1", inj[2]]]
        st["beh"], st["ret"] = bops, ret
        if inj and inj[0] == "during" and inj[1] == i:
            st["dying"] = [[inj[2], inj[3], inj[4]]]
        ops.append(["c", f"H{i}", "s0", "a", st])
        if inj and inj[0] == "conn" and inj[1] == i:
            ops.append(["k", inj[2]])
    ops.append(["e", "s0", "a", E1])
    if inj and inj[0] == "mid":
        ops.append(["k", inj[1]])
    ops += [["e", "s0", "a", E2], ["e", "s0", "b", E1], ["e", "s1", "a", E2], ["e", "s1", "b", E2]]
    return {"senders": {"s0": KINDS[v % 3], "s1": KINDS[(v + 1) % 3]}, "cyclic": (v // 2) % 2 == 1, "ops": ops}


def injections(n, v):
    users = {}
    for i in range(n):
        for wd in _style(i + v, i).get("wids", ()):
            users.setdefault(wd, []).append(i)
    out = [None]
    for wd, us in sorted(users.items()):
        out += [["conn", k, wd] for k in range(us[0], n)]
        for k in range(us[0] + 1, n):
            if k not in us:  # H<k> is not handed the object: it can die while H<k> is being connected
                nb = len(_style(k + v, k).get("wids", ()))
                out += [["during", k, wd, "w", at] for at in sorted({0, nb})] + [["during", k, wd, "u", 0]]
        for i in range(n):
            if i not in us:  # a handler that is handed the object cannot see it die
                out += [["pre", i, wd], ["post", i, wd]]
        out.append(["mid", wd])
    return out


T = {
    "T0": ["s0", "a", {"ret": 0}],
    "T1": ["s0", "a", {"wids": ["SH"], "uargs": ["u1"], "ret": "yes"}],
    "T2": ["s0", "b", {"uarg": "ua2", "ret": None}],
    "T3": ["s1", "a", {"wids": ["W3", "SH"], "uargs": ["@s0"], "ret": 1}],
}
PROBES = [["e", "s0", "a", E1], ["e", "s0", "b", E2], ["e", "s1", "a", ER], ["e", "s1", "b", E2]]


def history_alphabet():
    al = []
    for t, (sk, nm, st) in T.items():
        al.append(["c", t, sk, nm, st])
        al.append(["da", t])
        al.append(["dk", t])
        al.append(["dk", t, sk, "b" if nm == "a" else "a"])  # right key, wrong name
    al += [p for p in PROBES]
    al += [["k", "SH"], ["k", "W3"], ["c", "TX", "s0", "zz", {}]]
    return al


def history_scenario(ops, v):
    return {"senders": {"s0": KINDS[v % 3], "s1": KINDS[(v + 1) % 3]}, "cyclic": v % 2 == 1, "ops": [*ops, *PROBES]}


B_STYLES = [{}, {"uargs": ["ub", 1]}, {"wids": ["SB"]}, {"uarg": "uab"}, {"wids": ["WB", "SB"], "uargs": ["vb"], "uarg": 200}]


def during_connect_scenarios(quick):
    """A weak argument of an ALREADY CONNECTED handler P<i> dies in the middle of connect_signal(B): connect_signal takes
    its weak_args / user_args as iterables and consumes them after it has looked the handler list up and before it
    appends the new entry, so an iterable that drops the last reference (cyclic variants: and runs the collector) puts
    the death, and the automatic removal of P<i> it triggers, exactly there.  Afterwards B must be connected like any
    other handler: called exactly once per emit, in connection order, disconnectable by its key and by its arguments;
    P<i> must be gone; bystanders on the same sender's other signal and on another sender are judged too.
    yields (key, scenario)."""
    posts = [[], [["dk", "B"]], [["da", "B"]], [["cnew", "s0", "a"]], [["k", "SB"]],
             [["c", "B2", "s0", "a", {"uargs": ["b2"], "ret": 1}], ["dk", "B"]], [["e", "s0", "a", E2], ["da", "B"]]]
    if quick:  # continuations: all 7 on the plain B, the first four otherwise
        posts_for = lambda bk: posts if bk == 0 else posts[:4]  # noqa: E731
    else:
        posts_for = lambda bk: posts  # noqa: E731
    for v in range(3 if quick else 6):
        senders = {"s0": KINDS[v % 3], "s1": KINDS[(v + 1) % 3]}
        for n in (1, 2, 3):
            sets = list(itertools.product(range(5), repeat=n)) if n <= 2 or not quick else [tuple((i + r) % 5 for i in range(3)) for r in range(5)]
            for sts in sets:
                pre, used = [], []
                for i, k in enumerate(sts):
                    st = dict(_style(k, i), ret=TRUTHY[i] if (i + v) % 3 == 0 else FALSY[i])
                    pre.append(["c", f"P{i}", "s0", "a", st])
                    used += st.get("wids", [])
                targets = sorted(set(used))
                if not targets:
                    continue
                bystanders = [["c", "HB", "s0", "b", {"wids": ["SH"], "ret": 1}], ["c", "HC", "s1", "a", {"wids": ["SH"], "uargs": ["hc"], "ret": 0}]]
                for bk, bstyle in enumerate(B_STYLES):
                    nb, nu = len(bstyle.get("wids", ())), len(bstyle.get("uargs", ()))
                    moments = [("w", at) for at in range(nb + 1)] + [("u", at) for at in sorted({0} if quick else {0, nu})]
                    deaths = [[[wd, via, at]] for wd in targets for via, at in moments]
                    if len(targets) > 1:  # two deaths inside one connect
                        deaths += [[[targets[0], "w", 0], [targets[1], "w", nb]], [[targets[1], "w", 0], [targets[0], "u", 0]]]
                    for dying in deaths:
                        # the critical place is the same (sender, signal); the other two are controls
                        for sk, nm in ([("s0", "a"), ("s0", "b"), ("s1", "a")] if bk == 0 or (bk == 4 and not quick) else [("s0", "a")]):
                            for pi, post in enumerate(posts_for(bk)):
                                ops = [*bystanders, *pre, ["c", "B", sk, nm, dict(bstyle, dying=dying, ret=0 if bk % 2 else 1)], *post, *PROBES]
                                yield (v, sts, bk, repr(dying), sk, nm, pi), {"senders": senders, "cyclic": v % 2 == 1, "ops": ops}


def noop_scenarios():
    """disconnecting something that is not connected: every kind of 'not connected' x small states"""
    bogus = [
        ["da", "never"], ["dk", "foreign"], ["dk", "foreign", "s1", "b"],
        ["da", "H0", {"name": "b"}], ["da", "H0", {"skey": "s1"}], ["da", "H0", {"uargs": ["other"]}],
        ["da", "H0", {"uarg": "extra"}], ["da", "H0", {"wids": []}], ["da", "H0", {"wids": ["Wother"]}],
        ["da", "H1", {"uargs": []}], ["da", "H1", {"uarg": None}],
        ["dk", "H0", "s0", "b"], ["dk", "H0", "s1", "a"], ["dk", "H1", "s1", "b"],
        ["da", "H0", {"skey": "s2"}], ["dk", "H0", "s2", "a"], ["da", "never", {"skey": "s2", "name": "zz"}],
    ]
    for v in range(6):
        for n in range(3):
            base = [["c", f"H{i}", "s0", "a", dict(_style(i + v, i), ret=TRUTHY[i] if v % 2 else FALSY[i])] for i in range(n)]
            for pre in ([], [["dk", "H0"]], [["da", "H0"]], [["k", "SH"]], [["e", "s0", "a", E1]]):
                for b in bogus:
                    for twice in (False, True):
                        ops = [*base, *pre, b, *([b] if twice else []), *PROBES]
                        yield {"senders": {"s0": KINDS[v % 3], "s1": KINDS[(v + 1) % 3], "s2": "U"}, "cyclic": v % 2 == 1, "ops": ops}


def nameerror_scenarios():
    cases = [("S", "zz"), ("S", "c"), ("SF", "zz"), ("SM", "c"), ("SM2", "zz"), ("U", "a"), ("Sub", "a"), ("Sub", "zz"), ("S", 0), ("S", None)]
    for kind, bad in cases:
        good = _REGISTERED[kind]
        for v in range(5):
            for npre in range(3):
                if npre and not good:
                    continue
                pre = [["c", f"H{i}", "s0", good[i % len(good)], dict(_style(i + v, i), ret=i)] for i in range(npre)]
                for st in range(5):
                    ops = [*pre, ["c", "BAD", "s0", bad, _style(st, 9)], ["e", "s0", bad, E1]]
                    ops += [["e", "s0", g, E1] for g in good] + [["da", "BAD", {"name": bad}], ["e", "s0", bad, E2]]
                    yield {"senders": {"s0": kind}, "cyclic": False, "ops": ops}
    # the inherited names of a MetaSignals subclass ARE registered
    for nm in ("a", "b", "c"):
        for st in range(5):
            yield {"senders": {"s0": "SM2"}, "cyclic": False, "ops": [["c", "H0", "s0", nm, dict(_style(st, 0), ret=1)], ["e", "s0", nm, E1], ["e", "s0", "a", E2]]}


def liveness_scenarios():
    """the machinery never keeps a sender or a weak argument alive: drop them in either order after
    every kind of short history; user handlers here hold no outside reference to the sender except,
    in some variants, through the machinery itself (sender as its own user argument / weak argument)"""
    hist = {
        "connect": [],
        "emit": [["e", "s0", "a", E1]],
        "disc_key": [["dk", "H0"]],
        "disc_args": [["da", "H0"]],
        "emit_disc_emit": [["e", "s0", "a", E1], ["dk", "H0"], ["e", "s0", "a", E2]],
        "bad_connect": [["c", "BAD", "s0", "zz", {"wids": ["SH"]}]],
        "noop_disc": [["da", "never"], ["dk", "foreign", "s0", "b"]],
    }
    ends = {
        "sender_first": [["drop", "s0"], ["k", "SH"], ["k", "W0"], ["k", "W1"], ["k", "WS"]],
        "weak_first": [["k", "SH"], ["k", "W0"], ["k", "W1"], ["k", "WS"], ["drop", "s0"]],
        "weak_emit_sender": [["k", "SH"], ["e", "s0", "a", E2], ["drop", "s0"], ["k", "W0"], ["k", "W1"], ["k", "WS"]],
    }
    extra_styles = [{"uargs": ["@s0"]}, {"wids": ["WS"], "uargs": ["@s0"], "uarg": "x"}]
    for kind in ("S", "SF", "SM", "SM2"):
        for cyc in (False, True):
            for n in (1, 2):
                for sts in itertools.product(range(7), repeat=n):
                    for behs in (["plain"] * n, ["self"] + ["plain"] * (n - 1), ["rec"] + ["plain"] * (n - 1), ["new"] + ["plain"] * (n - 1)):
                        for hn, h in hist.items():
                            if behs[0] != "plain" and "e" not in [o[0] for o in h]:
                                continue
                            for en, e in ends.items():
                                ops = []
                                for i in range(n):
                                    st = dict(_style(sts[i], i) if sts[i] < 5 else extra_styles[sts[i] - 5])
                                    st["beh"], st["ret"] = _beh_ops(behs[i], i, 0)
                                    ops.append(["c", f"H{i}", "s0", "a", st])
                                yield (kind, cyc, sts, behs[0], hn, en), {"senders": {"s0": kind}, "cyclic": cyc, "ops": [*ops, *h, *e]}


def run_self_weak(c):
    """the frequent idiom connect_signal(self, name, handler, weak_args=[self]): the sender is its own
    weak argument (not expressible in the trace tokens, so judged directly)"""
    log = []
    s = _CLASSES[c["kind"]]()
    other = W("o", c["cyclic"])
    oref = weakref.ref(other)
    ref = weakref.ref(s)

    def cb(*a):
        log.append([("S" if x is s else "O" if x is other else x) for x in a])
        return c["ret"]

    key = urwid.connect_signal(s, "a", cb, weak_args=[s, other] if c["two"] else [s], user_args=["u"])
    r1 = urwid.emit_signal(s, "a", 1)
    want = [["S", *(["O"] if c["two"] else []), "u", 1]]
    if c["disc"] == "key":
        urwid.disconnect_signal_by_key(s, "a", key)
    elif c["disc"] == "args":
        urwid.disconnect_signal(s, "a", cb, weak_args=[s, other] if c["two"] else [s], user_args=["u"])
    r2 = urwid.emit_signal(s, "a", 2)
    if c["disc"] == "no":
        want.append(["S", *(["O"] if c["two"] else []), "u", 2])
    if log != want or r1 is not bool(c["ret"]) or r2 is not (bool(c["ret"]) and c["disc"] == "no"):
        return f"calls {log} results {r1, r2}; expected calls {want}"
    del _UNRAISABLE[:]
    if c["order"] == "sender_first":
        del s
        gc.collect()
        if ref() is not None:
            return "sender (its own weak argument) still alive after del + gc.collect()"
        del other
        gc.collect()
    else:
        del other
        gc.collect()
        if oref() is not None:
            return "weak argument still alive after del + gc.collect()"
        if c["two"] and c["disc"] == "no" and urwid.emit_signal(s, "a", 3) is not False or len(log) != len(want):
            return "handler called after its weak argument died"
        del s
        gc.collect()
    if ref() is not None or oref() is not None:
        return "sender or weak argument still alive after del + gc.collect()"
    if _UNRAISABLE:
        return f"exception swallowed: {_UNRAISABLE[:1]}"
    return None


def self_weak_cases():
    for kind in ("S", "SF", "SM", "SM2"):
        for two in (False, True):
            for disc in ("no", "key", "args"):
                for order in ("sender_first", "weak_first"):
                    for cyclic in (False, True):
                        for ret in (None, 1):
                            yield {"kind": kind, "two": two, "disc": disc, "order": order, "cyclic": cyclic, "ret": ret}


def duplicate_cases():
    """the same callback with the same arguments connected k times around another handler B;
    m disconnects by arguments: A is then called max(k-m,0) times per emit, B once (which of the
    identical connections goes is not specified, so only counts and arguments are judged)"""
    for st in range(5):
        for k in (1, 2, 3):
            for bpos in range(k + 1):
                for m in range(k + 2):
                    for kind in KINDS:
                        yield {"style": st, "k": k, "bpos": bpos, "m": m, "kind": kind}


def run_duplicate(c):
    w = World({"s0": c["kind"]})
    st = _style(c["style"], 0)
    why = None
    try:
        for p in range(c["k"] + 1):
            if p == c["bpos"]:
                w.connect("B", "s0", "a", uargs=["b"], ret=0)
            if p < c["k"]:
                w.connect("A", "s0", "a", **st)
        for _ in range(c["m"]):
            w.disconnect_args("A")
        w.emit("s0", "a", E1)
    except Exception as e:  # noqa: BLE001
        why = f"raised {type(e).__name__}: {e}"
    calls = [ev for ev in w.trace if ev[0] == "call"]
    want_a = max(c["k"] - c["m"], 0)
    wantargs = [["W", x] for x in st.get("wids", [])] + st.get("uargs", []) + [["S", "s0"], "e1"] + ([st["uarg"]] if "uarg" in st else [])
    if why is None:
        na = [ev for ev in calls if ev[1] == "A"]
        nb = [ev for ev in calls if ev[1] == "B"]
        if len(na) != want_a or len(nb) != 1:
            why = f"A called {len(na)} times (expected {want_a}), B {len(nb)} times (expected 1)"
        elif any(ev[2] != wantargs for ev in na) or nb[0][2] != ["b", ["S", "s0"], "e1"]:
            why = f"wrong arguments: {calls}"
        elif any(ev[-1] != "ok" for ev in w.trace if ev[0] in ("connect", "disconnect_args")):
            why = "a connect/disconnect raised"
    w.handlers.clear()
    return why, w.trace


def widget_cases():
    for st in range(5):
        for wname in ("edit", "button", "button_on_press", "checkbox", "walker", "button_selfdisc"):
            yield {"widget": wname, "style": st}


def run_widget(c):
    """real urwid senders (anchors: widget.py, edit.py, wimp.py, listbox.py): handlers connected with
    every style receive  weak ++ user ++ (what the widget emits) ++ user_arg, in connection order"""
    log = []
    keep = [W("w0", False), W("w1", False)]
    st = c["style"] % 5
    kw, uarg, pre, post = {}, None, [], []
    if st == 1:
        kw["user_args"] = ["u", 1]
        pre = ["u", 1]
    elif st == 2:
        kw["weak_args"] = [keep[0]]
        pre = [keep[0]]
    elif st == 3:
        uarg = "ua"
        post = ["ua"]
    elif st == 4:
        kw.update(weak_args=keep, user_args=("v",))
        uarg = 5
        pre = [*keep, "v"]
        post = [5]

    def mk(tag, action=None):
        def cb(*a):
            log.append((tag, list(a)))
            if action:
                action()
        return cb

    def conn(obj, name, cb):
        return urwid.connect_signal(obj, name, cb, uarg, **kw) if uarg is not None else urwid.connect_signal(obj, name, cb, **kw)

    wn = c["widget"]
    if wn == "edit":
        e = urwid.Edit("", "ab")
        conn(e, "change", mk("c1"))
        conn(e, "postchange", mk("p1"))
        conn(e, "change", mk("c2"))
        e.set_edit_text("xyz")
        want = [("c1", [*pre, e, "xyz", *post]), ("c2", [*pre, e, "xyz", *post]), ("p1", [*pre, e, "ab", *post])]
    elif wn == "button":
        b = urwid.Button("ok")
        conn(b, "click", mk("k1"))
        conn(b, "click", mk("k2"))
        b.keypress((10,), "enter")
        want = [("k1", [*pre, b, *post]), ("k2", [*pre, b, *post])]
    elif wn == "button_selfdisc":
        b = urwid.Button("ok")
        keys = {}
        keys["k1"] = conn(b, "click", mk("k1", lambda: urwid.disconnect_signal_by_key(b, "click", keys["k1"])))
        conn(b, "click", mk("k2"))
        conn(b, "click", mk("k3"))
        b.keypress((10,), "enter")
        b.keypress((10,), " ")
        a = [*pre, b, *post]
        want = [("k1", a), ("k2", a), ("k3", a), ("k2", a), ("k3", a)]
        # k1 disconnects itself while being called: unconstrained for the first emit only as far as k1
        # itself is concerned -- it was called (at most once), k2 and k3 stay connected throughout
    elif wn == "button_on_press":
        b = urwid.Button("ok", on_press=mk("op"), user_data="data")
        conn(b, "click", mk("k2"))
        b.keypress((10,), "enter")
        want = [("op", [b, "data"]), ("k2", [*pre, b, *post])]
    elif wn == "checkbox":
        cb = urwid.CheckBox("x", state=False)
        conn(cb, "change", mk("c1"))
        conn(cb, "postchange", mk("p1"))
        cb.set_state(True)
        want = [("c1", [*pre, cb, True, *post]), ("p1", [*pre, cb, False, *post])]
    else:
        lw = urwid.SimpleFocusListWalker([])  # an empty (falsy) sender
        conn(lw, "modified", mk("m1"))
        conn(lw, "modified", mk("m2"))
        lw.append(urwid.Text("t"))
        want = [("m1", [*pre, *post]), ("m2", [*pre, *post])]
        try:
            urwid.connect_signal(lw, "click", mk("bad"))
            return "connect_signal(SimpleFocusListWalker, 'click') did not raise NameError", log

        except NameError:
            pass
    same = len(log) == len(want) and all(g[0] == x[0] and len(g[1]) == len(x[1]) and all(p is q or (type(p) in (str, int, bool) and p == q) for p, q in zip(g[1], x[1])) for g, x in zip(log, want))
    return (None if same else f"calls {[(t, [repr(x)[:30] for x in a]) for t, a in log]} expected {[(t, [repr(x)[:30] for x in a]) for t, a in want]}"), log


# ----------------------------------------------------------------------------------------------
# registration through the metaclass: class-definition histories


def metaclass_programs(quick):
    """A program = a tuple of class statements (kind, bases, own), class i may only name earlier classes as bases:
    kind "meta": `class Ci(*bases[, metaclass=MetaSignals]): [signals = own]` (own None = no declaration);
    kind "plain": a base-less ordinary class without a `signals` attribute (a mixin the machinery knows nothing of).
    Names: "n<i>" (declared by class i only), "s" (declared by several classes: duplicates), never "zz"."""
    maxn = 4
    root_own = [("n",), ("n", "s")] if quick else [("n",), ("n", "s"), ()]
    sub_own = [None, ("n",), ("n", "s")] if quick else [None, (), ("n",), ("n", "s"), ("s",)]
    maxb = 2 if quick else 3

    def options(i):
        out = [("meta", (), tuple(x + str(i) if x == "n" else x for x in own)) for own in root_own]
        if i > 0:
            out.append(("plain", (), None))
        for k in range(1, maxb + 1):
            for bases in itertools.permutations(range(i), k):
                for own in sub_own:
                    out.append(("meta", bases, None if own is None else tuple(x + str(i) if x == "n" else x for x in own)))
        return out

    def rec(prefix):
        if prefix:
            yield tuple(prefix)
        if len(prefix) < maxn:
            for o in options(len(prefix)):
                yield from rec([*prefix, o])

    return rec([])


def run_metaclass_program(prog):
    """Define the classes in order, then ask the real machinery about every (class, name): a name is accepted by
    connect_signal iff the class or one of the classes it inherits from (its MRO) declared it; an accepted handler is
    called exactly once per emit; a rejected name raises NameError, connects nothing.
    -> ({kind: why} with the first finding of each kind, skipped); kinds: "foreign-name-accepted", "inherited-name-rejected",
    "delivery" (an accepted handler not called exactly once / a rejected one called)"""
    classes, own_of = [], {}
    found = {}
    made = []
    try:
        for i, (kind, bases, own) in enumerate(prog):
            ns = {} if own is None else {"signals": list(own)}
            bs = tuple(classes[b] for b in bases)
            try:
                if kind == "plain":
                    c = type(f"P{i}", (), ns)
                else:
                    c = usig.MetaSignals(f"C{i}", bs, ns)
            except TypeError:
                return {}, True  # no consistent MRO: Python itself refuses the class statement
            classes.append(c)
            made.append(c)
            own_of[c] = set(own or ())
        universe = sorted({x for _k, _b, own in prog for x in (own or ())} | {"zz"})
        for i, c in enumerate(classes):
            if prog[i][0] == "plain":
                continue  # never registered: not a sender class
            want = set()
            for k in c.__mro__:
                want |= own_of.get(k, set())
            for nm in universe:
                obj = c()
                calls = []

                def h(*a, calls=calls):
                    calls.append(a)
                    return 1

                try:
                    urwid.connect_signal(obj, nm, h, user_args=["u"])
                    accepted = True
                except NameError:
                    accepted = False
                r = urwid.emit_signal(obj, nm, 5)
                if accepted != (nm in want):
                    if accepted:
                        found.setdefault("foreign-name-accepted", f"class C{i} accepted connect_signal(.., {nm!r}) although neither it nor any class it inherits from "
                                                                  f"declares that name (declared along its MRO: {sorted(want)})")
                    else:
                        found.setdefault("inherited-name-rejected", f"class C{i} rejected connect_signal(.., {nm!r}) with NameError although a class it inherits from "
                                                                    f"declares that name (declared along its MRO: {sorted(want)})")
                if accepted and (calls != [("u", 5)] or r is not True):
                    found.setdefault("delivery", f"class C{i} signal {nm!r}: one emit made the calls {calls} and returned {r!r}; expected exactly one call ('u', 5) and True")
                if not accepted and (calls or r is not False):
                    found.setdefault("delivery", f"class C{i} rejected {nm!r} but the emit made the calls {calls} / returned {r!r}")
        return found, False
    finally:
        for c in made:
            usig._signals._supported.pop(c, None)  # only to restore the global registry


# ----------------------------------------------------------------------------------------------
# connections the library makes and drops itself: ListBox.body = ..., MainLoop.start() / stop()


class _NoSignalWalker:
    """A walker by duck typing (has get_focus) whose class registers no 'modified' signal."""

    def get_focus(self):
        return None, None

    def get_next(self, position):
        return None, None

    def get_prev(self, position):
        return None, None

    def set_focus(self, position):
        raise IndexError(position)


class _CountingListBox(urwid.ListBox):
    def __init__(self, body):
        self.invalidations = 0
        super().__init__(body)

    def _invalidate(self):
        self.invalidations += 1
        super()._invalidate()


WALKERS = ("E", "F", "N", "X")  # empty SimpleListWalker, empty SimpleFocusListWalker, non-empty SimpleFocusListWalker, no signal


def setter_alphabet():
    al = [["set", lb, w] for lb in (0, 1) for w in (*WALKERS, "P", "P0")]  # P: a plain non-empty list, P0: a plain empty list
    al += [["mod", w] for w in ("E", "F", "N")]            # the walker announces a change: one emit of 'modified'
    al += [["modbody", lb] for lb in (0, 1)]               # ... whatever the list box's current body is
    al += [["fill", "E"], ["fill", "F"], ["empty", "N"]]   # the walker changes its own truth value (and emits as it likes)
    return al


def run_setter_history(c):
    """Two list boxes, four walkers; after EVERY operation and for every list box: the number of `_invalidate` calls
    the operation caused equals the number of 'modified' emits made by the walker that is its body (counted by a probe
    handler connected to each walker before anything else), and 0 for emits of every other walker -- i.e. the handler is
    connected exactly once to the current body and to nothing else.  (`set` itself invalidates the list box it is
    applied to directly: that list box is not judged for that one operation.)"""
    emits = {}
    walkers = {}

    def mk(tag, w):
        walkers[tag] = w
        emits[id(w)] = 0
        if not isinstance(w, _NoSignalWalker):
            urwid.connect_signal(w, "modified", lambda w=w: emits.__setitem__(id(w), emits[id(w)] + 1))
        return w

    mk("E", urwid.SimpleListWalker([]))
    mk("F", urwid.SimpleFocusListWalker([]))
    mk("N", urwid.SimpleFocusListWalker([urwid.Text("n0"), urwid.Text("n1")]))
    mk("X", _NoSignalWalker())
    lbs = [_CountingListBox(walkers[c["init"][0]]), _CountingListBox(walkers[c["init"][1]])]
    body = [walkers[c["init"][0]], walkers[c["init"][1]]]
    ops = [*c["ops"], *[["mod", w] for w in ("E", "F", "N")], ["modbody", 0], ["modbody", 1]]
    for k, op in enumerate(ops):
        for lb in lbs:
            lb.invalidations = 0
        for w in emits:
            emits[w] = 0
        skip = None
        if op[0] == "set":
            lb, tag = op[1], op[2]
            if tag in ("P", "P0"):
                lbs[lb].body = [urwid.Text("p")] if tag == "P" else []
                w = lbs[lb].body
                if type(w) is not urwid.SimpleListWalker or w is body[lb]:
                    return f"op {k} {op}: a plain list was not wrapped in a new SimpleListWalker (body is {w!r})"
                emits.setdefault(id(w), 0)
                walkers[f"wrap{k}"] = w  # (kept alive: ids stay unique)
                urwid.connect_signal(w, "modified", lambda w=w: emits.__setitem__(id(w), emits[id(w)] + 1))
                # (the probe comes after the list box's own handler here; order is not judged)
            else:
                lbs[lb].body = walkers[tag]
                w = walkers[tag]
                if lbs[lb].body is not w:
                    return f"op {k} {op}: body reads back {lbs[lb].body!r}"
            body[lb] = w
            skip = lb
        elif op[0] == "mod":
            walkers[op[1]]._modified()
        elif op[0] == "modbody":
            if isinstance(body[op[1]], _NoSignalWalker):
                continue
            body[op[1]]._modified()
        elif op[0] == "fill":
            walkers[op[1]].append(urwid.Text("x"))
        elif op[0] == "empty":
            del walkers[op[1]][:]
        for i, lb in enumerate(lbs):
            if i == skip:
                continue
            want = emits[id(body[i])]
            if lb.invalidations != want:
                others = {t: emits[id(w)] for t, w in walkers.items() if emits[id(w)]}
                return (f"op {k} {op}: list box {i} (body {_wtag(walkers, body[i])}) had its 'modified' handler called {lb.invalidations} time(s); "
                        f"its body emitted {want} time(s) (emits during the operation: {others}) -- "
                        + ("a walker that is no longer its body still reaches the handler" if lb.invalidations > want and not want else
                           "the handler is connected more than once" if lb.invalidations > want else "the handler is not connected to the body"))
    return None


def _wtag(walkers, w):
    return next((t for t, x in walkers.items() if x is w), "?")


def setter_histories(quick):
    al = setter_alphabet()
    L = 3 if quick else 4
    inits = [("E", "N"), ("F", "F"), ("N", "E")]
    for init in inits:
        for ln in range(1, L + 1):
            for idx in itertools.product(range(len(al)), repeat=ln):
                ops = [al[i] for i in idx]
                if not any(o[0] == "set" for o in ops):
                    continue
                yield {"init": list(init), "ops": ops}


class _FakeScreen(urwid.display.common.BaseScreen):
    def __init__(self):
        super().__init__()
        self.hooks = self.unhooks = 0

    def _start(self):
        pass

    def _stop(self):
        pass

    def set_mouse_tracking(self, enable=True):
        pass

    def hook_event_loop(self, event_loop, callback):
        self.hooks += 1

    def unhook_event_loop(self, event_loop):
        self.unhooks += 1

    def get_cols_rows(self):
        return 20, 5

    def draw_screen(self, size, canvas):
        pass


class _FakeLoop:
    def enter_idle(self, cb):
        return object()

    def remove_enter_idle(self, handle):
        return True

    def alarm(self, seconds, cb):
        return object()

    def remove_alarm(self, handle):
        return True


def run_mainloop_history(c):
    """MainLoop.start() connects its `_reset_input_descriptors` to the screen's INPUT_DESCRIPTORS_CHANGED signal and
    stop() disconnects it: between start and stop one emit re-hooks the screen exactly once, outside never."""
    from urwid.display.common import INPUT_DESCRIPTORS_CHANGED

    screens = [_FakeScreen(), _FakeScreen()]
    loops = [urwid.MainLoop(urwid.SolidFill("x"), screen=screens[i % c["screens"]], event_loop=_FakeLoop(), handle_mouse=False) for i in range(2)]
    running = [False, False]
    for k, op in enumerate([*c["ops"], ["emit", 0], ["emit", 1]]):
        if op[0] == "start":
            if running[op[1]]:
                continue  # (starting a started loop: not a history the API allows)
            loops[op[1]].start()
            running[op[1]] = True
        elif op[0] == "stop":
            if not running[op[1]]:
                continue
            loops[op[1]].stop()
            running[op[1]] = False
        else:
            scr = screens[op[1]]
            h0, u0 = scr.hooks, scr.unhooks
            urwid.emit_signal(scr, INPUT_DESCRIPTORS_CHANGED)
            want = sum(1 for i in range(2) if running[i] and loops[i].screen is scr)
            if (scr.hooks - h0, scr.unhooks - u0) != (want, want):
                return (f"op {k} {op}: one emit of INPUT_DESCRIPTORS_CHANGED on screen {op[1]} re-hooked it {scr.hooks - h0} time(s) "
                        f"(unhooked {scr.unhooks - u0}); {want} started main loop(s) listen to it")
    return None


def mainloop_histories(quick):
    al = [["start", 0], ["stop", 0], ["start", 1], ["stop", 1], ["emit", 0], ["emit", 1]]
    for nscreens in (1, 2):
        for ln in range(1, 5 if quick else 7):
            for idx in itertools.product(range(len(al)), repeat=ln):
                yield {"screens": nscreens, "ops": [al[i] for i in idx]}


# ----------------------------------------------------------------------------------------------
# connections made by the library's constructors: Button(on_press=, user_data=), CheckBox / RadioButton(on_state_change=, user_data=)

_UD = {"absent": None, "None": None, "0": 0, "''": "", "False": False, "()": (), "0.0": 0.0, "'x'": "x", "[1]": [1], "[]": [], "1": 1}


def ctor_wiring_cases():
    for wname in ("button", "checkbox", "radio"):
        for ud in _UD:
            for with_cb in (True, False):
                for how in range(3):
                    for positional in (False, True):
                        for disc in (("same",) if not with_cb else ("same", "none", "with-None") if ud in ("absent", "None") else ("same", "without")):
                            if not with_cb and (how or positional):
                                continue
                            yield {"widget": wname, "user_data": ud, "callback": with_cb, "emit": how, "positional": positional, "disconnect": disc}


def run_ctor_wiring(c):
    """The documentation of the three constructors: the callback given is connected as by
    connect_signal(widget, name, callback, user_data); callback is callback(widget, [new_state,] [user_data]);
    unregister with disconnect_signal(widget, name, callback, user_data).  So (statement: "with the ... user arguments given
    at connect time followed by the emitted arguments" / "handlers already disconnected when the emit starts are never
    called"): every emit calls the callback exactly once, before a handler connected later, with user_data appended for
    EVERY user_data but None (None = the documented "no user data"); nothing is called during construction; after the
    documented disconnect it is never called again and the later handler still is; a disconnect with OTHER arguments
    (without the user_data that was given) "does nothing"; without a callback nothing is connected."""
    log = []
    ud = _UD[c["user_data"]]
    given = c["user_data"] != "absent"
    has_ud = ud is not None

    def handler(*a):
        log.append(("cb", a))

    def later(*a):
        log.append(("later", a))

    cb = handler if c["callback"] else None
    wn = c["widget"]
    name = "click" if wn == "button" else "change"
    group = []
    if wn == "button":
        if c["positional"]:
            w = urwid.Button("ok", cb, ud) if given else urwid.Button("ok", cb)
        else:
            w = urwid.Button("ok", on_press=cb, user_data=ud) if given else urwid.Button("ok", on_press=cb)
    elif wn == "checkbox":
        if c["positional"]:
            w = urwid.CheckBox("x", False, False, cb, ud) if given else urwid.CheckBox("x", False, False, cb)
        else:
            w = urwid.CheckBox("x", on_state_change=cb, user_data=ud) if given else urwid.CheckBox("x", on_state_change=cb)
    else:
        first = urwid.RadioButton(group, "first")  # takes "first True"
        if c["positional"]:
            w = urwid.RadioButton(group, "x", "first True", cb, ud) if given else urwid.RadioButton(group, "x", "first True", cb)
        else:
            w = urwid.RadioButton(group, "x", on_state_change=cb, user_data=ud) if given else urwid.RadioButton(group, "x", on_state_change=cb)
    if log:
        return f"the constructor itself called a handler: {log!r}"
    urwid.connect_signal(w, name, later)

    def emit(k):
        """one emit of the signal through the widget's own code; -> the emitted arguments"""
        if wn == "button":
            if (c["emit"] + k) % 3 == 0:
                w.keypress((10,), "enter")
            elif (c["emit"] + k) % 3 == 1:
                w.mouse_event((10,), "mouse press", 1, 1, 0, True)
            else:
                w.keypress((10,), " ")
            return (w,)
        new = not w.state
        if wn == "radio" and not new:
            # a radio button is switched off by switching another one of its group on
            if (c["emit"] + k) % 3 == 0:
                first.set_state(True)
            elif (c["emit"] + k) % 3 == 1:
                first.keypress((10,), " ")
            else:
                first.toggle_state()
            return (w, False)
        if (c["emit"] + k) % 3 == 0:
            w.set_state(new)
        elif (c["emit"] + k) % 3 == 1:
            w.keypress((10,), " ")
        else:
            w.toggle_state()
        return (w, new)

    def same(got, want):
        return len(got) == len(want) and all(t == u and len(a) == len(b) and all(x is y for x, y in zip(a, b)) for (t, a), (u, b) in zip(got, want))

    def show(calls):
        return [(t, [repr(x)[:24] for x in a]) for t, a in calls]

    connected = c["callback"]
    for k in range(2):
        del log[:]
        em = emit(k)
        want = ([("cb", (*em, ud) if has_ud else em)] if connected else []) + [("later", em)]
        if not same(log, want):
            return f"emit {k}: calls {show(log)}, the documentation promises {show(want)}"
    if not c["callback"]:
        return None
    d = c["disconnect"]
    if d == "same":
        urwid.disconnect_signal(w, name, handler, ud) if given else urwid.disconnect_signal(w, name, handler)
        connected = False
    elif d == "none":
        urwid.disconnect_signal(w, name, handler)
        connected = False
    elif d == "with-None":
        urwid.disconnect_signal(w, name, handler, None)
        connected = False
    else:
        urwid.disconnect_signal(w, name, handler)  # connected WITH a user_data: these are not its arguments
    for k in range(2, 4):
        del log[:]
        em = emit(k)
        want = ([("cb", (*em, ud))] if connected else []) + [("later", em)]
        if not same(log, want):
            return (f"emit {k} after disconnect_signal(widget, {name!r}, callback{', user_data' if d == 'same' and given else ''}): calls {show(log)}, "
                    f"expected {show(want)}")
    return None


# ----------------------------------------------------------------------------------------------


_N = [0]


def _jsonable(x):
    return list(x) if isinstance(x, tuple) else x


def _eval(chk, key, sc, sample=None, count_ambiguous=None, expect_kill=False):
    _N[0] += 1
    if _N[0] % 64 == 0:
        gc.freeze()  # keep the young heap (what the injected gc.collect() calls must scan) small
    try:
        viol, emits, trace = run_scenario(sc)
    except Ambiguous:
        if count_ambiguous is not None:
            count_ambiguous[0] += 1
        return
    # an injection that never fired (its handler was not called) repeats the injection-free case: not counted as distinct
    fired = not expect_kill or any(ev[0] == "kill" for ev in trace)
    chk.case(key, not viol, _detail(sc, viol, emits, trace) if viol else None, fired or bool(viol), sample)
    if viol:
        gc.freeze()  # whatever a defect leaked must not slow down every later gc.collect()


def run(tier="quick", seed=0):
    quick = tier == "quick"
    t00 = time.time()
    old_hook = sys.unraisablehook
    was_enabled = gc.isenabled()
    out = []
    _setup_classes()
    sys.unraisablehook = _hook
    gc.collect()
    gc.freeze()  # keeps the injected gc.collect() calls cheap: only objects created from here on are scanned
    try:
        with warnings.catch_warnings():
            warnings.simplefilter("ignore", DeprecationWarning)  # the deprecated user_arg is in scope on purpose

            # 1. re-entrant emits
            maxn = 4
            if quick:
                plan = {1: range(6), 2: range(6), 3: range(6), 4: (0, 1)}
            else:
                plan = {1: range(12), 2: range(12), 3: range(12), 4: range(6)}
            bound1 = (f"1..{maxn} handlers on one signal, every behaviour in every position (plain / returns true / disconnects self / "
                      "an earlier / a later handler / connects a new handler / emits recursively, depth 2), 5 connect styles "
                      "(none, user_args, weak_args, deprecated user_arg, all three) rotated over positions, disconnect by key or by "
                      "arguments by parity, 3 sender kinds, weak-argument death (del + gc.collect(), cyclic and acyclic) at every "
                      f"point (after each connect, before/after each handler's action inside the emit, between emits); variants per n: { {k: len(list(x)) for k, x in plan.items()} }"
                      + ("; n=4: deaths only between the emits and (variant 0) inside handlers" if quick else ""))
            c1 = Check("C14/reentrant-emit", "two emits + probes of the other (sender,name)s; every call, argument list, order and emit result judged by the reference model; distinct = (n, behaviours, variant, injection)", True, bound1)
            for n in range(1, maxn + 1):
                for v in plan[n]:
                    injs = injections(n, v)
                    if quick and n == 4:
                        injs = [x for x in injs if x is None or x[0] == "mid" or (x[0] == "pre" and v == 0)]
                    for behs in itertools.product(*[behaviours(n, i) for i in range(n)]):
                        for inj in injs:
                            sc = reentrant_scenario(n, behs, v, inj)
                            _eval(c1, (n, behs, v, repr(inj)), sc, {"n": n, "behaviours": list(behs), "variant": v, "inject": inj}, None, inj is not None)
            out.append(c1.result())

            # 2. histories
            al = history_alphabet()
            L = 3 if quick else 4
            amb = [0]
            c2 = Check("C14/histories", f"every sequence of <= {L} operations over a {len(al)}-letter alphabet (connect / disconnect by arguments / by key / by key on the wrong name for 4 handlers on 2 senders x 2 names, 4 emits, death of 2 weak arguments, connect to an unregistered name), followed by an emit of every (sender,name): exact call lists", True, f"length <= {L}, alphabet {len(al)}, 2 variants (sender kinds, cyclic weak objects)")
            for ln in range(1, L + 1):
                for idx in itertools.product(range(len(al)), repeat=ln):
                    for v in (0, 1):
                        _eval(c2, (idx, v), history_scenario([al[i] for i in idx], v), {"ops": [al[i][:4] for i in idx], "variant": v}, amb)
            r2 = c2.result()
            r2["skipped_ambiguous"] = amb[0]
            out.append(r2)

            # 2b. a weak argument dies while another handler is being connected
            c2c = Check("C14/death-during-connect", "1..3 handlers connected to (s0,'a') in every combination of the 5 connect styles (at least one with weak arguments), bystanders sharing a weak argument on (s0,'b') and (s1,'a'); then connect_signal(B) in each of 5 styles whose weak_args / user_args ITERABLE drops the last reference to a weak argument of an earlier handler (+ gc.collect(); cyclic and acyclic garbage) before each of its items / at its end (also two deaths in one connect); then nothing / disconnect B by key / by arguments / connect another / kill B's own weak argument / connect another and disconnect B / emit and disconnect B; then one emit of every (sender, name): exact call lists, order, arguments and results by the reference model, nothing kept alive", True,
                        f"{3 if quick else 6} variants (3 sender kinds, cyclic/acyclic) x style combinations of 1..3 earlier handlers{' (n=3: 5 rotations)' if quick else ''} x 5 styles of B x every dying weak argument x every position in the weak_args / {'start' if quick else 'both ends'} of the user_args iterable x B on the same (sender,signal) [+ 2 control places for {1 if quick else 2} style(s)] x {'7 continuations for the plain B, 4 otherwise' if quick else '7 continuations'}")
            for key, sc in during_connect_scenarios(quick):
                _eval(c2c, key, sc, {"ops": [o[:5] for o in sc["ops"][2:6]]}, None, True)
            out.append(c2c.result())

            # 3. random histories of re-entrant handlers (thorough only)
            if not quick:
                r = rng(seed)
                c2b = Check("C14/random-reentrant-histories", "seeded random histories of 6 operations in which the 4 handlers have random re-entrant behaviours (disconnect self/another by key/arguments, connect new, recursive emit, kill a weak argument)", False, "40000 histories of length 6")
                amb2 = [0]
                for it in range(40000):
                    v = r.randrange(6)
                    tt = {}
                    for t, (sk, nm, st) in T.items():
                        st = dict(st)
                        b = r.choice(["plain", "plain", "self_k", "self_a", "other_k", "other_a", "new", "rec", "kill"])
                        o = r.choice([x for x in T if x != t])
                        st["beh"] = {"plain": [], "self_k": [["dk", t]], "self_a": [["da", t]], "other_k": [["dk", o]], "other_a": [["da", o]],
                                     "new": [["cnew", sk, nm]], "rec": [["erec", sk, nm, ER]], "kill": [["k", r.choice(["SH", "W3"])]]}[b]
                        if b == "rec":
                            st["ret"] = "nested"
                        tt[t] = ["c", t, sk, nm, st]
                    ops = []
                    for _ in range(6):
                        o = al[r.randrange(len(al))]
                        ops.append(tt[o[1]] if o[0] == "c" and o[1] in tt else o)
                    _eval(c2b, it, history_scenario(ops, v), None, amb2)
                r2b = c2b.result()
                r2b["skipped_ambiguous"] = amb2[0]
                out.append(r2b)

            # 4. disconnecting what is not connected
            c3 = Check("C14/disconnect-not-connected", "17 kinds of 'not connected' (unknown callback, foreign key, right key/arguments on the wrong name or sender, different user/weak arguments, already disconnected, weak argument dead, sender without any connection, unregistered class) x states of 0..2 handlers x once/twice: no exception and the following emits are exactly those of the model", True, "0..2 connected handlers x 5 pre-histories x 17 bogus disconnects x 6 variants")
            for i, sc in enumerate(noop_scenarios()):
                _eval(c3, i, sc, {"ops": [o[:4] for o in sc["ops"][:6]]})
            out.append(c3.result())

            # 5. NameError
            c4 = Check("C14/unregistered-name-rejected", "connect to a name not registered for the sender's class (unknown name, unregistered class, subclass of a hand-registered class, non-string names) raises NameError in every connect style and connects nothing; names inherited through MetaSignals are accepted", True, "10 (class, name) pairs x 5 styles x 0..2 handlers already connected x 5 variants")
            for i, sc in enumerate(nameerror_scenarios()):
                _eval(c4, i, sc, {"senders": sc["senders"], "ops": [o[:4] for o in sc["ops"][:4]]})
            out.append(c4.result())

            # 6. liveness
            c5 = Check("C14/no-keepalive", "after every short history, dropping the last outside reference to the sender / to each weak argument (in either order) + gc.collect() leaves the weakref dead; no exception is swallowed in a weakref callback", True, "4 sender classes x 1..2 handlers x 7 connect styles (incl. the sender as its own user/weak argument) x 4 behaviours x 7 histories x 3 death orders x cyclic/acyclic weak objects")
            for key, sc in liveness_scenarios():
                if quick and len(key[2]) == 2 and (key[2][0] + key[2][1]) % 3:
                    continue
                _eval(c5, key, sc, {"key": list(map(str, key))})
            for c in self_weak_cases():
                try:
                    why = run_self_weak(c)
                except Exception as e:  # noqa: BLE001
                    why = f"raised {type(e).__name__}: {e}"
                c5.case(("self_weak", *c.values()), why is None, {"why": why, "self_weak": c}, True, c)
            out.append(c5.result())

            # 7. duplicates
            c6 = Check("C14/duplicate-connections", "one callback connected k<=3 times with identical arguments around another handler, m disconnects by arguments: called max(k-m,0) times with the right arguments, the other handler once", True, "k<=3, m<=k+1, 5 styles, 3 sender kinds")
            for c in duplicate_cases():
                why, trace = run_duplicate(c)
                c6.case(tuple(c.values()), why is None, {"why": why, "case": c, "trace": trace}, True, c)
            out.append(c6.result())

            # 8. real widgets
            c7 = Check("C14/urwid-widgets", "Edit change/postchange, Button click (also on_press/user_data and a handler that disconnects itself), CheckBox change/postchange, SimpleFocusListWalker modified: handlers connected in each style are called once, in connection order, with weak ++ user ++ emitted ++ user_arg", True, "6 widget situations x 5 connect styles")
            for c in widget_cases():
                try:
                    why, _log = run_widget(c)
                except Exception as e:  # noqa: BLE001
                    why = f"raised {type(e).__name__}: {e}"
                c7.case(tuple(c.values()), why is None, {"why": why, "case": c}, True, c)
            out.append(c7.result())
            # 9. registration through the metaclass
            rule8 = ("class-definition histories (MetaSignals roots, plain mixins, single and multiple inheritance in every base order, with and without an own "
                     "`signals` declaration, a name declared by several classes), then for EVERY class defined and every name: ")
            bound8 = ("<= 4 class statements, <= " + ("2" if quick else "3") + " bases each (every ordered choice of earlier classes), own declaration in "
                      + ("{none, [n_i], [n_i, s]}" if quick else "{none, [], [n_i], [n_i, s], [s]}") + "; every (class, name) pair probed after the last statement")
            c8 = Check("C14/metaclass-registration", rule8 + "connect_signal REJECTS (NameError, nothing connected, emit calls nothing) every name that neither the class nor a class along its MRO declared; a handler connected to an accepted name is called exactly once per emit", True, bound8)
            c8b = Check("C14/metaclass-inherited-names", rule8 + "connect_signal ACCEPTS every name declared by the class or by a class along its MRO", True, bound8)
            skipped = 0
            for prog in metaclass_programs(quick):
                try:
                    found, skip = run_metaclass_program(prog)
                except Exception as e:  # noqa: BLE001
                    found, skip = {"delivery": f"raised {type(e).__name__}: {e}"}, False
                if skip:
                    skipped += 1
                    continue
                jp = [list(map(_jsonable, st)) for st in prog]
                why = found.get("foreign-name-accepted") or found.get("delivery")
                c8.case(prog, why is None, {"why": why, "program": jp}, True, {"program": jp})
                why = found.get("inherited-name-rejected")
                c8b.case(prog, why is None, {"why": why, "program": jp}, True, {"program": jp})
            for c in (c8, c8b):
                r8 = c.result()
                r8["skipped_inconsistent_mro"] = skipped
                out.append(r8)

            # 10. connections made and dropped by the library itself
            al9 = setter_alphabet()
            c9 = Check("C14/library-setter-connections", "ListBox.body = walker (empty / non-empty SimpleListWalker and SimpleFocusListWalker, plain lists, a walker without the signal; two list boxes that may share a walker; switched away and back; walkers filled and emptied in between) and MainLoop.start()/stop(): after every operation the library's own handler is called exactly once per emit of the object it currently listens to and never by one it was switched away from; Button(on_press=, user_data=) / CheckBox / RadioButton(on_state_change=, user_data=): every emit made by the widget's own code (keys, mouse, set_state / toggle_state, a radio group switching a button off) calls the constructor's callback exactly once, before a later handler, with (widget, [new state,] user_data) for every user_data but None and (widget, [new state]) for None / absent, never during construction, never again after the documented disconnect_signal(widget, name, callback, user_data), still after a disconnect with other arguments", True,
                       f"ListBox: histories of <= {3 if quick else 4} operations (at least one assignment) over a {len(al9)}-letter alphabet x 3 initial bodies, + 5 probing emits; MainLoop: histories of <= {4 if quick else 6} start/stop/emit operations, 2 loops on 1 or 2 screens; constructors: 3 widgets x user_data in (absent, None, 0, '', False, (), 0.0, [], 1, 'x', [1]) x keyword / positional x 3 rotations of the emitting operations x disconnect (same arguments / without the user_data / for None and absent: bare and explicit None) + no callback given; 2 emits before and 2 after the disconnect")
            for c in setter_histories(quick):
                try:
                    why = run_setter_history(c)
                except Exception as e:  # noqa: BLE001
                    why = f"raised {type(e).__name__}: {e}"
                c9.case(repr(c), why is None, {"why": why, "setter_history": c}, True, c)
            for c in mainloop_histories(quick):
                try:
                    why = run_mainloop_history(c)
                except Exception as e:  # noqa: BLE001
                    why = f"raised {type(e).__name__}: {e}"
                c9.case(repr(c), why is None, {"why": why, "mainloop_history": c}, True, c)
            for c in ctor_wiring_cases():
                try:
                    why = run_ctor_wiring(c)
                except Exception as e:  # noqa: BLE001
                    why = f"raised {type(e).__name__}: {e}"
                c9.case(repr(c), why is None, {"why": why, "ctor_wiring": c}, True, c)
            out.append(c9.result())
    finally:
        gc.unfreeze()
        sys.unraisablehook = old_hook
        _teardown_classes()
        if was_enabled:
            gc.enable()
        gc.collect()
    return {"checks": out, "bound": bound1 + f"; histories of <= {L} ops over {len(al)} letters; wall {round(time.time() - t00, 1)} s"}


def replay(check_name, case):
    old_hook = sys.unraisablehook
    _setup_classes()
    sys.unraisablehook = _hook
    try:
        with warnings.catch_warnings():
            warnings.simplefilter("ignore", DeprecationWarning)
            if "scenario" in case:
                try:
                    viol, emits, trace = run_scenario(case["scenario"])
                except Ambiguous:
                    return {"outcome": "not-reproduced", "detail": {"why": "history outside the oracle's scope (ambiguous disconnect)"}}
                return {"outcome": "confirmed" if viol else "not-reproduced", "detail": {"violations": viol, "emits": emits[:6], "trace_head": trace[:40]}}
            if "self_weak" in case:
                try:
                    why = run_self_weak(case["self_weak"])
                except Exception as e:  # noqa: BLE001
                    why = f"raised {type(e).__name__}: {e}"
                return {"outcome": "confirmed" if why else "not-reproduced", "detail": {"why": why}}
            if "program" in case:
                prog = tuple((k, tuple(b), None if o is None else tuple(o)) for k, b, o in case["program"])
                try:
                    found, _skip = run_metaclass_program(prog)
                except Exception as e:  # noqa: BLE001
                    found = {"delivery": f"raised {type(e).__name__}: {e}"}
                if check_name.endswith("metaclass-inherited-names"):
                    why = found.get("inherited-name-rejected")
                else:
                    why = found.get("foreign-name-accepted") or found.get("delivery")
                return {"outcome": "confirmed" if why else "not-reproduced", "detail": {"why": why, "all": found}}
            if "ctor_wiring" in case:
                try:
                    why = run_ctor_wiring(case["ctor_wiring"])
                except Exception as e:  # noqa: BLE001
                    why = f"raised {type(e).__name__}: {e}"
                return {"outcome": "confirmed" if why else "not-reproduced", "detail": {"why": why}}
            if "setter_history" in case or "mainloop_history" in case:
                try:
                    why = run_setter_history(case["setter_history"]) if "setter_history" in case else run_mainloop_history(case["mainloop_history"])
                except Exception as e:  # noqa: BLE001
                    why = f"raised {type(e).__name__}: {e}"
                return {"outcome": "confirmed" if why else "not-reproduced", "detail": {"why": why}}
            if check_name.endswith("duplicate-connections"):
                why, trace = run_duplicate(case["case"])
                return {"outcome": "confirmed" if why else "not-reproduced", "detail": {"why": why, "trace": trace}}
            if check_name.endswith("urwid-widgets"):
                try:
                    why, _ = run_widget(case["case"])
                except Exception as e:  # noqa: BLE001
                    why = f"raised {type(e).__name__}: {e}"
                return {"outcome": "confirmed" if why else "not-reproduced", "detail": {"why": why}}
            return {"outcome": "not-reproduced", "detail": {"why": "unknown case format"}}
    finally:
        sys.unraisablehook = old_hook
        _teardown_classes()
        gc.collect()
