"""C20 bounded stand-in: Scrollable shows the right slice, ScrollBar reflects the position.

The real `Scrollable` / `ScrollBar` / `ListBox` code is driven the way `MainLoop` drives it (one top-level
render after every input event, the previous top canvas kept alive *during* the next render and dropped
afterwards, so the canvas cache behaves as in an application) over exhaustively enumerated histories of
keys, wheel events, clicks, `set_scrollpos`, resizes and content changes.  After every render the drawn
characters are decoded into rows and compared with oracles taken from the property statement:

  renders               render returns a (maxcol x maxrow) canvas and no call raises
  slice                 view == rows [p, p+h) of the wrapped widget's own full rendering for some
                        0 <= p <= max(0, total-h); blank padding only below/right of shorter/narrower content
  slice-attrs           the same comparison cell for cell INCLUDING display attributes / character sets (read
                        from canvas.content()): the view's cells are those of rows [p, p+h) of the full rendering
  position              get_scrollpos() after the render is such a p
  bar-drawn             bar columns present  <=>  content has more rows than the view
  bar-parts             bar = trough^a thumb^b trough^c, uniform across the bar width, a+b+c = h
  thumb-top             a == 0  <=>  the first content row is the first view row
  bar-monotone          a never decreases when p increases (same content, size, bar)
  child-width           Scrollable receives (maxcol - barwidth, maxrow) when the bar is drawn, the whole
                        size otherwise; the content receives that width
  handled-not-scrolled  key / mouse event consumed by the wrapped widget leaves p where it was (unless the
                        wrapped widget's cursor left the window and the view follows it)
  scroll-moves          (secondary; from the docstrings, not from the statement) unhandled up/down/home/end/
                        wheel/set_scrollpos move by the documented amount, clamped
  listbox-*             the bar clauses with a ListBox (absolute and relative-scroll branches) under ScrollBar

Structured content (family "struct"): wrapped widgets whose canvas consists of SEVERAL shards with canvas views
that span shard boundaries - Columns of [Pile of short Texts | one tall Text], Columns inside Pile inside Columns,
a LineBox around such Columns, a BoxAdapter'd ListBox and a nested (already scrolled) Scrollable beside a tall Text,
Edits inside such Columns - with different display attributes per column (markup and AttrMap).  For these EVERY scroll
position is visited: set_scrollpos(k) for every k in [-total-1, total+1] (also before the first render), every position
followed by every key / wheel event / resize / content change, and walks through the whole content with the down / up
keys, the wheel, the page keys, and a chain of resizes at every position.

Fixed structured content (family "fstruct"): FIXED-only wrapped widgets (rendered at size ()) that are WIDER than the
view, so that Scrollable also trims the sides of a multi-shard canvas: a tall block beside a stack of short blocks (the
stack on the right / on the left / on both sides of the tall block), BigText glyphs beside a stack, such Columns inside a
fixed Pile between blocks of other widths; per-column display attributes.  View widths cut inside the first column, cut
the other columns off completely, partly, not at all, and exceed the content (blank padding); every view height 1..5
(quick) and every scroll position, reached by set_scrollpos (warm and cold), keys, wheel, and followed by resizes and
content changes (the tall block shorter / longer than its neighbours).

Reference side: the wrapped widget's full rendering is obtained from the wrapped widget itself (that *is*
the definition in the statement); everything else (slice, padding, clamping, bar grammar, expected bar
presence, expected movement) is computed here on plain lists of strings and ints.
"""
from __future__ import annotations

import itertools
import multiprocessing
import time

import urwid
from urwid.canvas import CanvasCache, TextCanvas
from urwid.widget.scrollable import ScrollBar, Scrollable

from bounded.common import Check, rng

THUMB, TROUGH = "#", "."
KEYS = ("up", "down", "page up", "page down", "home", "end")

RULES = {
    "C20/renders": "every render of Scrollable / ScrollBar returns a maxcol x maxrow canvas; no render, keypress, mouse_event or set_scrollpos raises",
    "C20/slice": "Scrollable view == rows [p,p+h) of the wrapped widget's full rendering for some 0<=p<=max(0,total-h), cut/padded to the view width, blank rows only when total<h",
    "C20/slice-attrs": "cell for cell, display attribute and character set of the view == those of rows [p,p+h) of the wrapped widget's full rendering (for a p at which the characters match); padding cells carry none",
    "C20/position": "get_scrollpos() after rendering is a p for which the view is that slice",
    "C20/scroll-moves": "(docstring reading) on content that handles no input: up/down/wheel move one row, home/end go to the ends, page keys move 1..h rows, set_scrollpos(k>=0) -> k, (k<0) -> total-h+k+1, resize/content change keep the row; all clamped to [0,max(0,total-h)]",
    "C20/handled-not-scrolled": "a key (returned None) or mouse event (returned true) handled by the wrapped widget leaves p unchanged, except that the window may follow a cursor that left it",
    "C20/bar-drawn": "ScrollBar columns are drawn iff the content (at the full view width) has more rows than the view",
    "C20/bar-parts": "bar column = trough^a thumb^b trough^c with a,b,c >= 0, a+b+c == maxrow, identical in every bar column",
    "C20/thumb-top": "a == 0 iff the first content row is in view (a := maxrow when there is no thumb row)",
    "C20/bar-monotone": "for the same content, size and bar: p1 < p2 implies a(p1) <= a(p2)",
    "C20/child-width": "Scrollable.render receives (maxcol-barwidth, maxrow) when the bar is drawn, (maxcol, maxrow) otherwise; the content widget receives that width",
    "C20/listbox-bar-drawn": "ScrollBar over ListBox: bar drawn iff the items have more rows in total than the view",
    "C20/listbox-bar-parts": "ScrollBar over ListBox: trough^a thumb^b trough^c, a+b+c == maxrow",
    "C20/listbox-thumb-top": "ScrollBar over ListBox: a == 0 iff the first row of the first item is the first view row",
    "C20/listbox-bar-monotone": "ScrollBar over ListBox: the thumb never moves up when the first visible row moves down",
    "C20/listbox-child-width": "ScrollBar over ListBox: ListBox.render receives (maxcol-barwidth, maxrow) when the bar is drawn",
}


# ---------------------------------------------------------------------------------------------
# wrapped widgets used as content (the code under test is Scrollable/ScrollBar, not these)
# ---------------------------------------------------------------------------------------------
class FixedBlock(urwid.Widget):
    """FIXED-only widget: a block of equal-width lines."""

    _sizing = frozenset([urwid.FIXED])
    _selectable = False
    ignore_focus = True

    def __init__(self, lines):
        super().__init__()
        self.lines = list(lines)

    def set_lines(self, lines):
        self.lines = list(lines)
        self._invalidate()

    def pack(self, size=(), focus=False):
        return (len(self.lines[0]), len(self.lines))

    def render(self, size, focus=False):
        return TextCanvas([ln.encode() for ln in self.lines], maxcol=len(self.lines[0]))


class FixedOnly(urwid.Widget):
    """FIXED-only view of a widget that can render at size () (urwid's Columns always also offers FLOW, and Scrollable
    prefers FLOW; this makes Scrollable take the fixed rendering - wider than the view - of real Columns)."""

    _sizing = frozenset([urwid.FIXED])
    _selectable = False
    ignore_focus = True

    def __init__(self, w):
        super().__init__()
        self.w = w

    def pack(self, size=(), focus=False):
        return self.w.pack((), focus)

    def render(self, size, focus=False):
        return urwid.CompositeCanvas(self.w.render((), focus))


class AsciiFont(urwid.Font):
    """ASCII-only glyphs for BigText (a real FIXED-only widget; one canvas per glyph side by side)."""

    name = "c20 ascii"
    height = 5
    data = (
        """
1111122222
  /| /^^\\ 
 / |    / 
   |   /  
   |  /   
  _|_/____
""",
    )


class Grabber(urwid.Widget):
    """Selectable FLOW widget without a cursor that consumes a given set of keys / mouse buttons."""

    _sizing = frozenset([urwid.FLOW])
    _selectable = True

    def __init__(self, n, keys, buttons):
        super().__init__()
        self.n, self.keys, self.buttons = n, frozenset(keys), frozenset(buttons)

    def set_n(self, n):
        self.n = n
        self._invalidate()

    def rows(self, size, focus=False):
        return self.n

    def render(self, size, focus=False):
        (maxcol,) = size
        return TextCanvas([chr(65 + i).ljust(maxcol).encode() for i in range(self.n)], maxcol=maxcol)

    def keypress(self, size, key):
        return None if key in self.keys else key

    def mouse_event(self, size, event, button, col, row, focus):
        return button in self.buttons


LETTERS = "abcdefghijklmnopqrstuvwxyz"
TEXTS = {
    "T1": "a",
    "T3": "a\nb\nc",
    "T8": "\n".join(LETTERS[:8]),
    "TW": "abcdefghijkl",  # wraps: rows depend on the width
    "TS": "ab cd efg h ij",  # wraps at spaces
    "TB": "a\n\nb\n\n\nc",  # blank rows: p not identifiable from the view (ambiguity handled by the oracle)
}
# content change targets per kind: ("content","short") / ("content","long")
TEXT_SHORT, TEXT_LONG = "y\nz", "klmnopqrstuv\nw\nx\ny\nz"


def _rows_text(tag, n, attr=None):
    """Text of n rows 'tag0', 'tag1', ... (display attribute `attr` through markup)."""
    body = "\n".join(f"{tag}{i}" for i in range(n))
    return urwid.Text((attr, body) if attr else body)


STRUCTS = ("cols", "nest", "lbox", "lbadapt", "nscroll", "sel")


def make_struct(name):
    """Flow widgets whose canvas has several shards and canvas views spanning shard boundaries: the columns of a
    Columns are split into rows differently (a Pile of short Texts beside one tall Text).  `_c20_tall` is the tall
    Text (the content-change events rewrite it: shorter than / much longer than its neighbour)."""
    tall = _rows_text("R", 9 if name == "nest" else 7)
    right = urwid.AttrMap(tall, "r")
    left = urwid.Pile([_rows_text("a", 2, "x"), _rows_text("b", 3, "y"), _rows_text("c", 2)])
    if name == "cols":
        top = urwid.Pile([urwid.Text("hd"), urwid.Columns([left, right]), _rows_text("t", 3, "z")])
    elif name == "nest":  # Columns inside Pile inside Columns
        inner = urwid.Columns([urwid.Pile([_rows_text("a", 1, "x"), _rows_text("b", 2)]), urwid.AttrMap(_rows_text("m", 4), "m")])
        mid = urwid.Pile([_rows_text("p", 2, "y"), inner, _rows_text("q", 1)])
        top = urwid.Columns([("weight", 2, mid), right])
    elif name == "lbox":  # the side borders are one canvas beside the several shards of the Columns
        box = urwid.LineBox(urwid.Columns([left, right]), tlcorner="+", tline="-", lline="|", trcorner="+", blcorner="+", rline="|", bline="-", brcorner="+")
        top = urwid.Pile([urwid.Text("hd"), box, _rows_text("t", 2, "z")])
    elif name == "lbadapt":  # a box widget (ListBox: one canvas per visible item) given 5 rows, beside the tall Text
        lb = urwid.ListBox(urwid.SimpleListWalker([_rows_text("i", 2, "x"), _rows_text("j", 1), _rows_text("k", 3, "y"), _rows_text("l", 2)]))
        top = urwid.Pile([urwid.Text("hd"), urwid.Columns([urwid.BoxAdapter(lb, 5), right]), _rows_text("t", 3, "z")])
    elif name == "nscroll":  # a nested Scrollable that is itself scrolled: its canvas views are already trimmed
        inner = Scrollable(urwid.Pile([_rows_text("u", 3, "x"), urwid.Columns([urwid.Pile([_rows_text("v", 1), _rows_text("w", 2, "y")]), _rows_text("n", 4)]), _rows_text("o", 2)]))
        inner.set_scrollpos(2)
        top = urwid.Pile([urwid.Text("hd"), urwid.Columns([urwid.BoxAdapter(inner, 4), right]), _rows_text("t", 3, "z")])
    elif name == "sel":  # selectable: Edits (cursor) in the short column
        sleft = urwid.Pile([urwid.Edit("", "e0"), _rows_text("b", 3, "y"), urwid.Edit("", "e1")])
        top = urwid.Pile([urwid.Text("hd"), urwid.Columns([sleft, right]), _rows_text("t", 3, "z")])
    else:
        raise ValueError(name)
    top._c20_tall = tall
    return top


def _block(ch, width, n):
    return FixedBlock([(f"{i % 10}" + ch * width)[:width] for i in range(n)])


def _stack(width, heights, chars="abcd", attrs=("x", None, "y", None)):
    """FIXED-only Pile of short blocks (one canvas - one shard - per block)."""
    items = []
    for i, n in enumerate(heights):
        b = _block(chars[i], width, n)
        items.append(("pack", urwid.AttrMap(b, attrs[i]) if attrs[i] else b))
    return urwid.Pile(items)


FSTRUCTS = ("right", "left", "both", "big", "inpile")
# full width and the view widths used: inside the first column / the first column exactly (everything to its right
# cut off completely) / part of the next column / exactly the content / wider than the content
FSTRUCT_WIDTHS = {
    "right": (7, (2, 3, 5, 7, 9)),  # tall 3 | stack 4
    "left": (8, (2, 4, 5, 6, 8, 9)),  # stack 4 | 1 | tall 3
    "both": (11, (3, 4, 6, 7, 9, 11, 12)),  # stack 4 | tall 3 | stack 4
    "big": (14, (3, 5, 7, 10, 12, 14, 15)),  # glyph 5 | glyph 5 | stack 4
    "inpile": (9, (2, 3, 5, 7, 9, 10)),  # 9-wide header over (tall 3 | stack 4) over a 5-wide block
}


def make_fstruct(name):
    """FIXED-only widgets wider than the view whose canvas has several columns with different vertical splits.
    `_c20_tall` is the tall block (content changes rewrite it: shorter / longer than its neighbours)."""
    tall = _block("R", 3, 9)
    tallw = urwid.AttrMap(tall, "r")
    if name == "right":  # the stack is cut off first
        top = FixedOnly(urwid.Columns([("pack", tallw), ("pack", _stack(4, (2, 3, 4)))]))
    elif name == "left":  # the tall canvas is cut off first: every shard keeps a canvas view of its own
        top = FixedOnly(urwid.Columns([("pack", _stack(4, (2, 3, 4))), ("pack", tallw)], dividechars=1))
    elif name == "both":
        top = FixedOnly(urwid.Columns([("pack", _stack(4, (2, 3, 4))), ("pack", tallw), ("pack", _stack(4, (4, 1, 3, 1), "efgh", (None, "z", None, "x")))]))
    elif name == "big":  # BigText: one canvas per glyph, 5 rows, beside a stack of 2+1+2 rows
        big = urwid.BigText(("g", "12"), AsciiFont())
        top = FixedOnly(urwid.Columns([("pack", big), ("pack", _stack(4, (2, 1, 2)))]))
        tall = None
    elif name == "inpile":  # a real FIXED-only Pile: blocks of other widths above and below the columns
        cols = FixedOnly(urwid.Columns([("pack", tallw), ("pack", _stack(4, (2, 3, 4)))]))
        top = urwid.Pile([("pack", _block("h", 9, 1)), ("pack", cols), ("pack", urwid.AttrMap(_block("t", 5, 2), "z"))])
    else:
        raise ValueError(name)
    top._c20_tall = tall
    return top


def make_content(spec):
    kind = spec[0]
    if kind == "fstruct":
        return make_fstruct(spec[1])
    if kind == "struct":
        return make_struct(spec[1])
    if kind == "text":
        return urwid.Text(TEXTS[spec[1]])
    if kind == "pile":
        if spec[1] == "empty":
            return urwid.Pile([])
        return urwid.Pile(
            [urwid.Text("a\nb"), urwid.Edit("", "cd"), urwid.Text("e"), urwid.Edit("", "fg\nh"), urwid.Text("i\nj")]
        )
    if kind == "fixed":
        _k, width, n = spec
        return FixedBlock([LETTERS[i] * width for i in range(n)])
    if kind == "grab":
        _k, n, keys, buttons = spec
        return Grabber(n, keys, buttons)
    raise ValueError(spec)


def change_content(w, spec, how):
    kind = spec[0]
    if kind == "text":
        w.set_text(TEXT_SHORT if how == "short" else TEXT_LONG)
    elif kind == "pile":
        if how == "short":
            if w.contents:
                del w.contents[-1]
        else:
            w.contents.append((urwid.Text("x\ny\nz"), w.options()))
    elif kind == "fixed":
        width = len(w.lines[0])
        w.set_lines([LETTERS[10 + i] * width for i in range(2 if how == "short" else 9)])
    elif kind == "grab":
        w.set_n(2 if how == "short" else 9)
    elif kind == "fstruct":
        if w._c20_tall is not None:
            n = 2 if how == "short" else 12
            w._c20_tall.set_lines([(f"{i % 10}" + "S" * 3)[:3] for i in range(n)])
    elif kind == "struct":
        w._c20_tall.set_text("\n".join(f"S{i}" for i in range(2 if how == "short" else 12)))


# ---------------------------------------------------------------------------------------------
# plain reference helpers
# ---------------------------------------------------------------------------------------------
def canvas_rows(canv):
    return [b.decode("ascii") for b in canv.text]


NOATTR = (None, None)


def canvas_cells(canv):
    """-> (rows as strings, per row a tuple of (display attribute, character set) per cell), from content().
    All content here is ASCII: one byte per cell."""
    rows, attrs = [], []
    for row in canv.content():
        t, a = [], []
        for attr, cs, text in row:
            t.append(text)
            a.extend([(attr, cs)] * len(text))
        rows.append(b"".join(t).decode("ascii"))
        attrs.append(tuple(a))
    return rows, attrs


def expected_attrs(full_attrs, p, cv, h):
    out = []
    for r in range(h):
        a = full_attrs[p + r][:cv] if p + r < len(full_attrs) else ()
        out.append(tuple(a) + (NOATTR,) * (cv - len(a)))
    return out


def expected_view(full, p, cv, h):
    return [(full[p + r] if p + r < len(full) else "")[:cv].ljust(cv) for r in range(h)]


def parse_bar(barcols, w):
    """-> (a, b, c) for trough^a thumb^b trough^c, or None when the column is not of that shape."""
    kinds = []
    for cell in barcols:
        if cell == THUMB * w:
            kinds.append("T")
        elif cell == TROUGH * w:
            kinds.append("R")
        else:
            return None
    b = kinds.count("T")
    a = kinds.index("T") if b else len(kinds)
    if kinds != ["R"] * a + ["T"] * b + ["R"] * (len(kinds) - a - b):
        return None
    return a, b, len(kinds) - a - b


class Acc:
    """Per-process collector with the Check.case interface (merged into Check objects by run()).
    Failure details may carry a "class" string (circumstances of the failure, computed by the harness);
    at most PER_CLASS failures of one class are kept so that different causes stay visible."""

    PER_CLASS = 4

    def __init__(self):
        self.evaluations = 0
        self.distinct = 0
        self.failures = []
        self.samples = []
        self.classes = {}

    def case(self, key, ok, detail=None, nontrivial=True, sample=None):  # keys are unique by construction
        self.evaluations += 1
        if nontrivial:
            self.distinct += 1
        if len(self.samples) < 3 and sample is not None:
            self.samples.append(sample() if callable(sample) else sample)
        if not ok:
            if callable(detail):
                detail = detail()
            cls = (detail or {}).get("class", "-")
            n = self.classes[cls] = self.classes.get(cls, 0) + 1
            if n <= self.PER_CLASS and len(self.failures) < 20:
                self.failures.append(detail)


def new_accs():
    return {name: Acc() for name in RULES}


# Reference-side memo (speed only; cleared at the start of every job and replay): the number of rows of the
# wrapped content at a width, and the rows of the ListBox items, depend only on the content description and
# on the sequence of content-change events applied so far - no key, wheel, click, position or resize event
# used here edits the content (Edit only receives cursor keys) - so they are computed once per such key
# instead of once per history.
_MEMO = {}


# ---------------------------------------------------------------------------------------------
# Scrollable / ScrollBar world
# ---------------------------------------------------------------------------------------------
class World:
    def __init__(self, cfg):
        self.cfg = cfg
        self.spec = tuple(cfg["content"])
        self.size = tuple(cfg["size"])
        self.bar = tuple(cfg["bar"]) if cfg.get("bar") else None
        self.focus = cfg.get("focus", True)
        self.content = make_content(self.spec)
        self.fixed = self.spec[0] in ("fixed", "fstruct")
        self.s = Scrollable(self.content, force_forward_keypress=bool(cfg.get("ffk", False)))
        if self.bar:
            self.top = ScrollBar(self.s, thumb_char=THUMB, trough_char=TROUGH, side=self.bar[0], width=self.bar[1])
        else:
            self.top = self.s
        self.canv = None
        self.version = 0  # bumped by content changes (key of the monotone table)
        self.changes = ()  # content-change events applied so far (key of _MEMO)
        self.rsizes, self.csizes, self.handled = [], [], []
        self._spy()
        self.prev = None  # last observation
        self.tops = {}  # (version, size) -> {p: set(a)}

    def _spy(self):
        # instance-level recorders (the class-level, cache-wrapped methods stay in use underneath)
        s_render, c_render = self.s.render, self.content.render

        def s_rec(size, focus=False):
            self.rsizes.append(tuple(size))
            return s_render(size, focus)

        def c_rec(size, focus=False):
            self.csizes.append(tuple(size))
            return c_render(size, focus)

        self.s.render, self.content.render = s_rec, c_rec
        if hasattr(self.content, "keypress"):
            c_key = self.content.keypress

            def k_rec(size, key):
                r = c_key(size, key)
                self.handled.append(("key", r is None))
                return r

            self.content.keypress = k_rec
        if hasattr(self.content, "mouse_event"):
            c_mouse = self.content.mouse_event

            def m_rec(size, event, button, col, row, focus):
                r = c_mouse(size, event, button, col, row, focus)
                self.handled.append(("mouse", bool(r)))
                return r

            self.content.mouse_event = m_rec

    def total_rows(self, width):
        """Rows of the full rendering at `width`. None of the events used here changes it except
        change_content, so it is memoised per (content, content changes so far, width) - see _MEMO."""
        k = ("rows", self.spec, self.changes, width)
        if k not in _MEMO:
            _MEMO[k] = len(self.full(width)[0])
        return _MEMO[k]

    # -- the wrapped widget's own full rendering (class-level render: not recorded by the spy)
    def full(self, cv):
        canv = type(self.content).render(self.content, () if self.fixed else (cv,), self.focus)
        rows, self.full_attrs = canvas_cells(canv)
        cur = canv.cursor
        return rows, (cur[1] if cur is not None else None)

    def apply(self, ev):
        c, h = self.size
        kind = ev[0]
        if kind == "key":
            self.top.keypress(self.size, ev[1])
        elif kind in ("wheel", "click"):
            col = self.bar[1] if self.bar and self.bar[0] == "left" else 0
            if kind == "wheel":
                self.top.mouse_event(self.size, "mouse press", ev[1], col, 0, True)
            else:
                self.top.mouse_event(self.size, "mouse press", 1, col, 0 if ev[1] == 0 else h - 1, True)
        elif kind == "pos":
            self.s.set_scrollpos(ev[1])
        elif kind == "resize":
            self.size = resized(self.size, ev[1], self.bar)
        elif kind == "content":
            change_content(self.content, self.spec, ev[1])
            self.version += 1
            self.changes += (ev[1],)
        else:
            raise ValueError(ev)

    def render(self):
        self.rsizes, self.csizes = [], []
        new = self.top.render(self.size, self.focus)  # previous top canvas still alive here, as in MainLoop
        self.canv = new
        return new


def resized(size, how, bar):
    c, h = size
    minc = (bar[1] if bar else 0) + 1  # precondition: the wrapped widget keeps at least one column
    if how == "h1":
        return (c, 1)
    if how == "h+":
        return (c, h + 1)
    if how == "h-":
        return (c, max(1, h - 1))
    if how == "c-":
        return (max(minc, c - 1), h)
    if how == "c+":
        return (c + 1, h)
    raise ValueError(how)


def run_history(cfg, hist, mode, accs, hid):
    """One history on a fresh world. mode: 'each' (render after every event), 'end' (initial render,
    events, one render), 'cold' (events before the first render)."""
    CanvasCache.clear()
    w = World(cfg)
    base = {"cfg": cfg, "history": [list(e) for e in hist], "mode": mode}
    step = 0
    try:
        if mode != "cold":
            w.render()
            observe(w, None, accs, (hid, 0), base | {"step": 0})
        for i, ev in enumerate(hist):
            step = i + 1
            w.handled = []
            w.apply(ev)
            if mode == "each" or i == len(hist) - 1:
                w.render()
                observe(w, ev if mode == "each" else None, accs, (hid, step), base | {"step": step})
        accs["C20/renders"].case((hid, "x"), True, None, nontrivial=False)
    except Exception as e:  # noqa: BLE001 - any exception from the code under test is a failure
        accs["C20/renders"].case(
            (hid, step, "exc"), False, base | {"step": step, "why": f"raised {type(e).__name__}: {e}", "size": list(w.size)}
        )
    finally:
        w.canv = None
        CanvasCache.clear()
    return w


def observe(w, ev, accs, key, base):
    c, h = w.size
    canv = w.canv
    rows, attrs = canvas_cells(canv)
    det = base | {"size": [c, h], "rows": rows}
    def sample():
        return {"content": list(w.spec), "size": [c, h], "bar": w.bar, "history": base["history"], "mode": base["mode"]}

    dims_ok = canv.cols() == c and canv.rows() == h and len(rows) == h and all(len(r) == c for r in rows)
    accs["C20/renders"].case(key, dims_ok, lambda: det | {"why": f"canvas is {canv.cols()}x{canv.rows()}, view is {c}x{h}"}, sample=sample)
    if not dims_ok:
        w.prev = None
        return
    # ---- bar columns
    drawn, parts, view, vattrs, bw = False, None, rows, attrs, 0
    if w.bar:
        side, bw = w.bar
        barcols = [r[:bw] if side == "left" else r[c - bw :] for r in rows]
        # content never contains THUMB / TROUGH characters, padding is blank: a column of these is the bar
        drawn = all(set(cell) <= {THUMB, TROUGH} for cell in barcols)
        if drawn:
            view = [r[bw:] if side == "left" else r[: c - bw] for r in rows]
            vattrs = [a[bw:] if side == "left" else a[: c - bw] for a in attrs]
            parts = parse_bar(barcols, bw)
    cv = c - bw if drawn else c
    full, cursor_row = w.full(cv)
    total = len(full)
    pmax = max(0, total - h)
    P = [p for p in range(pmax + 1) if expected_view(full, p, cv, h) == view]
    rep = w.s.get_scrollpos()
    fits = total <= h and all(len(r.rstrip()) <= cv for r in full)
    # "class": circumstances of a failure, for grouping only (never used to decide ok)
    det = det | {"full": full, "reported": rep, "candidates": P, "total": total, "class": "content-fits-view" if fits else "content-larger-than-view"}
    accs["C20/slice"].case(key, bool(P), lambda: det | {"why": "view is not rows [p,p+h) of the full rendering for any p in range"}, sample=sample)
    if P:
        # cell-exact incl. display attributes: among the positions at which the characters match
        fa = w.full_attrs
        PA = [p for p in P if expected_attrs(fa, p, cv, h) == [tuple(a) for a in vattrs]]
        accs["C20/slice-attrs"].case(
            key, bool(PA),
            lambda: det | {"view_attrs": [[repr(x) for x in a] for a in vattrs], "full_attrs": [[repr(x) for x in a] for a in fa],
                           "why": f"the characters are rows [p,p+h) for p in {P} but the display attributes / character sets of the cells are not those of that slice"},
            nontrivial=any(x != NOATTR for a in fa for x in a), sample=sample,
        )
    accs["C20/position"].case(
        key, rep in P, lambda: det | {"why": f"get_scrollpos()={rep} but the view shows p in {P}"}, nontrivial=bool(P), sample=sample
    )
    p = P[0] if len(P) == 1 else None
    # ---- ScrollBar clauses
    if w.bar:
        total_c = total if not drawn else w.total_rows(c)
        want = total_c > h
        accs["C20/bar-drawn"].case(
            key, drawn == want, lambda: det | {"why": f"bar drawn={drawn}, content has {total_c} rows at width {c}, view has {h}"}, sample=sample
        )
        if drawn:
            accs["C20/bar-parts"].case(key, parts is not None, lambda: det | {"why": "bar column is not trough* thumb* trough*"}, sample=sample)
            if parts is not None and P:
                a = parts[0]
                if P == [0]:
                    ok, nt = a == 0, True
                elif 0 not in P:
                    ok, nt = a > 0, True
                else:  # blank rows make the position ambiguous: either answer is acceptable
                    ok, nt = True, False
                accs["C20/thumb-top"].case(
                    key, ok, lambda: det | {"parts": parts, "why": f"trough above thumb={a} rows while first row in view={0 in P}"}, nontrivial=nt, sample=sample
                )
                if p is not None:
                    tab = w.tops.setdefault((w.version, c, h), {})
                    lower = max((max(v) for q, v in tab.items() if q < p), default=-1)
                    upper = min((min(v) for q, v in tab.items() if q > p), default=h + 1)
                    accs["C20/bar-monotone"].case(
                        key, lower <= a <= upper,
                        lambda: det | {"parts": parts, "why": f"a({p})={a}; seen a<= {lower} below and a>= {upper} above: {sorted((q, sorted(v)) for q, v in tab.items())}"},
                        sample=sample,
                    )
                    tab.setdefault(p, set()).add(a)
        wantsize = (c - bw, h) if drawn else (c, h)
        accs["C20/child-width"].case(
            key, all(sz == wantsize for sz in w.rsizes),
            lambda: det | {"why": f"Scrollable.render got {w.rsizes}, expected only {wantsize}"}, nontrivial=bool(w.rsizes), sample=sample,
        )
    wantc = () if w.fixed else (cv,)
    accs["C20/child-width"].case(
        (key, "c"), all(sz == wantc for sz in w.csizes),
        lambda: det | {"why": f"content.render got {w.csizes}, expected only {wantc}"}, nontrivial=bool(w.csizes), sample=sample,
    )
    # ---- movement clauses (render-after-every-event histories only)
    prev = w.prev
    w.prev = {"p": p, "h": h, "total": total, "fits": fits}
    if ev is None or prev is None or prev["p"] is None or p is None:
        return
    p_old = prev["p"]
    det = det | {"class": "after-content-fitted-view" if prev["fits"] else "content-larger-than-view-before"}

    def clamp(x):
        return max(0, min(pmax, x))

    handled = [x for x in w.handled if x[1]]
    if ev[0] in ("key", "wheel", "click") and handled:
        stay = p == clamp(p_old)
        follow = cursor_row is not None and not (p_old <= cursor_row < p_old + h) and (p <= cursor_row < p + h)
        accs["C20/handled-not-scrolled"].case(
            key, stay or follow,
            lambda: det | {"p_before": p_old, "p_after": p, "cursor_row": cursor_row, "why": f"{ev} was handled by the wrapped widget but p went {p_old} -> {p}"},
            nontrivial=pmax > 0, sample=sample,
        )
        return
    if w.content.selectable():
        return  # cursor following etc.: only the invariants above apply
    lo = hi = None
    if ev[0] == "key":
        k = ev[1]
        if k == "up":
            lo = hi = clamp(p_old - 1)
        elif k == "down":
            lo = hi = clamp(p_old + 1)
        elif k == "home":
            lo = hi = 0
        elif k == "end":
            lo = hi = pmax
        elif k == "page up":
            lo, hi = clamp(p_old - h), clamp(p_old - (1 if h > 1 else 0))
        elif k == "page down":
            lo, hi = clamp(p_old + (1 if h > 1 else 0)), clamp(p_old + h)
    elif ev[0] == "wheel":
        if w.bar:  # a bare Scrollable only forwards mouse events; ScrollBar turns the wheel into scrolling
            lo = hi = clamp(p_old + (1 if ev[1] == 5 else -1))
    elif ev[0] == "pos":
        k = ev[1]
        lo = hi = clamp(k if k >= 0 else total - h + k + 1)
    else:  # click on unhandling content, resize, content change: stay on the same row, clamped
        lo = hi = clamp(p_old)
    if lo is not None:
        accs["C20/scroll-moves"].case(
            key, lo <= p <= hi, lambda: det | {"p_before": p_old, "p_after": p, "why": f"{ev}: p went {p_old} -> {p}, expected {lo}..{hi} (max {pmax})"},
            nontrivial=pmax > 0, sample=sample,
        )


def sweep(cfg, accs, hid):
    """Exhaustive position sweep for one (content, size, bar): a(p) for every p, monotone."""
    CanvasCache.clear()
    try:
        w = World(cfg)
        c, h = w.size
        w.render()
        total = len(w.full(c - w.bar[1])[0])
        seq = []
        for p in range(max(0, total - h) + 1):
            w.s.set_scrollpos(p)
            w.render()
            rows = canvas_rows(w.canv)
            side, bw = w.bar
            parts = parse_bar([r[:bw] if side == "left" else r[c - bw :] for r in rows], bw)
            if parts is None:
                return  # not drawn / malformed: reported by the other checks
            seq.append((w.s.get_scrollpos(), parts[0]))
        ok = all(a1 <= a2 for (p1, a1), (p2, a2) in zip(seq, seq[1:]) if p1 < p2)
        accs["C20/bar-monotone"].case(
            (hid, "sweep"), ok, {"cfg": cfg, "sweep": True, "a_by_p": seq, "why": "thumb moved up while the position increased"},
            nontrivial=len(seq) > 1, sample={"cfg": cfg, "a_by_p": seq},
        )
    except Exception as e:  # noqa: BLE001
        accs["C20/renders"].case((hid, "sweep-exc"), False, {"cfg": cfg, "sweep": True, "why": f"raised {type(e).__name__}: {e}"})
    finally:
        CanvasCache.clear()


# ---------------------------------------------------------------------------------------------
# ListBox under ScrollBar
# ---------------------------------------------------------------------------------------------
def lb_items(n, two):
    """n items; item i is one row (a lower-case letter) or, for i in `two`, two rows (upper-case pair)."""
    out = []
    for i in range(n):
        out.append(f"{LETTERS[i].upper()}\n{LETTERS[i].upper()}{LETTERS[i].upper()}" if i in two else LETTERS[i])
    return out


class LBWorld:
    def __init__(self, cfg):
        self.cfg = cfg
        self.size = tuple(cfg["size"])
        self.bar = tuple(cfg["bar"])
        mk = urwid.SelectableIcon if cfg.get("selectable") else urwid.Text
        self.mk = mk
        self.walker = urwid.SimpleFocusListWalker([mk(t) for t in lb_items(cfg["n"], cfg["two"])])
        self.lb = urwid.ListBox(self.walker)
        self.top = ScrollBar(self.lb, thumb_char=THUMB, trough_char=TROUGH, side=self.bar[0], width=self.bar[1])
        self.canv = None
        self.version = 0
        self.rsizes = []
        lb_render = self.lb.render

        def rec(size, focus=False):
            self.rsizes.append(tuple(size))
            return lb_render(size, focus)

        self.lb.render = rec
        self.tops = {}
        self.extra = 0
        self.changes = ()  # content-change events applied so far (key of _MEMO)
        self.memo_key = (cfg["n"], tuple(cfg["two"]), bool(cfg.get("selectable")))

    def total_rows(self, width):
        return len(self.full(width))

    def items_rows(self, cv):
        """Rows of every item at width cv (list of lists of strings; treated as read-only). The items are
        Text / SelectableIcon widgets whose text never changes; the list of items changes only by the
        content events, so this is memoised per (items, content changes so far, width) - see _MEMO."""
        k = ("items", self.memo_key, self.changes, cv)
        if k not in _MEMO:
            _MEMO[k] = [canvas_rows(type(it).render(it, (cv,), False)) for it in self.walker]
        return _MEMO[k]

    def full(self, cv):
        return [r for item in self.items_rows(cv) for r in item]

    def apply(self, ev):
        c, h = self.size
        kind = ev[0]
        if kind == "key":
            self.top.keypress(self.size, ev[1])
        elif kind == "wheel":
            col = self.bar[1] if self.bar[0] == "left" else 0
            self.top.mouse_event(self.size, "mouse press", ev[1], col, 0, True)
        elif kind == "resize":
            self.size = resized(self.size, ev[1], self.bar)
        elif kind == "focus":
            if len(self.walker):
                self.lb.set_focus({"first": 0, "mid": len(self.walker) // 2, "last": len(self.walker) - 1}[ev[1]])
        elif kind == "content":
            self.version += 1
            self.changes += (ev[1],)
            if ev[1] == "append":
                self.walker.append(self.mk("zyxwvu"[self.extra % 6]))
                self.extra += 1
            elif len(self.walker):
                del self.walker[0]
        else:
            raise ValueError(ev)

    def render(self):
        self.rsizes = []
        new = self.top.render(self.size, True)
        self.canv = new


def lb_observe(w, accs, key, base):
    c, h = w.size
    canv = w.canv
    rows = canvas_rows(canv)
    det = base | {"size": [c, h], "rows": rows}
    def sample():
        return {"listbox": w.cfg, "history": base["history"]}

    dims_ok = canv.cols() == c and canv.rows() == h and len(rows) == h and all(len(r) == c for r in rows)
    accs["C20/renders"].case(key, dims_ok, lambda: det | {"why": f"canvas is {canv.cols()}x{canv.rows()}, view is {c}x{h}"}, sample=sample)
    if not dims_ok:
        return
    side, bw = w.bar
    barcols = [r[:bw] if side == "left" else r[c - bw :] for r in rows]
    drawn = all(set(cell) <= {THUMB, TROUGH} for cell in barcols)
    view = [r[bw:] if side == "left" else r[: c - bw] for r in rows] if drawn else rows
    cv = c - bw if drawn else c
    full = w.full(cv)
    total_c = len(full) if not drawn else w.total_rows(c)
    det = det | {"full": full, "class": "relative-scroll (items > 3*maxrow)" if len(w.walker) > 3 * h else "absolute-scroll"}
    accs["C20/listbox-bar-drawn"].case(
        key, drawn == (total_c > h), lambda: det | {"why": f"bar drawn={drawn}, items have {total_c} rows at width {c}, view has {h}"}, sample=sample
    )
    if w.rsizes:
        want = (c - bw, h) if drawn else (c, h)
        accs["C20/listbox-child-width"].case(
            key, all(sz == want for sz in w.rsizes), lambda: det | {"why": f"ListBox.render got {w.rsizes}, expected only {want}"}, sample=sample
        )
    if not drawn:
        return
    parts = parse_bar(barcols, bw)
    accs["C20/listbox-bar-parts"].case(key, parts is not None, lambda: det | {"why": "bar column is not trough* thumb* trough*"}, sample=sample)
    if parts is None or not full:
        return
    # every item row carries a distinct letter pattern, so the first view row identifies the position
    cands = [i for i, r in enumerate(full) if r[:cv].ljust(cv) == view[0]]
    if len(cands) != 1:
        return
    p, a = cands[0], parts[0]
    # circumstances recorded for known-finding matching only (never used to decide ok): whether the ListBox's
    # own criterion for item-granular ("relative") scrolling holds for the size ScrollBar passes to it, and how
    # many rows the current first item has (a position inside the first item has 0 < p < first_item_rows)
    first_item_rows = len(w.items_rows(cv)[0])
    # the grouping class is refined for the same reason: only PER_CLASS failures of one class are kept, so the
    # known item-granular case (view starts inside a multi-row first item) must not crowd out any other
    # thumb-top failure of the relative-scroll branch
    inside_first = len(w.walker) > 3 * h and a == 0 and 0 < p < first_item_rows
    accs["C20/listbox-thumb-top"].case(
        key, (a == 0) == (p == 0),
        lambda: det | {"parts": parts, "first_visible_row": p, "relative_scroll": len(w.walker) > 3 * h, "first_item_rows": first_item_rows,
                       "class": det["class"] + (", thumb at top while the view starts inside the first item" if inside_first else ""),
                       "why": f"trough above thumb={a} rows while the view starts at content row {p}"}, sample=sample,
    )
    tab = w.tops.setdefault((w.version, c, h), {})
    lower = max((max(v) for q, v in tab.items() if q < p), default=-1)
    upper = min((min(v) for q, v in tab.items() if q > p), default=h + 1)
    accs["C20/listbox-bar-monotone"].case(
        key, lower <= a <= upper,
        lambda: det | {"parts": parts, "first_visible_row": p, "why": f"a({p})={a}; seen {sorted((q, sorted(v)) for q, v in tab.items())}"}, sample=sample,
    )
    tab.setdefault(p, set()).add(a)


def lb_history(cfg, hist, accs, hid):
    CanvasCache.clear()
    w = LBWorld(cfg)
    base = {"cfg": cfg, "history": [list(e) for e in hist], "listbox": True}
    step = 0
    try:
        w.render()
        lb_observe(w, accs, (hid, 0), base | {"step": 0})
        for i, ev in enumerate(hist):
            step = i + 1
            w.apply(ev)
            w.render()
            lb_observe(w, accs, (hid, step), base | {"step": step})
    except Exception as e:  # noqa: BLE001
        accs["C20/renders"].case((hid, step, "exc"), False, base | {"step": step, "why": f"raised {type(e).__name__}: {e}", "size": list(w.size)})
    finally:
        w.canv = None
        CanvasCache.clear()


# ---------------------------------------------------------------------------------------------
# scopes
# ---------------------------------------------------------------------------------------------
ALLKEYS = frozenset(KEYS)
CONTENTS_QUICK = [
    ("text", "T3"), ("text", "T8"), ("text", "TW"),
    ("pile", "mixed"), ("pile", "empty"),
    ("fixed", 2, 8), ("fixed", 8, 5),
    ("grab", 8, ("up", "page down", "end"), (4,)),
]
CONTENTS_MORE = [
    ("text", "T1"), ("text", "TS"), ("text", "TB"), ("fixed", 4, 3),
    ("grab", 8, tuple(KEYS), (4, 5)), ("grab", 3, tuple(KEYS), (1, 4, 5)),
]


def alphabet(tier, bar):
    pos = (-9, -2, -1, 0, 3, 9) if tier == "quick" else tuple(range(-9, 10))
    evs = [("key", k) for k in KEYS]
    evs += [("wheel", 4), ("wheel", 5), ("click", 0)] + ([] if tier == "quick" else [("click", 1)])
    evs += [("pos", k) for k in pos]
    evs += [("resize", r) for r in ("h1", "h+", "h-", "c-", "c+")]
    evs += [("content", "short"), ("content", "long")]
    return evs


QUICK_SIZES = [(3, 1), (3, 3), (6, 1), (6, 2), (6, 3), (6, 6)]
# length-3 histories: exhaustive over a core alphabet on a few configurations
ALPHA3 = {
    "quick": [("key", "up"), ("key", "down"), ("key", "end"), ("pos", -1), ("pos", 9), ("resize", "h-"), ("resize", "h+"), ("content", "short"), ("content", "long")],
    "thorough": [("key", k) for k in KEYS]
    + [("wheel", 4), ("wheel", 5), ("pos", -1), ("pos", 0), ("pos", 9), ("resize", "h-"), ("resize", "h+"), ("resize", "c-"), ("content", "short"), ("content", "long")],
}
LEN3_CONTENTS = [("text", "T8"), ("text", "TW"), ("pile", "mixed"), ("fixed", 2, 8)]
LEN3_SIZES = {"quick": [(6, 3)], "thorough": [(3, 3), (6, 2), (6, 3)]}


def len3_configs(tier):
    return [
        {"content": list(content), "size": list(size), "bar": list(bar) if bar else None, "ffk": False}
        for content in LEN3_CONTENTS
        for size in LEN3_SIZES["quick" if tier == "quick" else "thorough"]
        for bar in (None, ("right", 1), ("left", 2))
    ]


def scroll_configs(tier):
    contents = CONTENTS_QUICK + (CONTENTS_MORE if tier != "quick" else [])
    if tier == "quick":
        sizes = QUICK_SIZES
        bars = [None, ("right", 1), ("left", 2)]
    else:
        sizes = [(c, h) for c in (3, 4, 6) for h in (1, 2, 3, 6)]
        bars = [None, ("right", 1), ("left", 1), ("right", 2), ("left", 2)]
    out = []
    for content in contents:
        for size in sizes:
            for bar in bars:
                if bar and size[0] <= bar[1]:
                    continue
                ffks = (False, True) if content[0] in ("pile", "grab") and content[1] != "empty" else (False,)
                for ffk in ffks:
                    out.append({"content": list(content), "size": list(size), "bar": list(bar) if bar else None, "ffk": ffk})
    if tier != "quick":
        # rendered without focus (e.g. the Scrollable sits in an unfocused column): no cursor in the content
        for content in (("text", "T8"), ("pile", "mixed")):
            for size in sizes:
                for bar in (None, ("right", 1)):
                    out.append({"content": list(content), "size": list(size), "bar": list(bar) if bar else None, "ffk": False, "focus": False})
    return out


STRUCT_SIZES = {"quick": [(8, 1), (8, 3), (8, 5), (7, 2)], "thorough": [(8, 1), (8, 2), (8, 3), (8, 5), (8, 8), (7, 2), (9, 4), (12, 3)]}


# quick tier: the plain variants on every size and bar; the costlier ones (a render of the LineBox / ListBox / nested
# Scrollable content takes 2-4 times longer) on the sizes that cut inside and across their row groups
STRUCT_QUICK_FEWER = {
    "lbadapt": [((8, 3), None), ((8, 3), ("right", 1)), ((8, 5), None), ((8, 5), ("right", 1))],
    "nscroll": [((8, 3), None), ((8, 3), ("right", 1)), ((8, 5), None), ((8, 5), ("right", 1))],
    "lbox": [((8, 3), None), ((8, 3), ("left", 2)), ((7, 2), None)],
    "nest": [((8, 1), None), ((8, 3), None), ((8, 3), ("left", 2)), ((8, 5), ("right", 1)), ((7, 2), None), ((7, 2), ("right", 1))],
    "sel": [((8, 1), ("right", 1)), ((8, 3), None), ((8, 3), ("right", 1)), ((8, 5), None), ((7, 2), None), ((7, 2), ("left", 2))],
}


def struct_configs(tier):
    """Structured (multi-shard) contents; widths >= 7 so that after two 'c-' resizes and a 2-column bar every column of
    the content still has a cell (narrower Columns are the wrapped widget's own business, not the Scrollable's)."""
    out = []
    for name in STRUCTS:
        combos = [(size, bar) for size in STRUCT_SIZES["quick" if tier == "quick" else "thorough"] for bar in (None, ("right", 1), ("left", 2))]
        if tier == "quick" and name in STRUCT_QUICK_FEWER:
            combos = STRUCT_QUICK_FEWER[name]
        for size, bar in combos:
            out.append({"content": ["struct", name], "size": list(size), "bar": list(bar) if bar else None, "ffk": False})
    return out


STRUCT_FOLLOW = (
    [("key", k) for k in KEYS]
    + [("wheel", 4), ("wheel", 5)]
    + [("resize", r) for r in ("h1", "h+", "h-", "c-", "c+")]
    + [("content", "short"), ("content", "long")]
)


def struct_histories(cfg):
    """Every scroll position of the content, reached by set_scrollpos, by keys, by the wheel and after resizes.
    -> list of (history, mode)."""
    CanvasCache.clear()
    w = World(cfg)
    c, h = w.size
    try:
        total = max(len(w.full(c)[0]), len(w.full(max(1, c - (w.bar[1] if w.bar else 0)))[0]))
    except Exception:  # noqa: BLE001 - reported by run_history (C20/renders) for every history below
        total = 12
    CanvasCache.clear()
    pmax = max(0, total - h)
    out = [((), "each")]
    for k in range(-total - 1, total + 2):  # every explicit position, positive and bottom-relative, in and out of range
        out.append(((("pos", k),), "each"))
        out.append(((("pos", k),), "cold"))
    for ev in STRUCT_FOLLOW + [("click", 0)]:
        out.append(((ev,), "each"))
    for k in range(0, total + 1):  # every position followed by every key / wheel / resize / content change
        for ev in STRUCT_FOLLOW:
            out.append(((("pos", k), ev), "each"))
            if ev[0] in ("resize", "content"):
                out.append(((("pos", k), ev), "end"))
        # the same position through a chain of resizes
        out.append(((("pos", k), ("resize", "h+"), ("resize", "c-"), ("resize", "h-"), ("resize", "h-"), ("resize", "c+")), "each"))
    # walks through the whole content: line keys, wheel, page keys; down again after a resize in the middle
    n = pmax + 1
    out.append(((("key", "down"),) * n + (("key", "up"),) * n, "each"))
    out.append(((("wheel", 5),) * n + (("wheel", 4),) * n, "each"))
    out.append(((("key", "page down"),) * n + (("key", "page up"),) * n, "each"))
    out.append(((("key", "end"),) + (("key", "up"),) * n, "each"))
    out.append(((("key", "down"),) * (n // 2) + (("resize", "h-"),) + (("key", "down"),) * n, "each"))
    out.append(((("key", "down"),) * (n // 2) + (("resize", "c-"),) + (("key", "down"),) * n + (("resize", "h+"),) + (("key", "up"),) * n, "each"))
    return out


FSTRUCT_HEIGHTS = {"quick": (1, 2, 3, 4, 5), "thorough": (1, 2, 3, 4, 5, 6, 9, 13)}


def fstruct_configs(tier):
    """Fixed structured contents wider than the view: every width class of FSTRUCT_WIDTHS x every height; without a bar,
    and with a bar at the widths where the bar leaves the Scrollable exactly / one more than the first column."""
    quick = tier == "quick"
    out = []
    for name in FSTRUCTS:
        _full, widths = FSTRUCT_WIDTHS[name]
        for h in FSTRUCT_HEIGHTS["quick" if quick else "thorough"]:
            for c in widths:
                out.append({"content": ["fstruct", name], "size": [c, h], "bar": None, "ffk": False})
            bars = [("right", 1), ("left", 2)] if not quick else [("right", 1)] if h % 2 else [("left", 2)]
            for bar in bars:
                for c in (widths[1] + bar[1], widths[2] + bar[1]) if quick else [x + bar[1] for x in widths]:
                    out.append({"content": ["fstruct", name], "size": [c, h], "bar": list(bar), "ffk": False})
    return out


FSTRUCT_FOLLOW = [("resize", r) for r in ("h+", "h-", "c-", "c+")] + [("content", "short"), ("content", "long")]


def fstruct_histories(cfg, tier):
    """Every scroll position of the fixed content: by set_scrollpos (warm, cold), followed by every resize and content
    change, and walked through by keys, wheel and page keys.  -> list of (history, mode)."""
    if tier != "quick":
        return struct_histories(cfg)
    CanvasCache.clear()
    w = World(cfg)
    c, h = w.size
    total = len(w.full(c)[0])
    CanvasCache.clear()
    n = max(0, total - h) + 1
    out = [((), "each")]
    for k in range(-total - 1, total + 2):
        out.append(((("pos", k),), "each"))
        if k >= -1:
            out.append(((("pos", k),), "cold"))
    for k in range(0, n + 1):
        for ev in FSTRUCT_FOLLOW:
            out.append(((("pos", k), ev), "each" if (k + len(ev[1])) % 2 else "end"))
    out.append(((("key", "down"),) * n + (("key", "up"),) * n, "each"))
    out.append(((("wheel", 5),) * n + (("wheel", 4),) * n, "each"))
    out.append(((("key", "page down"),) * n + (("key", "page up"),) * n, "each"))
    out.append(((("key", "end"),) + (("key", "up"),) * (n // 2) + (("resize", "c-"),) + (("key", "up"),) * n + (("key", "home"),), "each"))
    out.append(((("key", "down"),) * (n // 2) + (("resize", "h+"),) + (("key", "down"),) * n + (("resize", "c+"),) + (("key", "up"),) * n, "each"))
    return out


def lb_configs(tier):
    out = []
    ns = (0, 3, 5, 8) if tier == "quick" else (0, 1, 3, 5, 8, 12)
    for n in ns:
        twos = [[], [0], [1, n - 1]] if n >= 3 else [[]]
        for two in twos:
            for size in [(c, h) for c in ((4,) if tier == "quick" else (3, 5)) for h in (1, 2, 3)]:
                combos = [(("right", 1), False), (("left", 2), True)]
                if tier != "quick":
                    combos += [(("right", 1), True), (("left", 2), False)]
                for bar, sel in combos:
                    out.append({"n": n, "two": two, "size": list(size), "bar": list(bar), "selectable": sel})
    return out


LB_EVENTS = (
    [("key", k) for k in KEYS]
    + [("wheel", 4), ("wheel", 5)]
    + [("resize", r) for r in ("h1", "h+", "h-", "c-", "c+")]
    + [("focus", f) for f in ("first", "mid", "last")]
    + [("content", "append"), ("content", "delfirst")]
)


def _work(job):
    kind, idx, cfg, tier, extra = job
    accs = new_accs()
    _MEMO.clear()
    if kind == "scroll":
        evs = alphabet(tier, cfg["bar"])
        maxlen = extra["maxlen"]
        n = 0
        for ln in range(maxlen + 1):
            for hist in itertools.product(evs, repeat=ln):
                run_history(cfg, hist, "each", accs, (idx, n))
                n += 1
                if ln == 2 and extra["modes"]:
                    run_history(cfg, hist, "end", accs, (idx, n, "end"))
                    run_history(cfg, hist, "cold", accs, (idx, n, "cold"))
        for j, hist in enumerate(extra.get("random", ())):
            run_history(cfg, hist, "each", accs, (idx, "r", j))
        if cfg["bar"]:
            sweep(cfg, accs, idx)
    elif kind == "struct":
        for j, (hist, mode) in enumerate(struct_histories(cfg)):
            run_history(cfg, hist, mode, accs, (idx, "s", j))
        for j, hist in enumerate(extra.get("random", ())):
            run_history(cfg, hist, "each", accs, (idx, "r", j))
        if cfg["bar"]:
            sweep(cfg, accs, idx)
    elif kind == "fstruct":
        for j, (hist, mode) in enumerate(fstruct_histories(cfg, tier)):
            run_history(cfg, hist, mode, accs, (idx, "f", j))
        for j, hist in enumerate(extra.get("random", ())):
            run_history(cfg, hist, "each", accs, (idx, "r", j))
        if cfg["bar"]:
            sweep(cfg, accs, idx)
    elif kind == "scroll3":
        for j, hist in enumerate(itertools.product(ALPHA3["quick" if tier == "quick" else "thorough"], repeat=3)):
            run_history(cfg, hist, "each", accs, (idx, "3", j))
    else:
        n = 0
        for ln in range(extra["maxlen"] + 1):
            for hist in itertools.product(LB_EVENTS, repeat=ln):
                lb_history(cfg, hist, accs, (idx, n))
                n += 1
        for j, hist in enumerate(extra.get("random", ())):
            lb_history(cfg, hist, accs, (idx, "r", j))
    return {k: (a.evaluations, a.distinct, a.failures, a.samples, a.classes) for k, a in accs.items()}


def run(tier="quick", seed=0):
    t0 = time.time()
    quick = tier == "quick"
    r = rng(seed)
    jobs = []
    scfgs = scroll_configs(tier)
    for i, cfg in enumerate(scfgs):
        evs = alphabet(tier, cfg["bar"])
        nrand = 0 if quick else 100
        rand = [tuple(r.choice(evs) for _ in range(r.randint(4, 6))) for _ in range(nrand)]
        # length 3 exhaustively over the whole alphabet is too large for every config: the whole alphabet is
        # used at length <= 2, a core alphabet at length 3 on a few configs (scroll3 jobs), and in the
        # thorough tier seeded random histories of length 4..6 on top
        jobs.append(("scroll", i, cfg, tier, {"maxlen": 2, "modes": i % (8 if quick else 4) == 0, "random": rand}))
    c3 = len3_configs(tier)
    for i, cfg in enumerate(c3):
        jobs.append(("scroll3", 100000 + i, cfg, tier, {}))
    stcfgs = struct_configs(tier)
    for i, cfg in enumerate(stcfgs):
        nrand = 0 if quick else 60
        evs = alphabet(tier, cfg["bar"])
        rand = [tuple(r.choice(evs) for _ in range(r.randint(3, 6))) for _ in range(nrand)]
        jobs.append(("struct", 300000 + i, cfg, tier, {"random": rand}))
    fcfgs = fstruct_configs(tier)
    for i, cfg in enumerate(fcfgs):
        nrand = 0 if quick else 40
        evs = alphabet(tier, cfg["bar"])
        rand = [tuple(r.choice(evs) for _ in range(r.randint(3, 6))) for _ in range(nrand)]
        jobs.append(("fstruct", 400000 + i, cfg, tier, {"random": rand}))
    lcfgs = lb_configs(tier)
    for i, cfg in enumerate(lcfgs):
        nrand = 0 if quick else 100
        rand = [tuple(r.choice(LB_EVENTS) for _ in range(r.randint(3, 5))) for _ in range(nrand)]
        jobs.append(("lb", 200000 + i, cfg, tier, {"maxlen": 2, "random": rand}))
    # heavy jobs first so that the pool drains evenly (results are re-ordered by pool.map)
    order = sorted(range(len(jobs)), key=lambda j: (jobs[j][0] != "scroll3", jobs[j][2].get("content", [""])[0] != "pile"))
    jobs = [jobs[j] for j in order]
    try:  # no global urwid state is changed (ASCII content, default command map); only the canvas cache is used
        ctx = multiprocessing.get_context("fork")
        with ctx.Pool(processes=min(16, multiprocessing.cpu_count())) as pool:
            parts = pool.map(_work, jobs, chunksize=1)
    finally:
        CanvasCache.clear()
    nalpha = len(alphabet(tier, None))
    bound = (
        f"{len(scfgs)} Scrollable configs (contents: Text/Pile(mixed, empty)/fixed block/key-grabbing flow widget, <= 9 rows; "
        f"views {QUICK_SIZES if quick else '{3,4,6}x{1,2,3,6}'}; no bar / bar width 1-2 left/right; force_forward_keypress both{'' if quick else '; focus=False renders'}) x all histories "
        f"of length <= 2 over {nalpha} events (6 keys, wheel up/down, {1 if quick else 2} clicks, set_scrollpos {'{-9,-2,-1,0,3,9}' if quick else '-9..9'}, 5 resizes, 2 content changes), "
        f"render after every event (+ render-at-end and no-initial-render variants on every {8 if quick else 4}th config); "
        f"all length-3 histories over {len(ALPHA3['quick' if quick else 'thorough'])} core events on {len(c3)} configs; "
        f"{'' if quick else '100 seeded random histories of length 4-6 per config; '}"
        f"{len(stcfgs)} structured-content configs (multi-shard canvases with views spanning shard boundaries and per-column display attributes: {', '.join(STRUCTS)}; "
        f"views {STRUCT_SIZES['quick' if quick else 'thorough']}; no bar / right 1 / left 2{' (nest, sel: 6 of these combinations, lbadapt, nscroll: 4, lbox: 3)' if quick else ''}) x [set_scrollpos(k) for every k in -total-1..total+1 warm and cold, every position 0..total followed by each of "
        f"{len(STRUCT_FOLLOW)} events (keys, wheel, resizes, content changes) and by a chain of 5 resizes, full walks by down/up, wheel, page keys, end+up, walks interrupted by resizes"
        f"{'' if quick else ', 60 random histories of length 3-6'}]; "
        f"{len(fcfgs)} fixed structured-content configs (FIXED-only widgets wider than the view, several columns with different vertical splits: {', '.join(FSTRUCTS)}; "
        f"view widths inside the first column / the first column exactly / part of the next / the whole content / wider, heights {FSTRUCT_HEIGHTS['quick' if quick else 'thorough']}; no bar{' / right 1 or left 2 at two widths' if quick else ' / right 1 / left 2'}) x "
        f"{'[set_scrollpos(k) for every k in -total-1..total+1 warm and (k >= -1) cold, every position followed by each of 4 resizes and 2 content changes, full walks by down/up, wheel, page keys, walks interrupted by resizes]' if quick else '[the structured-content histories + 40 random histories of length 3-6]'}; "
        f"{len(lcfgs)} ListBox-under-ScrollBar configs (<= {8 if quick else 12} items of 1-2 rows) x histories of length <= 2 over {len(LB_EVENTS)} events"
        f"{'' if quick else ' + 100 random histories of length 3-5'}; view width > bar width"
    )
    checks = []
    for name, rule in RULES.items():
        chk = Check(name, rule, exhaustive=quick, bound=bound)
        chk.t0 = t0
        n = 0
        classes, kept = {}, {}
        for part in parts:
            ev, di, fails, samples, cls = part[name]
            chk.evaluations += ev
            n += di
            for k, v in cls.items():
                classes[k] = classes.get(k, 0) + v
            for f in fails:
                k = (f or {}).get("class", "-")
                kept[k] = kept.get(k, 0) + 1
                if kept[k] <= Acc.PER_CLASS and len(chk.failures) < 20:
                    chk.failures.append(f)
            for s in samples:
                if len(chk.samples) < 3:
                    chk.samples.append(s)
        chk.nontrivial = range(n)
        res = chk.result()
        res["failing_evaluations_by_class"] = classes  # all failing evaluations, not only the <= 20 kept
        checks.append(res)
    return {"checks": checks, "bound": bound}


def replay(check_name, case):
    """Re-run the one history (or sweep) recorded in a failure detail and report whether `check_name`
    fails again at the recorded step."""
    accs = new_accs()
    _MEMO.clear()
    cfg = case["cfg"]
    if case.get("sweep"):
        sweep(cfg, accs, 0)
    elif case.get("listbox"):
        lb_history(cfg, [tuple(e) for e in case["history"]], accs, 0)
    else:
        hist = [tuple(tuple(x) if isinstance(x, list) else x for x in e) for e in case["history"]]
        run_history(cfg, hist, case.get("mode", "each"), accs, 0)
    fails = accs[check_name].failures
    same = [f for f in fails if f.get("step") == case.get("step")] or fails
    if same:
        return {"outcome": "confirmed", "detail": same[0]}
    return {"outcome": "not-reproduced", "detail": {"evaluations": accs[check_name].evaluations}}
