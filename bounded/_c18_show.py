import sys, json, time
import bounded.C18 as b
t=time.time()
r=b.run(sys.argv[1], int(sys.argv[2]) if len(sys.argv)>2 else 0)
for c in r['checks']:
    print(c['name'], 'evals', c['evaluations'], 'distinct', c['distinct_nontrivial'], 'failing', c.get('failing_cases'), 'wall', c['wall_s'])
    for k in c.get('failure_classes', [])[:12]:
        print('     %6d  %s   e.g. %s' % (k['count'], k['class'], k['first']))
    if 'failure_classes' not in c:
        for f in c['failures'][:5]: print('    ', f.get('repro'), f.get('why'))
print(r['bound'])
print('total', round(time.time()-t,1))
json.dump(r, open('/tmp/c18_%s.json' % sys.argv[1], 'w'), default=repr)
