"""C11 bounded stand-in: screen-width arithmetic is consistent for text in every encoding.

The real `urwid.str_util` / `urwid.util` functions are run on exhaustively enumerated small scopes and
judged by a reference model written from the property statement (spec/strwidth.py): a text is a
sequence of characters with start/end offsets and column widths; widths of the enumerated characters
are fixed by class in this file (the model asks neither urwid nor wcwidth).

Checks (one per clause, so one red clause does not hide the others)
  C11/char-width-tables          all 0x110000 code points: get_char_width / get_width vs the range tables
  C11/char-width-ucd-anchor      the same sweep vs CPython's own unicodedata where versions cannot differ
  C11/utf8-every-scalar          every scalar value's UTF-8 form: decode_one, decode_one_right, calc_width,
                                 is_wide_char, move_next/prev_char, calc_text_pos on the bytes
  C11/wide-codec-sweep           every wide (W/F) BMP character in euc-jp/euc-kr/gb2312/gbk/big5 that the codec
                                 writes in two bytes is one two-column character for urwid's wide mode
  C11/width-additive             calc_width = model width for every boundary pair; additive over boundaries
  C11/offset-search              calc_text_pos / calc_string_text_pos = the model's unique answer
  C11/next-prev-char             move_next_char = next boundary; move_prev_char of it = the start
  C11/wide-char-test             is_wide_char, within_double_byte
  C11/trim                       calc_trim_text: slice on boundaries, the characters wholly inside, flags, total
  C11/trim-attr-cs               trim_text_attr_cs: text/attr/cs lengths agree and width = requested
  C11/str-bytes-agree            the str and the bytes form of the same characters give the same answers
  C11/invalid-utf8/no-exception  ill-formed UTF-8: nothing raises
  C11/invalid-utf8/decode-one    decode_one = the strict reading (well-formed -> scalar, else '?' one byte)
  C11/invalid-utf8/functions-agree  ill-formed UTF-8: the functions agree *with each other* (no reference
                                 segmentation is imposed; see below)
  C11/invalid-double-byte/no-exception, .../functions-agree   the same for wide mode (lone lead bytes ...)
  C11/apply-target-encoding      DEC graphics -> alternate-charset byte with a "0" run; run lengths = length; under
                                 every ordered pair / triple of set_encoding calls (the encoding state is process-global:
                                 the answer must depend on the LAST encoding only)
  C11/run-total-with-shift-controls  texts containing SO / SI themselves: run lengths total = encoded length, nothing raises
  C11/encoded-width              a str and its apply_target_encoding form are equally wide; every run (1..4, every width
                                 class, mixed) of characters the target encoding lacks keeps its width
  C11/encoding-switch            byte mode and output codec after every such sequence = those documented for the last

Oracle decisions
  * "agree with the Unicode width tables": the tables are the range tables shipped with wcwidth (what
    DESIGN.md names); controls (wcwidth -1) and NUL take no column. A second anchor from CPython's
    unicodedata speaks only where Unicode versions and policies cannot differ (see spec.ucd_anchor).
  * offset search: the statement's "never inside a character nor beyond the column" plus the function's
    documented purpose ("closest position to the column") give a unique answer -- the last boundary
    whose column does not exceed the target -- and the check demands exactly that.
  * trim: precondition 0 <= start_col < end_col <= width of the range (DESIGN.md: the first guess without
    start_col < end_col was a false alarm). Zero-width characters at a cut are left free.
  * newline/control characters have no display width in the tables. As str and as UTF-8 bytes urwid gives
    them 0 columns and the model does too; as narrow/wide bytes urwid counts one column per byte, so
    controls are not in the narrow/wide alphabets (nothing to agree with). Noted, not judged.
  * wide mode is codec-agnostic in urwid; the model (spec.seg_dbcs) is the union of the EUC/Big5/GBK/UHC
    two-byte forms. EUC-JP single-shift sequences (half-width kana 8E xx: 2 bytes 1 column; JIS X 0212
    8F xx xx: 3 bytes) are outside what util.set_encoding documents ("JISX 0208 only"); they are counted
    in C11/wide-codec-sweep's notes, not judged.
  * apply_target_encoding: what stands in for a character the target encoding lacks is not fixed by the
    statement; urwid writes one "?" per screen column (util._replace_keep_width). Any run of "?" tagged
    None is accepted there and its length only noted (the first oracle demanded the codec's single "?").
  * ill-formed UTF-8: the statement does not say how many characters an ill-formed byte run is, so
    `functions-agree` imposes no segmentation: every offset returned by the offset search must be a
    boundary of the move_next_char chain, move_prev_char must undo move_next_char, the search's column
    must equal calc_width, results must stay inside [start, end]. `decode-one` separately holds
    DESIGN.md's contract for decode_one (strict Table 3-7 reading; ordinal is a scalar value).

Red on the tree at /repo 817e4e5 (kept red, reported, not hidden):
  * invalid-utf8/functions-agree: move_next_char/move_prev_char skip continuation bytes (b"a\\x80" is one
    step) while decode_one/calc_text_pos/calc_width count every stray byte as a one-column '?'.
  * invalid-utf8/decode-one: ED A0..BF xx is returned as a surrogate "character" of 3 bytes.
  * invalid-double-byte/functions-agree: wide mode, a lone lead byte at the end (move_next_char = end+1)
    and a lead followed by a non-trail byte (next skips it, prev and the offset search do not).
  DESIGN.md 7-h (ordinals > 0x10FFFF -> ValueError from chr(); move_prev_char IndexError) is fixed in
  /repo (e4f3267, 817e4e5); with the pre-fix functions patched in, invalid-utf8/no-exception and
  invalid-utf8/decode-one ("ordinal > 0x10FFFF") go red, so the harness sees them.

Execution: the work is cut into independent tasks (plan()), run in a fork pool (<= 8 processes; C11_PROCS=1
or run(..., procs=1) for one process) and merged in task order, so results are identical either way.
thorough adds seeded random texts of 6..10 characters (C11/random-long/*, not exhaustive).
"""
from __future__ import annotations

import itertools
import time
import warnings

from urwid import str_util, util
from urwid.display import escape

from bounded.common import Check, rng
from spec import strwidth as R

BIG = 10**6


# ---------------------------------------------------------------------------------------------
# collector: per-category failure retention and a summary


class C(Check):
    def __init__(self, name, rule, exhaustive=True, bound=""):
        super().__init__(name, rule, exhaustive, bound)
        self.by_cat = {}
        self.failed = 0
        self.notes = {}
        self.distinct_extra = 0  # distinct cases counted without keeping a key each (the million-case sweeps)

    def passed(self, key, n=1, sample=None):
        self.evaluations += n
        self.nontrivial.add(key)
        if sample is not None and len(self.samples) < 3:
            self.samples.append(sample)

    def fail(self, key, detail):
        self.evaluations += 1
        self.nontrivial.add(key)
        self.failed += 1
        cat = detail.get("cat") or detail.get("why", "?")
        k = self.by_cat.get(cat, 0)
        self.by_cat[cat] = k + 1
        if k < 3 and len(self.failures) < 24:
            self.failures.append(detail)

    def state(self):
        return {k: getattr(self, k) for k in ("evaluations", "nontrivial", "failures", "samples", "by_cat", "failed", "notes", "distinct_extra")}

    def merge(self, st):
        self.evaluations += st["evaluations"]
        self.nontrivial |= st["nontrivial"]
        self.failed += st["failed"]
        self.distinct_extra += st["distinct_extra"]
        kept = {}
        for f in self.failures:
            c = f.get("cat") or f.get("why", "?")
            kept[c] = kept.get(c, 0) + 1
        for f in st["failures"]:
            c = f.get("cat") or f.get("why", "?")
            if kept.get(c, 0) < 3 and len(self.failures) < 24:
                self.failures.append(f)
                kept[c] = kept.get(c, 0) + 1
        for c, n in st["by_cat"].items():
            self.by_cat[c] = self.by_cat.get(c, 0) + n
        for x in st["samples"]:
            if len(self.samples) < 3:
                self.samples.append(x)
        _merge_notes(self.notes, st["notes"])

    def result(self):
        r = super().result()
        r["distinct_nontrivial"] += self.distinct_extra
        r["failed_evaluations"] = self.failed
        r["failure_summary"] = dict(sorted(self.by_cat.items(), key=lambda kv: -kv[1]))
        if self.notes:
            r["notes"] = self.notes
        return r


def _merge_notes(dst, src):
    for k, v in src.items():
        if isinstance(v, dict):
            _merge_notes(dst.setdefault(k, {}), v)
        elif isinstance(v, int) and isinstance(dst.get(k), int):
            dst[k] += v
        else:
            dst[k] = v


class Enc:
    """Switch urwid's process-global encoding state; restore it exactly."""

    def __enter__(self):
        self.saved = (str_util.get_byte_encoding(), util._target_encoding, util._use_dec_special)
        return self

    def __exit__(self, *exc):
        str_util.set_byte_encoding(self.saved[0])
        util._target_encoding = self.saved[1]
        util._use_dec_special = self.saved[2]
        return False


def tx(text):
    """JSON-able form of a text (a str with lone surrogates -- not writable as UTF-8 -- as its code points)"""
    if isinstance(text, bytes):
        return {"bytes_hex": text.hex()}
    if any(0xD800 <= ord(c) <= 0xDFFF for c in text):
        return {"codepoints": [ord(c) for c in text]}
    return {"str": text}


def untx(d):
    if "codepoints" in d:
        return "".join(chr(c) for c in d["codepoints"])
    return bytes.fromhex(d["bytes_hex"]) if "bytes_hex" in d else d["str"]


def jl(x):
    return list(x) if isinstance(x, tuple) else x


# ---------------------------------------------------------------------------------------------
# alphabets: (character, column width by class)

UTF8_ALPHA = (("a", 1), ("\xe9", 1), ("中", 2), ("́", 0), ("\U0001f600", 2), ("\n", 0), (" ", 1))
EUCJP_ALPHA = (("a", 1), (" ", 1), ("@", 1), ("中", 2), ("あ", 2))  # C3E6, A4A2
BIG5_ALPHA = (("a", 1), ("~", 1), ("中", 2), ("功", 2), ("一", 2))  # A4A4, A55C, A440
GBK_ALPHA = (("a", 1), ("中", 2), ("丂", 2), ("亐", 2), ("亊", 2))  # D6D0, 8140, 8180, 817E
EUCKR_ALPHA = (("a", 1), (" ", 1), ("한", 2))  # C7D1
LATIN1_ALPHA = (("a", 1), ("\xe9", 1), (" ", 1), ("\xa4", 1), ("\xff", 1))

# group: (urwid encoding, expected mode, python codec, alphabet, max length quick, max length thorough)
GROUPS = (
    ("utf-8", "utf8", "utf-8", UTF8_ALPHA, 4, 5),
    ("euc-jp", "wide", "euc-jp", EUCJP_ALPHA, 4, 5),
    ("big5", "wide", "big5", BIG5_ALPHA, 4, 5),
    ("gbk", "wide", "gbk", GBK_ALPHA, 4, 5),
    ("euc-kr", "wide", "euc-kr", EUCKR_ALPHA, 4, 6),
    ("iso8859-1", "narrow", "latin-1", LATIN1_ALPHA, 4, 5),
)

# bytes for ill-formed / truncated UTF-8: ASCII, two continuation bytes, an overlong lead (C0), a 2-byte
# lead, a 3-byte lead, the surrogate lead (ED), a 4-byte lead whose low continuations are overlong (F0),
# the last valid 4-byte lead (F4: F4 9x.. is beyond U+10FFFF) and a lead beyond Unicode (F7)
UTF8_BYTES_QUICK = (0x61, 0x80, 0xBF, 0xC0, 0xC3, 0xE4, 0xED, 0xF0, 0xF7)
UTF8_BYTES_THOROUGH = (0x61, 0x80, 0x9F, 0xBF, 0xC0, 0xC3, 0xE0, 0xE4, 0xED, 0xF0, 0xF4, 0xF7, 0xFF)
# bytes for double-byte texts: a non-trail ASCII, ASCII inside the trail range (a, @, ~), DEL, 0x80 (trail
# only), the lowest lead 0x81, an EUC lead/trail (A4), the highest lead FE, FF (neither)
DBCS_BYTES_QUICK = (0x20, 0x61, 0x40, 0x7E, 0x80, 0x81, 0xA4, 0xFE)
DBCS_BYTES_THOROUGH = (0x20, 0x61, 0x40, 0x7E, 0x7F, 0x80, 0x81, 0xA4, 0xFE, 0xFF)


# ---------------------------------------------------------------------------------------------
# model-based evaluation of one text


def eval_model(cfg, seg, K, want_obs=False):
    """Run every clause on one text against its segmentation. K: dict clause -> C. Returns obs (results
    normalised to character indices) when want_obs."""
    t = seg.text
    is_bytes = isinstance(t, bytes)
    wide_bytes = is_bytes and str_util.get_byte_encoding() == "wide"
    key = (cfg, t)
    bounds = seg.bounds
    index = seg.index
    obs = {} if want_obs else None
    base = {"config": cfg, "text": tx(t)}
    nb = len(bounds)
    sample = {"config": cfg, "text": repr(t)}

    def bad(clause, fn, args, got, want, why, cat=None):
        d = dict(base)
        d.update({"fn": fn, "args": list(args), "got": jl(got), "want": jl(want), "why": why, "cat": cat or f"{fn}: {why.split(':')[0]}"})
        K[clause].fail(key, d)

    def raised(clause, fn, args, e):
        d = dict(base)
        d.update({"fn": fn, "args": list(args), "raised": type(e).__name__, "why": f"raised {type(e).__name__}: {e}"[:300], "cat": f"{fn} raised {type(e).__name__}"})
        K[clause].fail(key, d)

    # ---- widths of every boundary pair, additivity
    n_w = 0
    cw = {}
    for ia in range(nb):
        a = bounds[ia]
        for ic in range(ia, nb):
            c = bounds[ic]
            try:
                got = str_util.calc_width(t, a, c)
            except Exception as e:  # noqa: BLE001
                raised("width-additive", "calc_width", (a, c), e)
                continue
            cw[a, c] = got
            n_w += 1
            want = seg.cols(a, c)
            if got != want:
                bad("width-additive", "calc_width", (a, c), got, want, "width differs from the sum of the characters' table widths")
            if obs is not None:
                obs["w", ia, ic] = got
    for ia in range(nb):
        for ib in range(ia, nb):
            for ic in range(ib, nb):
                a, b, c = bounds[ia], bounds[ib], bounds[ic]
                if (a, b) in cw and (b, c) in cw and (a, c) in cw:
                    n_w += 1
                    if cw[a, b] + cw[b, c] != cw[a, c]:
                        bad("width-additive", "calc_width", (a, c), cw[a, c], cw[a, b] + cw[b, c], f"not additive at boundary {b}: calc_width({a},{b}) + calc_width({b},{c})")
    K["width-additive"].passed(key, n_w, sample)

    # ---- offset search
    n_p = 0
    fns = [("calc_text_pos", str_util.calc_text_pos)]
    if not is_bytes:
        fns.append(("calc_string_text_pos", str_util.calc_string_text_pos))
    for ia in range(nb):
        a = bounds[ia]
        for ic in range(ia, nb):
            c = bounds[ic]
            total = seg.cols(a, c)
            for col in (*range(total + 2), BIG):
                want = seg.text_pos(a, c, col)
                for name, fn in fns:
                    try:
                        got = fn(t, a, c, col)
                    except Exception as e:  # noqa: BLE001
                        raised("offset-search", name, (a, c, col), e)
                        continue
                    n_p += 1
                    if tuple(got) != want:
                        p = got[0]
                        if p not in index:
                            why = "offset lands inside a character"
                        elif got[1] > col:
                            why = "column beyond the requested column"
                        elif got[1] != seg.W.get(p, -1) - seg.W[a]:
                            why = "reported column is not the width up to the offset"
                        else:
                            why = "not the closest boundary to the column"
                        bad("offset-search", name, (a, c, col), got, want, why)
                    if obs is not None and name == "calc_text_pos":
                        obs["p", ia, ic, col] = (index.get(got[0], ("inside", got[0])), got[1])
    K["offset-search"].passed(key, n_p, sample)

    # ---- next / previous character
    n_n = 0
    for ia in range(nb - 1):
        a = bounds[ia]
        for ic in range(ia + 1, nb):
            c = bounds[ic]
            want = bounds[ia + 1]
            nxt = None
            try:
                nxt = str_util.move_next_char(t, a, c)
            except Exception as e:  # noqa: BLE001
                raised("next-prev-char", "move_next_char", (a, c), e)
            if nxt is not None:
                n_n += 1
                if nxt != want:
                    bad("next-prev-char", "move_next_char", (a, c), nxt, want, "not the next character boundary")
                elif ic == ia + 1:
                    try:
                        back = str_util.move_prev_char(t, a, nxt)
                        n_n += 1
                        if back != a:
                            bad("next-prev-char", "move_prev_char", (a, nxt), back, a, "stepping to the next character and back does not return to the start")
                    except Exception as e:  # noqa: BLE001
                        raised("next-prev-char", "move_prev_char", (a, nxt), e)
            try:
                prv = str_util.move_prev_char(t, a, c)
                n_n += 1
                if prv != bounds[ic - 1]:
                    bad("next-prev-char", "move_prev_char", (a, c), prv, bounds[ic - 1], "not the previous character boundary")
            except Exception as e:  # noqa: BLE001
                raised("next-prev-char", "move_prev_char", (a, c), e)
    K["next-prev-char"].passed(key, n_n, sample)

    # ---- wide-character test
    n_i = 0
    for i in range(seg.n):
        s = seg.starts[i]
        try:
            got = str_util.is_wide_char(t, s)
            n_i += 1
            if bool(got) != (seg.widths[i] == 2):
                bad("wide-char-test", "is_wide_char", (s,), got, seg.widths[i] == 2, "wide iff the character is two columns")
            if obs is not None:
                obs["wide", i] = bool(got)
        except Exception as e:  # noqa: BLE001
            raised("wide-char-test", "is_wide_char", (s,), e)
    if wide_bytes:
        for ia in range(nb - 1):
            a = bounds[ia]
            for pos in range(a, seg.length):
                i = seg.char_at(pos)
                want = 0 if seg.ends[i] - seg.starts[i] == 1 else 1 + (pos - seg.starts[i])
                try:
                    got = str_util.within_double_byte(t, a, pos)
                    n_i += 1
                    if got != want:
                        bad("wide-char-test", "within_double_byte", (a, pos), got, want, "0 single byte / 1 first half / 2 second half")
                except Exception as e:  # noqa: BLE001
                    raised("wide-char-test", "within_double_byte", (a, pos), e)
    K["wide-char-test"].passed(key, n_i, sample)

    # ---- trim
    n_t = 0
    n_a = 0
    for ia in range(nb):
        a = bounds[ia]
        for ic in range(ia, nb):
            c = bounds[ic]
            total = seg.cols(a, c)
            for sc in range(total):
                for ec in range(sc + 1, total + 1):
                    try:
                        got = util.calc_trim_text(t, a, c, sc, ec)
                    except Exception as e:  # noqa: BLE001
                        raised("trim", "calc_trim_text", (a, c, sc, ec), e)
                        continue
                    n_t += 1
                    sp, ep, pl, pr = got
                    wpl, wpr = seg.trim_flags(a, c, sc, ec)
                    why = None
                    if sp not in index or ep not in index:
                        why = "slice edge inside a character"
                    elif not a <= sp <= ep <= c:
                        why = "slice outside the line"
                    elif (pl, pr) != (wpl, wpr):
                        why = "padding flag set iff a double-width character straddles the edge"
                    elif seg.cols(sp, ep) + pl + pr != ec - sc:
                        why = "slice width + padding is not the requested range"
                    else:
                        inside, outside = seg.trim_inside(a, c, sc, ec)
                        lo, hi = index[sp], index[ep]
                        if any(not lo <= i < hi for i in inside) or any(lo <= i < hi for i in outside):
                            why = "slice is not the characters wholly inside the column range"
                    if why:
                        bad("trim", "calc_trim_text", (a, c, sc, ec), got, [None, None, wpl, wpr], why)
                    if obs is not None:
                        obs["t", ia, ic, sc, ec] = (index.get(sp, ("inside", sp)), index.get(ep, ("inside", ep)), pl, pr)
                    if is_bytes and a == 0 and c == seg.length and not why:
                        attr = [(k, 1) for k in range(seg.length)]
                        cs = [(None, seg.length)]
                        try:
                            tt, ta, tc = util.trim_text_attr_cs(t, attr, cs, sc, ec)
                        except Exception as e:  # noqa: BLE001
                            raised("trim-attr-cs", "trim_text_attr_cs", (sc, ec), e)
                            continue
                        n_a += 1
                        want_text = b" " * wpl + t[sp:ep] + b" " * wpr
                        la, lc = util.rle_len(ta), util.rle_len(tc)
                        mid = [x for x, run in ta for _ in range(run)][wpl : wpl + ep - sp]
                        if tt != want_text:
                            bad("trim-attr-cs", "trim_text_attr_cs", (sc, ec), [tt.hex(), ta, tc], want_text.hex(), "text is not pad + slice + pad")
                        elif not len(tt) == la == lc:
                            bad("trim-attr-cs", "trim_text_attr_cs", (sc, ec), [len(tt), la, lc], "equal", "text, attribute and charset lengths differ")
                        elif mid != list(range(sp, ep)):
                            bad("trim-attr-cs", "trim_text_attr_cs", (sc, ec), ta, list(range(sp, ep)), "attributes of the slice are not those of the sliced bytes")
                        elif str_util.calc_width(tt, 0, len(tt)) != ec - sc:
                            bad("trim-attr-cs", "trim_text_attr_cs", (sc, ec), tt.hex(), ec - sc, "trimmed text is not as wide as the requested range")
    K["trim"].passed(key, n_t, sample)
    if is_bytes:
        K["trim-attr-cs"].passed(key, n_a, sample)
    return obs


def compare_obs(cfg_a, cfg_b, seg_a, seg_b, obs_a, obs_b, chk):
    key = (cfg_a, cfg_b, seg_a.text)
    n = 0
    for k, va in obs_a.items():
        vb = obs_b.get(k)
        n += 1
        if va != vb:
            kind = {"w": "calc_width", "p": "calc_text_pos", "t": "calc_trim_text", "wide": "is_wide_char"}[k[0]]
            chk.fail(key, {"config": cfg_b, "other_config": cfg_a, "text": tx(seg_b.text), "other_text": tx(seg_a.text), "fn": kind, "item": list(k[1:]), "got": jl(vb), "want": jl(va), "why": f"{kind}: the bytes form and the str form of the same characters disagree (results in character indices; item = boundary indices and columns)", "cat": f"{kind} str/bytes"})
    chk.passed(key, n, {"str": repr(seg_a.text), "bytes": repr(seg_b.text)})


# ---------------------------------------------------------------------------------------------
# reference-agnostic agreement (ill-formed texts)


def eval_agree(cfg, t, positions, K_exc, K_agree):
    key = (cfg, t)
    base = {"config": cfg, "text": tx(t)}
    n_ok = 0
    n_calls = 0
    seen_exc = set()

    def call(name, fn, *args):
        nonlocal n_calls
        n_calls += 1
        try:
            return True, fn(t, *args)
        except Exception as e:  # noqa: BLE001
            if (name, args) not in seen_exc:
                seen_exc.add((name, args))
                d = dict(base)
                d.update({"fn": name, "args": list(args), "raised": type(e).__name__, "why": f"raised {type(e).__name__}: {e}"[:300], "cat": f"{name} raised {type(e).__name__}"})
                K_exc.fail(key, d)
            return False, None

    def bad(name, args, got, want, why, cat=None):
        d = dict(base)
        d.update({"fn": name, "args": list(args), "got": jl(got), "want": jl(want), "why": why, "cat": f"{name}: {cat or why.split(';')[0]}"})
        K_agree.fail(key, d)

    wide = str_util.get_byte_encoding() == "wide"
    npos = len(positions)
    for ia in range(npos):
        a = positions[ia]
        if wide:
            for pos in range(a, len(t)):
                ok, v = call("within_double_byte", str_util.within_double_byte, a, pos)
                if ok:
                    n_ok += 1
                    if v not in (0, 1, 2):
                        bad("within_double_byte", (a, pos), v, "0|1|2", "result not in {0,1,2}")
        for ic in range(ia, npos):
            c = positions[ic]
            okw, cw = call("calc_width", str_util.calc_width, a, c)
            # the chain of move_next_char from a
            chain = [a]
            x = a
            broken = False
            while x < c:
                ok, n = call("move_next_char", str_util.move_next_char, x, c)
                if not ok:
                    broken = True
                    break
                n_ok += 1
                if not x < n <= c:
                    bad("move_next_char", (x, c), n, f"{x} < result <= {c}", "next character offset outside (start, end]")
                    broken = True
                    break
                ok, back = call("move_prev_char", str_util.move_prev_char, a, n)
                if ok:
                    n_ok += 1
                    if back != x:
                        why = "previous character offset before the start of the range" if back < a else "stepping to the next character and back does not return to the start"
                        bad("move_prev_char", (a, n), back, x, f"{why}; move_next_char({x},{c}) = {n}")
                chain.append(n)
                x = n
            if a < c:
                ok, pv = call("move_prev_char", str_util.move_prev_char, a, c)
                if ok:
                    n_ok += 1
                    if not a <= pv < c:
                        bad("move_prev_char", (a, c), pv, f"{a} <= result < {c}", "previous character offset outside [start, end)")
            chainset = set(chain)
            if okw and not broken:
                for b in chain[1:-1]:
                    ok1, w1 = call("calc_width", str_util.calc_width, a, b)
                    ok2, w2 = call("calc_width", str_util.calc_width, b, c)
                    if ok1 and ok2:
                        n_ok += 1
                        if w1 + w2 != cw:
                            bad("calc_width", (a, c), cw, w1 + w2, f"not additive at the move_next_char boundary {b}", "not additive at a move_next_char boundary")
                for i in range(len(chain) - 1):
                    okx, isw = call("is_wide_char", str_util.is_wide_char, chain[i])
                    oky, w1 = call("calc_width", str_util.calc_width, chain[i], chain[i + 1])
                    if okx and oky:
                        n_ok += 1
                        if bool(isw) != (w1 == 2):
                            bad("is_wide_char", (chain[i],), isw, w1 == 2, f"wide-character test disagrees with calc_width({chain[i]},{chain[i + 1]}) = {w1} of the character as move_next_char steps", "wide-character test disagrees with the width of the move_next_char step")
            top = cw if okw else c - a
            for col in (*range(top + 2), BIG):
                ok, r = call("calc_text_pos", str_util.calc_text_pos, a, c, col)
                if not ok:
                    continue
                n_ok += 1
                p, sc = r
                if not a <= p <= c:
                    bad("calc_text_pos", (a, c, col), r, f"{a} <= offset <= {c}", "offset outside [start, end]")
                    continue
                if sc > col:
                    bad("calc_text_pos", (a, c, col), r, f"column <= {col}", "column beyond the requested column")
                if not broken and p not in chainset:
                    bad("calc_text_pos", (a, c, col), r, sorted(chainset), "offset is inside a character as move_next_char steps (not on its chain of boundaries)")
                ok2, w = call("calc_width", str_util.calc_width, a, p)
                if ok2 and w != sc:
                    bad("calc_text_pos", (a, c, col), r, [p, w], f"reported column differs from calc_width({a},{p})", "reported column differs from calc_width up to the offset")
                if col == BIG and okw and (p != c or sc != cw):
                    bad("calc_text_pos", (a, c, col), r, [c, cw], "unbounded search does not reach the end with calc_width's total")
                if not broken and p in chainset and p < c and col != BIG:
                    nxt = chain[chain.index(p) + 1]
                    ok3, w3 = call("calc_width", str_util.calc_width, a, nxt)
                    if ok3 and w3 <= col:
                        bad("calc_text_pos", (a, c, col), r, [nxt, w3], "not the closest offset; the next boundary still fits the column")
            if okw:
                for s in range(cw):
                    for e in range(s + 1, cw + 1):
                        ok, r = call("calc_trim_text", util.calc_trim_text, a, c, s, e)
                        if not ok:
                            continue
                        n_ok += 1
                        sp, ep, pl, pr = r
                        if not a <= sp <= ep <= c or pl not in (0, 1) or pr not in (0, 1):
                            bad("calc_trim_text", (a, c, s, e), r, "slice in the line, flags 0/1", "slice outside the line or flag not 0/1")
                            continue
                        ok2, w = call("calc_width", str_util.calc_width, sp, ep)
                        if ok2 and w + pl + pr != e - s:
                            bad("calc_trim_text", (a, c, s, e), r, e - s, f"slice width {w} + padding is not the requested range", "slice width + padding is not the requested range")
    K_exc.passed(key, n_calls - len(seen_exc), {"config": cfg, "text": repr(t)})
    K_agree.passed(key, n_ok, {"config": cfg, "text": repr(t)})


def eval_decode_one(cfg, t, chk):
    key = (cfg, t)
    n = 0
    for pos in range(len(t)):
        want_o, want_n = R.utf8_strict_decode(t, pos)
        try:
            got = str_util.decode_one(t, pos)
        except Exception as e:  # noqa: BLE001
            chk.fail(key, {"config": cfg, "text": tx(t), "fn": "decode_one", "args": [pos], "raised": type(e).__name__, "why": f"raised {type(e).__name__}: {e}"[:300]})
            continue
        n += 1
        want = (ord("?") if want_o is None else want_o, want_n)
        if tuple(got) != want:
            o = got[0]
            if o > 0x10FFFF:
                why, cat = "ordinal beyond U+10FFFF (chr() of it raises)", "ordinal > 0x10FFFF"
            elif 0xD800 <= o <= 0xDFFF:
                why, cat = "a surrogate is returned as a character (not a scalar value; CESU-style 3-byte form is ill-formed UTF-8)", "surrogate accepted"
            else:
                why, cat = "differs from the strict reading (well-formed sequence -> its scalar and length, anything else -> '?' and one byte)", "other"
            chk.fail(key, {"config": cfg, "text": tx(t), "fn": "decode_one", "args": [pos], "got": jl(got), "want": jl(want), "why": why, "cat": cat})
    chk.passed(key, n, {"text": repr(t)})


# ---------------------------------------------------------------------------------------------
# sweeps


def sweep_tables(K):
    wt = R.width_table()
    g = str_util.get_char_width
    gw = str_util.get_width
    chk, anchor = K["char-width-tables"], K["char-width-ucd-anchor"]
    n_anchor = 0
    for cp in range(0x110000):
        got = g(chr(cp))
        if got != wt[cp] or gw(cp) != got:
            chk.fail(cp, {"cp": cp, "char": f"U+{cp:04X}", "fn": "get_char_width", "got": got, "got_get_width": gw(cp), "want": wt[cp], "why": "width differs from the Unicode range tables (0 zero-width/control, 2 wide, 1 otherwise)"})
        want = R.ucd_anchor(cp)
        if want is not None:
            n_anchor += 1
            if got != want:
                anchor.fail(cp, {"cp": cp, "char": f"U+{cp:04X}", "fn": "get_char_width", "got": got, "want": want, "why": "width differs from CPython's unicodedata (Mn/Me -> 0, W/F printing -> 2, ASCII/Latin-1 -> 1)"})
    chk.evaluations += 0x110000 - chk.failed
    chk.distinct_extra += 0x110000 - len(chk.nontrivial)
    chk.samples = [{"cp": "U+4E2D", "width": wt[0x4E2D]}, {"cp": "U+0301", "width": wt[0x301]}]
    anchor.evaluations += n_anchor - anchor.failed
    anchor.notes["code points the anchor speaks for"] = n_anchor
    anchor.distinct_extra += n_anchor - len(anchor.nontrivial)
    return wt


def one_scalar(cp, wt):
    """failures (list of detail dicts) for the UTF-8 form of one scalar value; utf8 mode must be set"""
    b = chr(cp).encode("utf-8")
    n = len(b)
    w = wt[cp]
    out = []

    def chk(fn, args, got, want):
        if got != want:
            out.append({"cp": cp, "char": f"U+{cp:04X}", "text": tx(b), "fn": fn, "args": list(args), "got": jl(got), "want": jl(want), "why": f"{fn} on the UTF-8 form of one scalar value", "cat": fn})

    try:
        chk("decode_one", (0,), str_util.decode_one(b, 0), (cp, n))
        chk("decode_one_right", (n - 1,), str_util.decode_one_right(b, n - 1), (cp, -1))
        chk("calc_width", (0, n), str_util.calc_width(b, 0, n), w)
        chk("is_wide_char", (0,), bool(str_util.is_wide_char(b, 0)), w == 2)
        chk("move_next_char", (0, n), str_util.move_next_char(b, 0, n), n)
        chk("move_prev_char", (0, n), str_util.move_prev_char(b, 0, n), 0)
        chk("calc_text_pos", (0, n, 1), str_util.calc_text_pos(b, 0, n, 1), (0, 0) if w == 2 else (n, w))
    except Exception as e:  # noqa: BLE001
        out.append({"cp": cp, "char": f"U+{cp:04X}", "text": tx(b), "fn": "?", "raised": type(e).__name__, "why": f"raised {type(e).__name__}: {e}"[:300], "cat": "raised"})
    return out


def sweep_scalars(K, wt, shard=0, shards=1):
    chk = K["utf8-every-scalar"]
    util.set_encoding("utf-8")
    n = 0
    for cp in range(shard, 0x110000, shards):
        if 0xD800 <= cp < 0xE000:
            continue
        n += 1
        for d in one_scalar(cp, wt):
            chk.fail(cp, d)
    chk.evaluations += 7 * n - chk.failed
    chk.distinct_extra += n - len(chk.nontrivial)
    chk.samples = [{"cp": "U+1F600", "utf8": "f09f9880"}]


WIDE_CODECS = ("euc-jp", "euc-kr", "gb2312", "gbk", "big5")


def one_wide_char(enc, cp, b):
    out = []

    def chk(fn, args, got, want):
        if got != want:
            out.append({"encoding": enc, "cp": cp, "char": f"U+{cp:04X}", "text": tx(b), "fn": fn, "args": list(args), "got": jl(got), "want": jl(want), "why": f"{fn}: a two-column character written in two bytes must be one two-column character in wide mode", "cat": f"{enc} {fn}"})

    try:
        chk("calc_width", (0, 2), str_util.calc_width(b, 0, 2), 2)
        chk("is_wide_char", (0,), bool(str_util.is_wide_char(b, 0)), True)
        chk("move_next_char", (0, 2), str_util.move_next_char(b, 0, 2), 2)
        chk("move_prev_char", (0, 2), str_util.move_prev_char(b, 0, 2), 0)
        chk("calc_text_pos", (0, 2, 1), str_util.calc_text_pos(b, 0, 2, 1), (0, 0))
        chk("within_double_byte", (0, 0), str_util.within_double_byte(b, 0, 0), 1)
        chk("within_double_byte", (0, 1), str_util.within_double_byte(b, 0, 1), 2)
    except Exception as e:  # noqa: BLE001
        out.append({"encoding": enc, "cp": cp, "char": f"U+{cp:04X}", "text": tx(b), "fn": "?", "raised": type(e).__name__, "why": f"raised {type(e).__name__}: {e}"[:300], "cat": f"{enc} raised"})
    return out


def sweep_wide_codecs(K, wt):
    chk = K["wide-codec-sweep"]
    amb = R.ambiguous_table()
    notes = {}
    for enc in WIDE_CODECS:
        util.set_encoding(enc)
        judged = 0
        other = {}
        for cp in range(0x80, 0x10000):
            if 0xD800 <= cp < 0xE000:
                continue
            try:
                b = chr(cp).encode(enc)
            except UnicodeEncodeError:
                continue
            if len(b) == 2 and wt[cp] == 2 and not (enc == "euc-jp" and b[0] in (0x8E, 0x8F)):
                judged += 1
                for d in one_wide_char(enc, cp, b):
                    chk.fail((enc, cp), d)
                chk.nontrivial.add((enc, cp))
            else:
                if len(b) == 2 and b[0] == 0x8E and enc == "euc-jp":
                    k = "2 bytes via single-shift 8E (half-width kana), 1 column in the tables, urwid counts 2"
                elif len(b) == 3:
                    k = f"3 bytes via single-shift 8F (JIS X 0212), {wt[cp]} column(s) in the tables, urwid counts 3"
                elif len(b) == 2 and amb[cp]:
                    k = "2 bytes, East-Asian-Ambiguous (1 column in the tables, 2 in a legacy CJK terminal)"
                elif len(b) == 2:
                    k = f"2 bytes, {wt[cp]} column(s) in the tables and not ambiguous"
                else:
                    k = f"{len(b)} byte(s), {wt[cp]} column(s)"
                other[k] = other.get(k, 0) + 1
        chk.evaluations += 7 * judged
        notes[enc] = {"judged": judged, "not judged (outside the documented two-byte wide domain)": other}
    chk.evaluations -= chk.failed
    chk.notes = notes
    chk.samples = [{"encoding": "big5", "char": "U+529F", "bytes": "a55c"}]


# ---------------------------------------------------------------------------------------------
# apply_target_encoding

# (urwid encoding name, python codec, byte mode documented for it: 'utf8' for UTF-8, 'wide' for the double-byte
# CJK encodings, 'narrow' for 8-bit ones -- util.get_encoding_mode's documentation, written out here)
ATE_ENCODINGS = (("utf-8", "utf-8", "utf8"), ("euc-jp", "euc-jp", "wide"), ("gbk", "gbk", "wide"), ("big5", "big5", "wide"),
                 ("iso8859-1", "latin-1", "narrow"), ("ascii", "ascii", "narrow"), ("koi8-r", "koi8-r", "narrow"))
ATE_BY_NAME = {e: (c, m) for e, c, m in ATE_ENCODINGS}
ATE_ALPHA = ("a", "\xe9", "中", "─", "│", "◆", "\xa3", "π", " ")


def switch_encoding(history, stack=None):
    """Replay a history of encoding switches (the encoding state is process-global: what an application sees
    after switching encodings, e.g. started under a UTF-8 locale and then told to use euc-jp). Operations:
    "<name>" = set_encoding(name); "with:<name>" = a complete `with util.set_temporary_encoding(name): pass`;
    "within:<name>" (last only) = that context entered and held open on `stack` (a contextlib.ExitStack)."""
    for op in history:
        if op.startswith("with:"):
            with util.set_temporary_encoding(op[5:]):
                pass
        elif op.startswith("within:"):
            stack.enter_context(util.set_temporary_encoding(op[7:]))
        else:
            util.set_encoding(op)


def one_ate(enc, codec, s, history=None):
    """(ok, detail) for apply_target_encoding(s) under the encoding already set (`history`: the set_encoding
    calls that led there, the last one being `enc`; kept in the detail for replay).

    The DEC graphics set is "in use" for every encoding but UTF-8 (a UTF-8 terminal draws the characters
    themselves) -- decided from the table above, for the LAST encoding set, not from urwid's own state: the
    state before (any earlier encoding) must not matter.

    Oracle correction (triage C11): the reference used to be the codec's errors="replace" form, i.e. exactly
    one "?" for each character the target encoding lacks. The statement fixes only the DEC graphics bytes,
    their charset runs and the run-length total; urwid writes one "?" per screen column of such a character
    (util._replace_keep_width: "??" for U+4E2D under latin-1/ascii/koi8-r) so the encoded text keeps the
    layout's width. The stand-in is now any run of "?" bytes tagged None (spec.match_target_encoding); how
    its length compares with the column width is counted in the notes, not judged. Everything the statement
    does say -- DEC byte + "0" run, encodable characters = their encoding in None runs, well-formed runs,
    total = encoded length -- is judged as before."""
    dec = ATE_BY_NAME[enc][1] != "utf8"
    d = {"encoding": enc, "codec": codec, "text": tx(s), "fn": "apply_target_encoding", "history": list(history or (enc,))}
    segs = None
    if isinstance(s, bytes):
        want_desc = [[s.hex(), None]]
    else:
        segs = R.ref_target_segments(s, codec, dec)
        want_desc = [['"?"*' if b is None else b.hex(), tag] for b, tag in segs]
    try:
        got_b, got_cs = util.apply_target_encoding(s)
    except Exception as e:  # noqa: BLE001
        return False, d | {"raised": type(e).__name__, "why": f"raised {type(e).__name__}: {e}"[:300], "cat": "raised"}
    d |= {"got": [got_b.hex(), [list(r) for r in got_cs]], "want": want_desc}
    if segs is None:
        want_cs, repl = ([None] * len(s), 0) if got_b == s else (None, None)
    else:
        want_cs, repl = R.match_target_encoding(segs, got_b)
    if want_cs is None:
        return False, d | {"why": "encoded bytes: each DEC graphics character must become its alternate-charset byte, every other character its encoding"}
    if any((not isinstance(r, tuple)) or len(r) != 2 or r[1] <= 0 or r[0] not in (None, escape.DEC_TAG) for r in got_cs):
        return False, d | {"why": "charset runs must be (None | '0', positive length)"}
    if sum(r[1] for r in got_cs) != len(got_b):
        return False, d | {"why": "total run length differs from the encoded length"}
    if [tag for tag, run in got_cs for _ in range(run)] != want_cs:
        return False, d | {"why": "charset run does not match the DEC graphics bytes"}
    if segs is not None and any(b is None for b, _tag in segs):
        wt = _wt()
        cols = sum(wt[ord(ch)] for ch, (b, _tag) in zip(s, segs) if b is None)
        d["replacement"] = "one '?' per screen column" if repl == cols else f"{repl} '?' for {cols} column(s)"
    return True, d


def ate_texts(maxlen, codec):
    texts = list(R.DEC_BYTE_OF)  # every DEC graphics character alone
    for n in range(0, maxlen + 1):
        texts.extend("".join(p) for p in itertools.product(ATE_ALPHA, repeat=n))
    texts.extend([b"", b"abc", "ab─".encode(codec, "replace")])
    return texts


def ate_histories(enc, depth):
    """Every history of `depth` set_encoding calls ending in `enc` (earlier calls: every encoding of the table,
    `enc` itself included), starting from whatever state the process is in."""
    names = [e for e, _c, _m in ATE_ENCODINGS]
    return [(*pre, enc) for pre in itertools.product(names, repeat=depth - 1)]


def judge_switch(sw, hist, enc):
    """C11/encoding-switch for one history whose active encoding is `enc` (already switched)."""
    mode = ATE_BY_NAME[enc][1]
    got = (util.get_encoding_mode(), util.get_encoding())
    if got == (mode, enc):
        sw.passed(hist, 1, {"history": list(hist), "mode": mode})
    else:
        sw.fail(hist, {"history": list(hist), "encoding": enc, "got": list(got), "want": [mode, enc], "fn": "set_encoding",
                       "why": "after switching to encoding e the byte mode / output codec must be the ones documented for e, whatever was set before"})


def check_temporary(K, enc):
    """util.set_temporary_encoding in the history: inside the context the temporary encoding is the active one,
    after it `enc` is again -- mode, codec and every DEC graphics character (alone and inside "a?b")."""
    import contextlib

    chk, sw = K["apply-target-encoding"], K["encoding-switch"]
    names = [e for e, _c, _m in ATE_ENCODINGS]
    for other in names:
        # (history, active encoding): `enc` restored after a temporary `other`; `enc` as the temporary one over `other`
        for hist, active in (((enc, "with:" + other), enc), ((other, "within:" + enc), enc)):
            with contextlib.ExitStack() as stack:
                switch_encoding(hist, stack)
                judge_switch(sw, hist, active)
                for ch in R.DEC_BYTE_OF:
                    for s in (ch, "a" + ch + "b"):
                        ok, d = one_ate(active, ATE_BY_NAME[active][0], s, hist)
                        if ok:
                            chk.passed((hist, s), 1)
                        else:
                            chk.fail((hist, s), d)


def check_ate(K, maxlen, targets=None, depth=2, deep_maxlen=1):
    """apply_target_encoding under SEQUENCES of encodings: for every ordered pair (previous, encoding) -- `depth`
    3 adds every ordered triple, with the shorter texts -- the encoding is switched previous -> encoding and every
    text is judged for `encoding` alone. Also C11/encoding-switch: the byte mode / output codec after the
    switch are the ones documented for the last encoding. The global state is restored afterwards."""
    chk, sw = K["apply-target-encoding"], K["encoding-switch"]
    with Enc():
        for enc, codec, mode in ATE_ENCODINGS:
            if targets is not None and enc not in targets:
                continue
            for dpt in range(2, depth + 1):
                texts = ate_texts(maxlen if dpt == 2 else deep_maxlen, codec)
                for hist in ate_histories(enc, dpt):
                    switch_encoding(hist)
                    judge_switch(sw, hist, enc)
                    for s in texts:
                        ok, d = one_ate(enc, codec, s, hist)
                        key = (hist, s)
                        if ok:
                            chk.passed(key, 1, {"history": list(hist), "text": repr(s)})
                            if "replacement" in d:  # observation only: the statement does not fix the stand-in's length
                                n = chk.notes.setdefault("texts with a character the target encoding lacks: stand-in is", {})
                                k = d["replacement"] if d["replacement"].startswith("one") else "not one '?' per screen column"
                                n[k] = n.get(k, 0) + 1
                        else:
                            chk.fail(key, d)
            check_temporary(K, enc)


ATESH_ALPHA = ("a", "\u2500", "\x0f", "\x0e", "\u4e2d")


def one_atesh(enc, codec, s):
    d = {"encoding": enc, "codec": codec, "text": tx(s), "fn": "apply_target_encoding"}
    try:
        got_b, got_cs = util.apply_target_encoding(s)
    except Exception as e:  # noqa: BLE001
        return False, d | {"raised": type(e).__name__, "why": f"raised {type(e).__name__}: {e}"[:300]}
    d |= {"got": [got_b.hex(), [list(r) for r in got_cs]]}
    if sum(r[1] for r in got_cs) != len(got_b):
        return False, d | {"why": "total run length differs from the encoded length"}
    d["zero"] = any(r[1] <= 0 for r in got_cs)
    return True, d


def check_atesh(K, maxlen, enc):
    chk = K["run-total-with-shift-controls"]
    codec = ATE_BY_NAME[enc][0]
    with Enc():
        util.set_encoding(enc)
        for n in range(0, maxlen + 1):
            for p in itertools.product(ATESH_ALPHA, repeat=n):
                s = "".join(p)
                for form in (s, s.encode(codec, "replace")):
                    ok, d = one_atesh(enc, codec, form)
                    if ok:
                        chk.passed((enc, form), 1)
                        if d["zero"]:
                            nn = chk.notes.setdefault("observations (not judged)", {})
                            nn["texts whose run list has a zero-length run (a stray SO)"] = nn.get("texts whose run list has a zero-length run (a stray SO)", 0) + 1
                    else:
                        chk.fail((enc, form), d)


# ---------------------------------------------------------------------------------------------
# the encoded form is as wide as the str (C11/encoded-width)
#
# "For every string and its encoded byte form under the active encoding ... the computed display width ...
# agree": the text layout computes columns on the str, the screen receives apply_target_encoding's bytes.  What
# can break this is a character the target encoding LACKS: the codec hands the error handler a run
# s[start:end] -- ONE character per call for utf-8 and the multi-byte CJK codecs, the whole RUN of consecutive
# lacking characters for the single-byte ones (ascii, latin-1, charmap codecs such as koi8-r) -- and writes the
# handler's stand-in for the run.  So the inputs here are built around RUNS: every sequence of 1..4 lacking
# characters over two representatives of every width class (one column, two columns, zero width; mixed runs
# included) that the encoding lacks, alone / after, before and between characters the encoding has (ASCII, a DEC
# graphics character, a native non-ASCII character) / two runs separated by one encodable character.

# candidates by width class (the class is asserted against the width table; which of them an encoding lacks is
# asked of the codec, not of urwid); lone surrogates are what utf-8 itself can not encode
ENCW_POOL = (
    (1, ("\xe9", "π", "ж", "ק", "ā", "€", "\ud800", "\udfff")),
    (2, ("中", "한", "あ", "\U0001f600", "Ａ")),
    (0, ("́", "​", "҃", "ְ")),
)
ENCW_PER_CLASS = 2
ENCW_MAXRUN = 4
# characters every run is put between; kept when the encoding has them AND their own encoded form is as wide as
# the character in the encoding's byte mode (see encw_own_width)
ENCW_NATIVE = ("中", "\xe9", "ж", "─", "́")


def encw_own_width(b, tag, mode, w):
    """Columns of the encoded form `b` of ONE encodable character of table width w, by the byte mode's definition
    (not urwid's code): a DEC graphics byte and every byte of an 8-bit encoding is one column; in a double-byte
    encoding one byte < 0x80 is one column, a lead+trail pair two; the UTF-8 form of a scalar has the scalar's
    width.  None: not the form of one character in that mode (euc-jp 8E/8F single shifts)."""
    if tag == "0" or mode == "narrow":
        return len(b)
    if mode == "utf8":
        return w
    if len(b) == 1 and b[0] < 0x80:
        return 1
    if len(b) == 2 and R.dbcs_is_lead(b[0]) and R.dbcs_is_trail(b[1]):
        return 2
    return None


def encw_lacking(codec):
    """The lacking alphabet of a codec: up to ENCW_PER_CLASS characters of every width class it can not encode."""
    wt = _wt()
    out = []
    for w, pool in ENCW_POOL:
        n = 0
        for ch in pool:
            if wt[ord(ch)] != w:
                raise RuntimeError(f"U+{ord(ch):04X} is not of width class {w} in the tables")
            try:
                ch.encode(codec)
            except UnicodeEncodeError:
                if n < ENCW_PER_CLASS:
                    out.append(ch)
                    n += 1
    return tuple(out)


def encw_texts(codec, mode, maxrun, pairrun=2):
    wt = _wt()
    dec = mode != "utf8"
    lack = encw_lacking(codec)
    natives = []
    for ch in ENCW_NATIVE:
        (b, tag), = R.ref_target_segments(ch, codec, dec)
        if b is not None and encw_own_width(b, tag, mode, wt[ord(ch)]) == wt[ord(ch)]:
            natives.append(ch)
    runs = ["".join(p) for n in range(1, maxrun + 1) for p in itertools.product(lack, repeat=n)]
    short = [r for r in runs if len(r) <= pairrun]
    texts = []
    for r in runs:
        texts += [r, "a" + r, r + "b", "a" + r + "b"]
        texts += [n + r + n for n in natives]
    for r1 in short:
        for r2 in short:
            texts.append(r1 + "a" + r2)
            texts += [n + r1 + n + r2 for n in natives[:1]]
    return lack, natives, texts


def one_encw(enc, codec, mode, s, history):
    """(verdict, detail): verdict True / False / None (not judged: the text holds an ENCODABLE character whose own
    encoded form already differs in width -- a fact of codec and byte mode, nothing a stand-in could repair)."""
    wt = _wt()
    dec = mode != "utf8"
    segs = R.ref_target_segments(s, codec, dec)
    d = {"encoding": enc, "codec": codec, "text": tx(s), "fn": "apply_target_encoding", "history": list(history)}
    widths = [wt[ord(ch)] for ch in s]
    for (b, tag), w in zip(segs, widths):
        if b is not None and encw_own_width(b, tag, mode, w) != w:
            return None, d
    want_cols = sum(widths)
    # per maximal run of lacking characters: its columns
    runs = []
    for (b, _tag), w in zip(segs, widths):
        if b is None:
            if runs and runs[-1][0]:
                runs[-1][1] += w
            else:
                runs.append([True, w])
        elif not runs or runs[-1][0]:
            runs.append([False, 0])
    try:
        got_b, got_cs = util.apply_target_encoding(s)
        w_str = str_util.calc_width(s, 0, len(s))
        w_enc = str_util.calc_width(got_b, 0, len(got_b))
    except Exception as e:  # noqa: BLE001
        return False, d | {"raised": type(e).__name__, "why": f"raised {type(e).__name__}: {e}"[:300], "cat": "raised"}
    d |= {"got": [got_b.hex(), [list(r) for r in got_cs]], "str_width": w_str, "encoded_width": w_enc, "table_width": want_cols,
          "lacking_runs_columns": [c for lk, c in runs if lk]}
    if w_str != want_cols:
        return False, d | {"why": "calc_width of the str differs from the sum of the characters' table widths"}
    if w_enc != w_str:
        return False, d | {"why": "the encoded byte form is not as wide as the str (calc_width under the encoding's byte mode)", "cat": f"{enc}: encoded form " + ("narrower" if w_enc < w_str else "wider") + " than the str"}
    if sum(r[1] for r in got_cs) != len(got_b):
        return False, d | {"why": "total run length differs from the encoded length"}
    # every run keeps ITS width (a prefix of the text is a text too): stand-ins are matched as runs of '?'
    pos = 0
    per_run = []
    for b, _tag in segs:
        if b is None:
            if per_run and per_run[-1][0] == pos:
                continue
            n = 0
            while pos < len(got_b) and got_b[pos] == 0x3F:
                pos += 1
                n += 1
            per_run.append((pos, n))
        else:
            if got_b[pos : pos + len(b)] != b:
                per_run = None
                break
            pos += len(b)
    if per_run is not None and pos == len(got_b):
        got_runs = [n for _p, n in per_run]
        if got_runs != d["lacking_runs_columns"]:
            return False, d | {"stand_in_columns": got_runs, "why": "a run of characters the encoding lacks is replaced by a stand-in that is not as wide as that run (the total happens to agree)"}
    return True, d


def check_encw(K, maxrun, targets=None):
    """C11/encoded-width for every encoding of the table, reached directly and from UTF-8 (the state a process
    started under a UTF-8 locale is in)."""
    chk = K["encoded-width"]
    with Enc():
        for enc, codec, mode in ATE_ENCODINGS:
            if targets is not None and enc not in targets:
                continue
            lack, natives, texts = encw_texts(codec, mode, maxrun)
            note = chk.notes.setdefault("lacking alphabet / natives", {})
            note[enc] = " ".join(f"U+{ord(c):04X}" for c in lack) + " / " + " ".join(f"U+{ord(c):04X}" for c in natives)
            for hist in ((enc,), ("utf-8", enc)):
                switch_encoding(hist)
                for s in texts:
                    ok, d = one_encw(enc, codec, mode, s, hist)
                    if ok is None:
                        chk.notes["not judged: an encodable character's own encoded form differs in width"] = chk.notes.get("not judged: an encodable character's own encoded form differs in width", 0) + 1
                    elif ok:
                        chk.passed((hist, s), 1, {"history": list(hist), "text": repr(s), "got": d["got"][0]})
                    else:
                        chk.fail((hist, s), d)


# ---------------------------------------------------------------------------------------------
# driver

CLAUSES = {
    "char-width-tables": "get_char_width(chr(cp)) and get_width(cp) equal the Unicode range tables (wcwidth data: zero-width -> 0, wide -> 2, controls/NUL -> 0, else 1) for every code point",
    "char-width-ucd-anchor": "get_char_width agrees with CPython's unicodedata wherever Unicode versions cannot differ (Mn/Me -> 0, printing W/F -> 2, ASCII/Latin-1 -> 1, controls -> 0)",
    "utf8-every-scalar": "the UTF-8 bytes of every scalar value: decode_one = (scalar, length), decode_one_right, calc_width = table width, is_wide_char, move_next_char = length, move_prev_char = 0, calc_text_pos(col 1)",
    "wide-codec-sweep": "every two-column BMP character that a CJK codec writes in two bytes is one two-column character for wide mode (calc_width, is_wide_char, move_next/prev_char, calc_text_pos, within_double_byte)",
    "width-additive": "calc_width(a,c) = sum of the characters' widths for all boundaries a <= c, and calc_width(a,b) + calc_width(b,c) = calc_width(a,c) for all boundaries a <= b <= c",
    "offset-search": "calc_text_pos / calc_string_text_pos(a,c,col) = (last boundary whose column <= col, its column): on a boundary, never beyond the column, closest",
    "next-prev-char": "move_next_char(a,c) = the boundary after a; move_prev_char(a, that) = a; move_prev_char(a,c) = the boundary before c",
    "wide-char-test": "is_wide_char at every character start <=> the character is two columns; within_double_byte = 0/1/2 by position in wide mode",
    "trim": "calc_trim_text(a,c,sc,ec), 0 <= sc < ec <= width: slice edges on boundaries inside the line, exactly the characters wholly inside [sc,ec), pad flag <=> a double-width character straddles that edge, slice width + flags = ec - sc",
    "trim-attr-cs": "trim_text_attr_cs on the whole line: text = pad + slice + pad, len(text) = rle_len(attr) = rle_len(cs), the slice keeps its bytes' attributes, width = ec - sc",
    "str-bytes-agree": "calc_width, calc_text_pos, is_wide_char, calc_trim_text give the same answers (in character indices) for a str and for its encoded bytes",
    "invalid-utf8/no-exception": "ill-formed UTF-8: calc_width, calc_text_pos, move_next_char, move_prev_char, is_wide_char, calc_trim_text raise nothing",
    "invalid-utf8/decode-one": "decode_one(text,pos) = (scalar, length) for a well-formed sequence at pos, ('?', pos+1) otherwise; the ordinal is a Unicode scalar value",
    "invalid-utf8/functions-agree": "ill-formed UTF-8: search offsets lie on the move_next_char chain inside [start,end], column <= target and = calc_width, closest; move_prev_char undoes move_next_char; widths additive over the chain; trim total exact",
    "invalid-double-byte/no-exception": "wide mode, texts with lone lead bytes / stray high bytes: nothing raises",
    "invalid-double-byte/functions-agree": "wide mode, texts with lone lead bytes / stray high bytes: the same mutual agreement; offsets stay inside [start,end]",
    "apply-target-encoding": "apply_target_encoding(str) after every sequence of set_encoding calls: every DEC graphics character -> its alternate-charset byte inside a '0' run (for every encoding set last but UTF-8, whatever was set before), other characters -> their encoding in None runs; sum of runs = len(bytes)",
    "encoded-width": "a str and apply_target_encoding(str) have the same computed display width (calc_width of the str = sum of table widths = calc_width of the bytes under the encoding's byte mode); every RUN of characters the target encoding lacks is replaced by a stand-in exactly as wide as that run",
    "run-total-with-shift-controls": "apply_target_encoding on texts that themselves contain the shift controls SO (0x0e) / SI (0x0f), as str and as encoded bytes: nothing raises and the total of the charset run lengths equals the encoded length (only this clause of the statement is judged here: which bytes stand for a stray control is not fixed by it; zero-length runs are counted in the notes, not judged)",
    "encoding-switch": "after every sequence of set_encoding calls the byte mode (utf8 / wide / narrow) and the output codec are the ones documented for the LAST encoding",
}


def make_checks(prefix="C11/", exhaustive=True, bounds=None):
    bounds = bounds or {}
    return {k: C(prefix + k, v, exhaustive, bounds.get(k, "")) for k, v in CLAUSES.items()}


def texts_of(alpha, maxlen):
    for n in range(0, maxlen + 1):
        yield from itertools.product(alpha, repeat=n)


def _shard(it, shard, shards):
    return itertools.islice(it, shard, None, shards)


def run_group(K, grp, maxlen, chars_iter=None, shard=0, shards=1):
    enc, mode, codec, alpha, _q, _t = grp
    util.set_encoding(enc)
    if str_util.get_byte_encoding() != mode:
        raise RuntimeError(f"set_encoding({enc!r}) gave mode {str_util.get_byte_encoding()!r}, expected {mode!r}")
    cfg_s, cfg_b = f"{enc}/str", f"{enc}/bytes"
    for chars in _shard(chars_iter if chars_iter is not None else texts_of(alpha, maxlen), shard, shards):
        seg_s = R.seg_from_chars(chars, codec, False)
        seg_b = R.seg_from_chars(chars, codec, True)
        obs_s = eval_model(cfg_s, seg_s, K, True)
        obs_b = eval_model(cfg_b, seg_b, K, True)
        compare_obs(cfg_s, cfg_b, seg_s, seg_b, obs_s, obs_b, K["str-bytes-agree"])


def run_raw_utf8(K, alphabet, maxlen, wt, shard=0, shards=1):
    util.set_encoding("utf-8")
    n_wf = n_ill = 0
    for tup in _shard(texts_of(alphabet, maxlen), shard, shards):
        t = bytes(tup)
        seg = R.seg_utf8_strict(t, wt)
        eval_decode_one("utf-8/raw-bytes", t, K["invalid-utf8/decode-one"])
        if all(o is not None for o in seg.ordinals):
            n_wf += 1
            eval_model("utf-8/well-formed-raw-bytes", seg, K)
        else:
            n_ill += 1
            eval_agree("utf-8/ill-formed-bytes", t, seg.bounds, K["invalid-utf8/no-exception"], K["invalid-utf8/functions-agree"])
    K["invalid-utf8/functions-agree"].notes = {"ill-formed texts": n_ill, "well-formed texts (judged by the model clauses instead)": n_wf}


def run_raw_dbcs(K, alphabet, maxlen, shard=0, shards=1):
    util.set_encoding("gbk")
    n_wf = n_ill = 0
    for tup in _shard(texts_of(alphabet, maxlen), shard, shards):
        t = bytes(tup)
        seg, ok = R.seg_dbcs(t)
        if ok:
            n_wf += 1
            eval_model("wide/well-formed-raw-bytes", seg, K)
        else:
            n_ill += 1
            eval_agree("wide/ill-formed-bytes", t, seg.bounds, K["invalid-double-byte/no-exception"], K["invalid-double-byte/functions-agree"])
    K["invalid-double-byte/functions-agree"].notes = {"ill-formed texts": n_ill, "well-formed texts (judged by the model clauses instead)": n_wf}


RANDOM_CLAUSES = ("width-additive", "offset-search", "next-prev-char", "wide-char-test", "trim", "trim-attr-cs", "str-bytes-agree")
RANDOM_PER_GROUP = 240
RANDOM_LEN = (6, 10)


def random_texts(seed, gi):
    r = rng(seed * 31 + gi)
    alpha = GROUPS[gi][3]
    return [tuple(alpha[r.randrange(len(alpha))] for _ in range(r.randint(*RANDOM_LEN))) for _ in range(RANDOM_PER_GROUP)]


_WT = None


def _wt():
    global _WT  # noqa: PLW0603
    if _WT is None:
        _WT = R.width_table()
    return _WT


def do_task(task):
    """Run one section in a fresh set of collectors; return the state of the collectors it touched."""
    kind = task[0]
    K = make_checks()
    with Enc(), warnings.catch_warnings():
        warnings.simplefilter("ignore", UnicodeWarning)
        util.set_encoding("utf-8")
        if kind == "tables":
            sweep_tables(K)
        elif kind == "scalars":
            sweep_scalars(K, _wt(), task[1], task[2])
        elif kind == "codecs":
            sweep_wide_codecs(K, _wt())
        elif kind == "group":
            run_group(K, GROUPS[task[1]], task[2], None, task[3], task[4])
        elif kind == "rawutf8":
            run_raw_utf8(K, task[1], task[2], _wt(), task[3], task[4])
        elif kind == "rawdbcs":
            run_raw_dbcs(K, task[1], task[2], task[3], task[4])
        elif kind == "ate":
            check_ate(K, task[1], (task[2],), task[3], task[4])
        elif kind == "encw":
            check_encw(K, task[1], (task[2],))
        elif kind == "atesh":
            check_atesh(K, task[1], task[2])
        elif kind == "random":
            run_group(K, GROUPS[task[2]], 0, random_texts(task[1], task[2]), task[3], task[4])
        else:
            raise ValueError(task)
    prefix = "random-long/" if kind == "random" else ""
    return {prefix + k: c.state() for k, c in K.items() if c.evaluations}


def plan(tier, seed):
    quick = tier == "quick"
    u8 = UTF8_BYTES_QUICK if quick else UTF8_BYTES_THOROUGH
    db = DBCS_BYTES_QUICK if quick else DBCS_BYTES_THOROUGH
    lens = {g[0]: (g[4] if quick else g[5]) for g in GROUPS}
    tasks = [("tables",), ("codecs",)]
    # apply_target_encoding: one task per encoding set last; pairs (previous, last) with all texts, triples with short ones
    tasks += [("ate", 3 if quick else 4, e, 3, 1 if quick else 2) for e, _c, _m in ATE_ENCODINGS]
    # the encoded form keeps the str's width: one task per encoding, runs of <= 4 lacking characters
    tasks += [("encw", ENCW_MAXRUN if quick else ENCW_MAXRUN + 1, e) for e, _c, _m in ATE_ENCODINGS]
    tasks += [("atesh", 4 if quick else 6, e) for e, _c, _m in ATE_ENCODINGS]
    tasks += [("scalars", i, 8) for i in range(8)]
    for gi, g in enumerate(GROUPS):
        n = sum(len(g[3]) ** k for k in range(lens[g[0]] + 1))
        shards = max(1, min(16, n // (1200 if quick else 2500)))
        tasks += [("group", gi, lens[g[0]], i, shards) for i in range(shards)]
    sh = 3 if quick else 12
    tasks += [("rawutf8", u8, 4, i, sh) for i in range(sh)]
    sh = 1 if quick else 3
    tasks += [("rawdbcs", db, 4, i, sh) for i in range(sh)]
    if not quick:
        tasks += [("random", seed, gi, i, 2) for gi in range(len(GROUPS)) for i in range(2)]
    return tasks, u8, db, lens


def run(tier="quick", seed=0, procs=None):
    import multiprocessing
    import os

    quick = tier == "quick"
    t0 = time.time()
    tasks, u8, db, lens = plan(tier, seed)
    raw_len = 4
    ate_len = 3 if quick else 4
    model_bound = "; ".join(f"{g[0]}: all texts of <= {lens[g[0]]} characters over {len(g[3])} ({'/'.join(repr(c)[1:-1] for c, _w in g[3])}) as str and bytes" for g in GROUPS)
    raw_bound = f"all byte strings of <= {raw_len} bytes over {[hex(b) for b in u8]} (utf8) and {[hex(b) for b in db]} (wide)"
    scope = f"{model_bound}; {raw_bound}; every boundary pair (start,end) x every column 0..width+1 and 10^6 x every 0 <= start_col < end_col <= width"
    bounds = {k: scope for k in ("width-additive", "offset-search", "next-prev-char", "wide-char-test", "trim", "trim-attr-cs")}
    bounds["str-bytes-agree"] = model_bound
    bounds["char-width-tables"] = "all 0x110000 code points (surrogates included)"
    bounds["char-width-ucd-anchor"] = "all 0x110000 code points; judged where spec.ucd_anchor speaks"
    bounds["utf8-every-scalar"] = "all 1 112 064 Unicode scalar values, each as its UTF-8 byte string"
    bounds["wide-codec-sweep"] = f"every BMP character >= U+0080 encodable in {WIDE_CODECS}; judged: two columns in the tables and two bytes in the codec"
    for k in ("invalid-utf8/no-exception", "invalid-utf8/decode-one", "invalid-utf8/functions-agree"):
        bounds[k] = f"all byte strings of <= {raw_len} bytes over {[hex(b) for b in u8]}" + (" (every position)" if k.endswith("decode-one") else " that are not well-formed UTF-8; ranges on the strict segmentation's boundaries")
    for k in ("invalid-double-byte/no-exception", "invalid-double-byte/functions-agree"):
        bounds[k] = f"all byte strings of <= {raw_len} bytes over {[hex(b) for b in db]} with a byte >= 0x80 outside a lead+trail pair"
    ate_names = [e for e, _c, _m in ATE_ENCODINGS]
    ate_deep = 1 if quick else 2
    bounds["apply-target-encoding"] = (f"encodings {ate_names}: every ordered PAIR (previous, last) of set_encoding calls x [every DEC graphics character alone, all strings of <= {ate_len} over "
                                       f"{len(ATE_ALPHA)} characters (ASCII, Latin-1, CJK, 5 DEC graphics, space), 3 byte strings]; every ordered TRIPLE x [the DEC characters alone, strings of <= {ate_deep}, 3 byte strings]")
    tmp_bound = "; every ordered pair with util.set_temporary_encoding (inside the context, and after leaving it)"
    bounds["apply-target-encoding"] += tmp_bound + " x [every DEC graphics character alone and between two letters]"
    bounds["encoded-width"] = (f"encodings {ate_names}, each set directly and after utf-8: every RUN of 1..{ENCW_MAXRUN if quick else ENCW_MAXRUN + 1} characters the codec lacks over <= {ENCW_PER_CLASS} representatives per width class "
                               "(one column, two columns, zero width; for utf-8: lone surrogates) -- alone, after 'a', before 'b', between 'a' and 'b', between two native characters "
                               f"(CJK / Latin-1 / Cyrillic / a DEC graphics character / a combining mark, as the encoding has them); every pair of runs of <= 2 separated by one encodable character")
    bounds["run-total-with-shift-controls"] = f"encodings {ate_names}: all strings of <= {4 if quick else 6} over {[hex(ord(c)) for c in ATESH_ALPHA]} (letter, DEC graphics, SI, SO, CJK), each as str and as its encoded bytes"
    bounds["encoding-switch"] = f"encodings {ate_names}: every ordered pair and every ordered triple of set_encoding calls" + tmp_bound
    K = make_checks(bounds=bounds)
    rb = f"{RANDOM_PER_GROUP} seeded random texts of {RANDOM_LEN[0]}..{RANDOM_LEN[1]} characters per encoding group ({len(GROUPS)} groups), as str and bytes"
    if not quick:
        K.update({"random-long/" + k: C("C11/random-long/" + k, CLAUSES[k], False, rb) for k in RANDOM_CLAUSES})
    if procs is None:
        procs = int(os.environ.get("C11_PROCS", "0")) or min(8, os.cpu_count() or 1)
    if procs > 1:
        try:
            with multiprocessing.get_context("fork").Pool(min(procs, 16)) as pool:
                states = pool.map(do_task, tasks, chunksize=1)
        except (OSError, ValueError):  # no fork here: same work, one process
            states = [do_task(t) for t in tasks]
    else:
        states = [do_task(t) for t in tasks]
    for st in states:  # task order, so the retained failures are the same on every run
        for k, v in st.items():
            K[k].merge(v)
    return {"checks": [c.result() for c in K.values()], "bound": scope + f"; sweeps over all code points; {len(tasks)} tasks, wall {time.time() - t0:.1f}s"}


# ---------------------------------------------------------------------------------------------
# replay


def replay(check_name, case):
    clause = check_name.split("C11/", 1)[-1].replace("random-long/", "")
    with Enc(), warnings.catch_warnings():
        warnings.simplefilter("ignore", UnicodeWarning)
        K = make_checks()
        if clause in ("char-width-tables", "char-width-ucd-anchor"):
            cp = case["cp"]
            got = str_util.get_char_width(chr(cp))
            want = R.width_table()[cp] if clause == "char-width-tables" else R.ucd_anchor(cp)
            bad = got != want or str_util.get_width(cp) != got
            return {"outcome": "confirmed" if bad else "not-reproduced", "detail": {"cp": cp, "got": got, "want": want}}
        if clause == "utf8-every-scalar":
            util.set_encoding("utf-8")
            fails = one_scalar(case["cp"], R.width_table())
            return {"outcome": "confirmed" if fails else "not-reproduced", "detail": {"failures": fails}}
        if clause == "wide-codec-sweep":
            util.set_encoding(case["encoding"])
            fails = one_wide_char(case["encoding"], case["cp"], untx(case["text"]))
            return {"outcome": "confirmed" if fails else "not-reproduced", "detail": {"failures": fails}}
        if clause == "apply-target-encoding":
            import contextlib

            hist = tuple(case.get("history") or (case["encoding"],))
            with contextlib.ExitStack() as stack:
                switch_encoding(hist, stack)
                ok, d = one_ate(case["encoding"], case["codec"], untx(case["text"]), hist)
            return {"outcome": "not-reproduced" if ok else "confirmed", "detail": d}
        if clause == "run-total-with-shift-controls":
            util.set_encoding(case["encoding"])
            ok, d = one_atesh(case["encoding"], case["codec"], untx(case["text"]))
            return {"outcome": "not-reproduced" if ok else "confirmed", "detail": d}
        if clause == "encoded-width":
            hist = tuple(case["history"])
            switch_encoding(hist)
            ok, d = one_encw(case["encoding"], case["codec"], ATE_BY_NAME[case["encoding"]][1], untx(case["text"]), hist)
            return {"outcome": "confirmed" if ok is False else "not-reproduced", "detail": d}
        if clause == "encoding-switch":
            import contextlib

            with contextlib.ExitStack() as stack:
                switch_encoding(case["history"], stack)
                got = [util.get_encoding_mode(), util.get_encoding()]
            return {"outcome": "not-reproduced" if got == case["want"] else "confirmed", "detail": {"history": case["history"], "got": got, "want": case["want"]}}
        # text-based clauses: re-run the evaluator that produced the case on that one text
        cfg = case["config"]
        t = untx(case["text"])
        enc = cfg.split("/")[0]
        if cfg.startswith("wide/"):
            enc = "gbk"
        util.set_encoding(enc)
        if clause == "invalid-utf8/decode-one":
            eval_decode_one(cfg, t, K[clause])
        elif cfg.endswith("ill-formed-bytes"):
            fam = "invalid-utf8" if enc == "utf-8" else "invalid-double-byte"
            seg = R.seg_utf8_strict(t, R.width_table()) if enc == "utf-8" else R.seg_dbcs(t)[0]
            eval_agree(cfg, t, seg.bounds, K[fam + "/no-exception"], K[fam + "/functions-agree"])
        elif cfg == "utf-8/well-formed-raw-bytes":
            eval_model(cfg, R.seg_utf8_strict(t, R.width_table()), K)
        elif cfg == "wide/well-formed-raw-bytes":
            eval_model(cfg, R.seg_dbcs(t)[0], K)
        else:
            grp = next(g for g in GROUPS if g[0] == enc)
            width_of = dict(grp[3])
            s = untx(case["other_text"]) if "other_text" in case else t
            if isinstance(s, bytes):
                s = s.decode(grp[2])
            chars = tuple((ch, width_of[ch]) for ch in s)
            seg_s = R.seg_from_chars(chars, grp[2], False)
            seg_b = R.seg_from_chars(chars, grp[2], True)
            obs_s = eval_model(f"{enc}/str", seg_s, K, True)
            obs_b = eval_model(f"{enc}/bytes", seg_b, K, True)
            compare_obs(f"{enc}/str", f"{enc}/bytes", seg_s, seg_b, obs_s, obs_b, K["str-bytes-agree"])
        same = [f for f in K[clause].failures if f.get("config") == cfg and f.get("fn") == case.get("fn") and f.get("args") == case.get("args") and f.get("item") == case.get("item")]
        if not same and K[clause].failed > len(K[clause].failures):
            same = K[clause].failures[:1]  # retained list is capped per category; the text still fails this clause
        return {"outcome": "confirmed" if same else "not-reproduced", "detail": {"failures": same[:3], "failed_evaluations_on_this_text": K[clause].failed}}


# Checks whose oracle goes beyond the property statement (decided by the framework owner, see DESIGN.md
# "false alarms corrected"): C11's agreement clauses speak of "every string and its encoded byte form" —
# an ill-formed byte string is not the encoded form of any string, so for such input the statement only
# requires that nothing raises and offsets stay in range (C11/invalid-*/no-exception, which stay binding).
# Their results are kept in the evidence as observations and are not violations.
INFORMATIONAL = {
    "C11/invalid-utf8/functions-agree": "mutual agreement of move_*_char / calc_* on ILL-FORMED utf-8 is not demanded by the statement",
    "C11/invalid-utf8/decode-one": "strict rejection of surrogates (ED A0..BF xx) is not demanded by the statement; ordinals stay below 0x110000",
    "C11/invalid-double-byte/functions-agree": "mutual agreement on MALFORMED double-byte text (lone lead bytes) is not demanded by the statement",
}
