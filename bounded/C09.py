"""C09 bounded stand-in: cursor position and mouse hit-testing agree with what is drawn.

The real urwid widgets are built from JSON-able descriptors (spec/widget_trees.py).  Every leaf paints
its canvas with a unique attribute, so the rendered canvas, read as a plain 2-D grid, says which leaf
is drawn in which cell; every node remembers the canvas it returned, from which the node's rectangle
in root coordinates follows (leaf tag in the root grid minus the same tag in the node's own grid).
That *drawn geometry* is the reference; it uses `render` and canvas composition only, none of the
get_cursor_coords / mouse_event / move_cursor_to_coords code under test.

Fit precondition (statement: "every widget on the way gets at least the columns and rows it needs; no
child hidden or clipped"): a (tree, size) is in scope iff
 * every leaf is drawn as one complete rectangle of its own canvas, on unwrapped lines, an Edit having one
   column beyond its longest line (otherwise its own view shifting, a C10 matter, changes what is drawn);
 * every node is one translated copy of its own canvas inside its parent's rectangle, character for
   character (so a LineBox border scrolled out of a ListBox, or a Frame header trimmed away, is "clipped");
 * what a container was *told* to give is available: given widths/heights are handed to the child in full,
   min_width/min_height likewise, the area is at least the child as drawn plus the left/right/top/bottom
   margins, a GridFlow cell gets its cell width (judged on sizes only, not on positions: a container that
   has the room but misplaces its child stays in scope).
Sizes that do not fit are skipped; an exception while rendering counts only at a size that dominates (>=
in both dimensions) a fitting one.  The fixed size () is tried for roots that declare FIXED sizing.

Clauses (one Check each):
 cursor-report   root.get_cursor_coords(size) on a never-rendered tree == root.render(size, True).cursor
 cursor-drawn    that rendered cursor == origin of the focus leaf as drawn + the leaf's own cursor
 mouse-hit       a non-mutating event ('mouse release', button 0) on every cell reaches exactly the nodes
                 whose drawn rectangle contains the cell, each once, with the size it was rendered at and
                 coordinates relative to its drawn top-left corner
 mouse-press     the same for 'mouse press' button 1 (changes focus) on a freshly built and rendered tree
 move-cursor     roots that define move_cursor_to_coords: success <=> the addressed child accepts the
                 translated cell; afterwards the reported cursor row is the requested row.  Frame, Overlay
                 and ListBox define none (recorded as trivial cases).
 fitting-render  no exception from render at a size dominating a fitting size

Readings of the statement fixed here (see the final report of the build):
 * Overlay: the hit-testing clause speaks about the top widget; the bottom widget is background (urwid's
   Overlay is modal by design).  It must still get nothing when the click is on the top widget.
 * move-cursor, "correspondingly translated cell": vertically strict (a row on which no child is drawn,
   or on which the addressed child is not drawn, must be refused - otherwise "afterwards the reported
   cursor is on the requested row" cannot hold), horizontally clamped into the nearest selectable child
   of that row band (what Padding and Columns document); ties between equally near children are free.
 * "the wrapped widget accepts": answered by a twin of the child, built from the same descriptor, asked
   on its own with the size the child was drawn at; a selectable child without the method accepts.
 * "afterwards the reported cursor is on the requested row": exact when every widget on the new focus
   chain defines move_cursor_to_coords.  A widget that does not (SelectableIcon; ListBox, Frame, Overlay -
   DESIGN section 6 C09 (iii)) cannot be asked to place its cursor; it takes the focus as a whole, and the
   demand becomes: the requested row is one of its drawn rows and the reported cursor is inside them.
 * mouse, "and to no other child": binding where some child IS drawn at the cell.  A cell in a container's
   own padding (nothing drawn there) is not constrained by the statement; deliveries for such cells are
   only counted (run()["info"]): Columns hands the cell under a short column to that column's widget.
 * mouse and move are judged on a tree that has been rendered at the size ("for any widget tree rendered
   at a size ..."); only cursor-report asks a never-rendered tree ("reports without rendering").
 * cursor clauses and move-cursor are evaluated when the focus leaf is an Edit / SelectableIcon / Button /
   CheckBox (quantifier: "focus chain implements the cursor protocol"); the mouse clauses for every tree.

Scope: the generated one- / two- / three-container trees (level1 / next_level), a few curated trees, and the
*uneven-height* family (uneven(), always run in full): SelectableIcon / Button / CheckBox / a one-row Edit, bare
and under every stack of <= 2 decorations (AttrMap, Padding x4, BoxAdapter(Filler) top / middle / bottom,
LineBox), as the short child of Columns (given / weight / pack width, left / right / middle, box column under a
Filler, next to a selectable and to an unselectable taller sibling, nested in a Pile / Columns / AttrMap /
GridFlow, either initial focus) and as Pile children of different heights.  These are the trees in which some
rows of the rendered area belong to no widget of the addressed column, so that the move-cursor clause depends
on *who* refuses the row: the container, the decoration (Padding and BoxAdapter always have the method and
never look at the row; AttrMap has it iff its child has) or the leaf (SelectableIcon has none).
"""
from __future__ import annotations

import json
import multiprocessing
import os
import time
import warnings

import urwid
from urwid import str_util
from urwid import util as urwid_util
from urwid.canvas import CanvasCache

from bounded.common import Check, rng
from spec.widget_trees import LEAF_KINDS, Drawn, Tree, desc_at, leaf_need, mode, source

ID = "C09"
MAXC, MAXR = 12, 8
FAST = True  # see judge_move: unrendered fast path first, every failure re-judged by the full procedure
CLAUSES = {
    "cursor-report": "get_cursor_coords(size) of a never-rendered tree equals render(size, focus=True).cursor (focus leaf is an Edit / SelectableIcon / Button / CheckBox)",
    "cursor-drawn": "the rendered cursor is the drawn top-left corner of the focus leaf plus that leaf's own cursor (None iff the leaf shows none)",
    "mouse-hit": "'mouse release' on every cell of the rendered area is delivered exactly to the nodes drawn at that cell, once each, with their rendered size and coordinates relative to their drawn corner; nodes not drawn there get nothing",
    "mouse-press": "the same for 'mouse press' button 1 on a freshly built, rendered tree",
    "move-cursor": "root.move_cursor_to_coords(size, col, row) for every cell succeeds exactly when the addressed child (row band, nearest selectable, column clamped) accepts the translated cell, and then get_cursor_coords is on the requested row; Frame/Overlay/ListBox define no such method",
    "fitting-render": "render raises nothing at a size that dominates a fitting size",
}


# ------------------------------------------------------------------------------------------------
# global state guard
class _Utf8:
    def __enter__(self):
        self.saved = (urwid_util._target_encoding, urwid_util._use_dec_special, str_util.get_byte_encoding())
        urwid.set_encoding("utf-8")
        self.warn = warnings.catch_warnings()
        self.warn.__enter__()
        warnings.simplefilter("ignore")  # PaddingWarning / ColumnsWarning etc. at sizes that do not fit

    def __exit__(self, *a):
        self.warn.__exit__(*a)
        urwid_util._target_encoding, urwid_util._use_dec_special = self.saved[0], self.saved[1]
        str_util.set_byte_encoding(self.saved[2])
        CanvasCache.clear()


# ------------------------------------------------------------------------------------------------
# tallies (mergeable across worker processes; cases are enumerated without repetition)
def _root_kind(d):
    return d[0]


class Tally:
    def __init__(self):
        self.ev = 0
        self.nt = 0
        self.failed = 0
        self.by_sig = {}  # signature -> [count, smallest detail]
        self.samples = []

    def case(self, ok, detail_fn, nontrivial=True, sample=None):
        self.ev += 1
        if nontrivial:
            self.nt += 1
            if sample is not None and len(self.samples) < 3:
                self.samples.append(sample)
        if not ok:
            self.failed += 1
            d = detail_fn() if callable(detail_fn) else detail_fn
            self._add(d.get("sig", d.get("why", "?")), 1, d)

    @staticmethod
    def _weight(d):
        return (len(json.dumps(d.get("tree"))), d.get("size", []), d.get("cell", []))

    def _add(self, sig, count, d):
        cur = self.by_sig.get(sig)
        if cur is None:
            if len(self.by_sig) < 300:
                self.by_sig[sig] = [count, d]
            return
        cur[0] += count
        if self._weight(d) < self._weight(cur[1]):
            cur[1] = d

    def merge(self, other):
        self.ev += other.ev
        self.nt += other.nt
        self.failed += other.failed
        for sig, (count, d) in other.by_sig.items():
            self._add(sig, count, d)
        self.samples = (self.samples + other.samples)[:3]


class MergedCheck(Check):
    def __init__(self, name, rule, exhaustive, bound, tally, wall):
        super().__init__(name, rule, exhaustive, bound)
        self.tally = tally
        self.wall = wall

    def result(self):
        r = super().result()
        kinds = sorted(self.tally.by_sig.items(), key=lambda kv: Tally._weight(kv[1][1]))
        # the 20 reported failures: first the smallest case of every suspected root cause, then the rest
        seen, head, tail = set(), [], []
        for kv in kinds:
            sus = kv[1][1].get("suspect")
            (tail if sus in seen else head).append(kv)
            seen.add(sus)
        kinds = head + tail
        r.update(
            evaluations=self.tally.ev,
            distinct_nontrivial=self.tally.nt,
            failures=[d for _s, (_c, d) in kinds[:20]],
            samples=self.tally.samples,
            wall_s=round(self.wall, 2),
            failed_evaluations=self.tally.failed,
            failure_kinds=len(kinds),
            failure_summary=[{"sig": s, "count": c} for s, (c, _d) in sorted(self.tally.by_sig.items(), key=lambda kv: -kv[1][0])[:40]],
        )
        return r


# ------------------------------------------------------------------------------------------------
# the oracle
def _detail(desc, size, why, sig, **kw):
    d = {"tree": desc, "size": list(size), "why": why, "sig": f"{sig} [{_root_kind(desc)}]", "source": source(desc)}
    d.update(kw)
    return d


def _tup(x):
    return None if x is None else tuple(x)


def focus_leaf_kind(dr):
    fl = dr.focus_leaf()
    if len(fl) != 1:
        return None, fl
    return desc_at(dr.tree.desc, fl[0])[0], fl


def check_cursor(desc, size, dr):
    """-> dict clause -> (ok, nontrivial, detail)"""
    out = {}
    kind, fl = focus_leaf_kind(dr)
    if len(fl) > 1:
        out["cursor-drawn"] = (False, True, _detail(desc, size, f"several leaves rendered with focus: {fl}", "two focus leaves"))
        return out
    if kind is None or kind == "text":
        return out  # focus chain does not implement the cursor protocol: outside the quantifier
    leaf = dr.tree.nodes[fl[0]]
    lcur = leaf._last[2].cursor
    x0, y0, _c, _r = dr.rect[fl[0]]
    want = None if lcur is None else (lcur[0] + x0, lcur[1] + y0)
    got_r = _tup(dr.cursor)
    out["cursor-drawn"] = (
        got_r == want,
        want is not None,
        _detail(desc, size, "render(size, True).cursor is not where the focus leaf's cursor is drawn", f"cursor-drawn {kind}", rendered=got_r, expected=want, focus_leaf=list(fl[0]), leaf_rect=list(dr.rect[fl[0]]), leaf_cursor=_tup(lcur)),
    )
    fresh = Tree(desc)
    try:
        rep = _tup(fresh.root.get_cursor_coords(size)) if hasattr(fresh.root, "get_cursor_coords") else None
    except Exception as e:  # noqa: BLE001
        out["cursor-report"] = (False, True, _detail(desc, size, f"get_cursor_coords raised {type(e).__name__}: {e}", f"get_cursor_coords raised {type(e).__name__}", rendered=got_r))
        return out
    det = None
    if rep != got_r:
        try:
            again = _tup(dr.tree.root.get_cursor_coords(size))  # the same question to the tree that has been rendered
        except Exception as e:  # noqa: BLE001
            again = f"raised {type(e).__name__}"
        det = _detail(desc, size, f"get_cursor_coords(size) of the never-rendered tree is {rep}, render(size, True).cursor is {got_r} (asked again after rendering: {again})", "report != render", reported=rep, rendered=got_r, reported_after_render=again)
    out["cursor-report"] = (rep == got_r, got_r is not None, det)
    return out


PADDING_DELIVERIES = {}  # container kind -> events handed to a child for a cell in the container's own padding (informational)


def judge_mouse(desc, size, dr, tree, col, row, event, button):
    """Send one event to tree.root (already in the state to be tested); compare deliveries with dr."""
    del tree.log[:]
    try:
        tree.root.mouse_event(size, event, button, col, row, True)
    except Exception as e:  # noqa: BLE001
        return False, _detail(desc, size, f"mouse_event raised {type(e).__name__}: {e}", f"mouse_event raised {type(e).__name__}", cell=[col, row], event=[event, button])
    got = {}
    dup = None
    for rec in tree.log:
        if rec[0] == "mouse" and rec[1] != ():
            if rec[1] in got:
                dup = rec[1]
            got[rec[1]] = (rec[2], rec[5], rec[6])
    top_rects = [p for p in dr.rect if dr.tree.kind.get(p[:-1]) == "overlay" and p and p[-1] == 0 and dr.contains(p, col, row)]
    problems = []
    for p, w in dr.tree.nodes.items():
        if p == ():
            continue
        if w._background:
            # bottom of an Overlay: background; must get nothing when the click is on that Overlay's top widget
            if p in got and any(p[: len(t) - 1] == t[:-1] for t in top_rects):
                problems.append(f"background node {list(p)} of an Overlay received a click on the top widget")
            continue
        inside = dr.contains(p, col, row)
        if inside and p not in got:
            problems.append(f"node {list(p)} ({dr.tree.kind[p]}) is drawn at the cell (rect {list(dr.rect[p])}) but received nothing")
        elif not inside and p in got:
            # "... and to no other child": binding when a sibling IS drawn at the cell.  A cell in the
            # parent's own padding (no child drawn there) is not constrained by the statement: counted
            # separately (Columns hands the cell under a short column to that column's widget).
            sib = [q for q in dr.tree.nodes[p[:-1]]._kids if q != p and q in dr.rect and dr.contains(q, col, row)]
            if sib:
                problems.append(f"node {list(p)} ({dr.tree.kind[p]}) is not drawn at the cell (rect {list(dr.rect[p])}) but received {got[p]}, while node {list(sib[0])} is drawn there")
            elif event == "mouse release":
                PADDING_DELIVERIES[dr.tree.kind[p[:-1]]] = PADDING_DELIVERIES.get(dr.tree.kind[p[:-1]], 0) + 1
        elif inside:
            x0, y0, _c, _r = dr.rect[p]
            want = (dr.node_size[p], col - x0, row - y0)
            if got[p] != want:
                problems.append(f"node {list(p)} ({dr.tree.kind[p]}) received (size, col, row) = {got[p]}, drawn geometry says {want}")
    if dup is not None:
        problems.append(f"node {list(dup)} received the event more than once")
    if problems:
        first = problems[0]
        kind = first.split("(")[1].split(")")[0] if "(" in first else "?"
        cat = "nothing" if "received nothing" in first else "not drawn" if "is not drawn" in first else "wrong coordinates" if "drawn geometry says" in first else "other"
        return False, _detail(desc, size, "; ".join(problems[:3]), f"mouse {cat} child={kind}", cell=[col, row], event=[event, button])
    return True, None


def _selectable(w):
    return bool(w.selectable())


def _rendered_tree(desc, size):
    t = Tree(desc)
    CanvasCache.clear()
    t.root.render(size, True)
    return t


def expected_move(desc, size, dr, col, row, fast=False):
    """Reference answer(s) for root.move_cursor_to_coords(size, col, row): list of (child path | None,
    expected success, note).  More than one entry only for ties between equally near children."""
    root = dr.tree.root
    kids = [p for p in root._kids if not dr.tree.nodes[p]._background]
    bands = {}
    for p in kids:
        bands.setdefault(dr.rect[p][1], []).append(p)
    band = None
    for y0, ps in bands.items():
        if y0 <= row < y0 + max(dr.rect[p][3] for p in ps):
            band = ps
    if band is None:
        return [(None, False, "no child is drawn on that row")]
    cands = [p for p in band if _selectable(dr.tree.nodes[p])]
    if not cands:
        return [(None, False, "no selectable child on that row")]

    def dist(p):
        x0, _y, c, _r = dr.rect[p]
        if col < x0:
            return x0 - col
        if col >= x0 + c:
            return col - (x0 + c - 1)
        return 0

    m = min(dist(p) for p in cands)
    out = []
    for p in cands:
        if dist(p) != m:
            continue
        x0, y0, c, r = dr.rect[p]
        if not (y0 <= row < y0 + r):
            out.append((p, False, f"child {list(p)} is not drawn on row {row} (its rows are {y0}..{y0 + r - 1})"))
            continue
        twin = (Tree(desc) if fast else _rendered_tree(desc, size)).nodes[p]  # a twin of the child, in the same state
        cx, cy = min(max(col - x0, 0), c - 1), row - y0
        if hasattr(twin, "move_cursor_to_coords"):
            try:
                acc = bool(twin.move_cursor_to_coords(dr.node_size[p], cx, cy))
            except Exception as e:  # noqa: BLE001  (the child's own failure is judged where the child is the root)
                out.append((p, None, f"child {list(p)} ({dr.tree.kind[p]}) asked for ({cx}, {cy}) at size {dr.node_size[p]} raised {type(e).__name__}"))
                continue
        else:
            acc = True
        out.append((p, acc, f"child {list(p)} ({dr.tree.kind[p]}) asked for ({cx}, {cy}) at size {dr.node_size[p]} answers {acc}"))
    return out


def _focus_path(t):
    """Path of the leaf at the end of the focus chain, read from the widgets' own focus attributes."""
    p = ()
    while t.kind[p] not in LEAF_KINDS:
        w = t.nodes[p]
        if t.kind[p] in ("attr", "linebox", "padding", "filler", "boxadapter"):
            p = (*p, 0)
            continue
        f = w.focus
        nxt = [q for q in w._kids if t.nodes[q] is f]
        if len(nxt) != 1:
            return None
        p = nxt[0]
    return p


def judge_move(desc, size, dr, col, row, fast=True):
    """-> (ok, nontrivial, detail).

    Full procedure (fast=False): the tree is built and rendered at `size` first (the statement is about a
    rendered tree; asking a never-rendered GridFlow is C08's stale-display-widget matter), likewise the
    twin that answers for the child; after a successful move the tree is rendered again to find the focus
    leaf and the rectangles.  Fast path: no rendering (rendering has no bearing on the answer except
    through GridFlow's display widget, so trees with a GridFlow always take the full procedure), focus
    leaf read from the widgets' focus attributes, rectangles from the first rendering.  A failure on the
    fast path is never reported: the case is judged again by the full procedure."""
    fast = fast and "gridflow" not in dr.tree.kind.values()
    t = Tree(desc) if fast else _rendered_tree(desc, size)
    if not hasattr(t.root, "move_cursor_to_coords"):
        return True, False, None

    def again():
        return judge_move(desc, size, dr, col, row, fast=False)

    exp = expected_move(desc, size, dr, col, row, fast)
    try:
        res = t.root.move_cursor_to_coords(size, col, row)
    except Exception as e:  # noqa: BLE001
        if fast:
            return again()
        return False, True, _detail(desc, size, f"move_cursor_to_coords raised {type(e).__name__}: {e}", f"move raised {type(e).__name__}", cell=[col, row])
    ok_res = bool(res)
    if not any(e[1] is None or e[1] == ok_res for e in exp):
        if fast:
            return again()
        kid = exp[0][0]
        ck = dr.tree.kind[kid] if kid is not None else "none drawn on the row; children: " + ",".join(sorted({dr.tree.kind[q] for q in dr.tree.root._kids}))
        return False, True, _detail(desc, size, f"returned {res!r}; reference: {'; '.join(e[2] for e in exp)}", f"move returned {ok_res} expected {exp[0][1]} child={ck}", cell=[col, row], returned=repr(res))
    if not ok_res:
        return True, True, None
    try:
        after = _tup(t.root.get_cursor_coords(size)) if hasattr(t.root, "get_cursor_coords") else None
    except Exception as e:  # noqa: BLE001
        if fast:
            return again()
        return False, True, _detail(desc, size, f"get_cursor_coords after a successful move raised {type(e).__name__}: {e}", f"cursor after move raised {type(e).__name__}", cell=[col, row])
    if fast:
        leaf = _focus_path(t)
        if leaf is None:
            return again()
        rects = dr.rect
        k2 = t.kind[leaf]
    else:
        d2 = Drawn(t, size)
        if d2.error or d2.unfit:
            return False, True, _detail(desc, size, f"after the successful move the tree no longer renders whole: {d2.error or d2.unfit}", "unfit after move", cell=[col, row])
        k2, fl2 = focus_leaf_kind(d2)
        if len(fl2) != 1:
            return False, True, _detail(desc, size, f"after the successful move {len(fl2)} leaves are rendered with focus", "focus leaves after move", cell=[col, row])
        leaf = fl2[0]
        rects = d2.rect
    # "afterwards the reported cursor is on the requested row".  A widget on the new focus chain that does
    # not define move_cursor_to_coords (SelectableIcon; ListBox, Frame, Overlay) cannot be asked to place
    # its cursor: it takes the focus as a whole.  For the first such widget N the demand is: the requested
    # row is one of N's drawn rows and the reported cursor (if any) is inside N's rows (for a one-row
    # SelectableIcon that is the requested row itself).  Without such a widget: exactly the requested row.
    chain = [leaf[:i] for i in range(1, len(leaf) + 1)]
    blocker = next((p for p in chain if not hasattr(t.nodes[p], "move_cursor_to_coords")), None)
    if blocker is None:
        if after is None:
            if fast:
                return again()
            if t.nodes[leaf]._last[2].cursor is None:
                return True, False, None  # a leaf that shows no cursor at all
            return False, True, _detail(desc, size, f"move succeeded but get_cursor_coords reports no cursor (focus leaf {list(leaf)}, {k2})", "no cursor after move", cell=[col, row])
        if after[1] != row:
            if fast:
                return again()
            return False, True, _detail(desc, size, f"move to row {row} succeeded but the reported cursor is {after}", f"cursor row after move leaf={k2}", cell=[col, row], after=after)
        return True, True, None
    _x, by, _c, br = rects[blocker]
    bk = t.kind[blocker]
    if not (by <= row < by + br):
        if fast:
            return again()
        return False, True, _detail(desc, size, f"move to row {row} succeeded, the focus went to {bk} {list(blocker)} which is drawn on rows {by}..{by + br - 1}; reported cursor {after}", f"focus went to a widget not on the row ({bk})", cell=[col, row], after=after)
    if after is not None and not (by <= after[1] < by + br):
        if fast:
            return again()
        return False, True, _detail(desc, size, f"move to row {row} succeeded, focus on {bk} {list(blocker)} (rows {by}..{by + br - 1}) but the reported cursor is {after}", f"cursor outside the focused widget ({bk})", cell=[col, row], after=after)
    return True, br == 1, None


# ------------------------------------------------------------------------------------------------
# per-tree driver
def all_sizes(desc):
    if mode(desc) == "flow":
        return [(c,) for c in range(1, MAXC + 1)]
    return [(c, r) for c in range(1, MAXC + 1) for r in range(1, MAXR + 1)]


def _leaf_descs(d):
    if d[0] in LEAF_KINDS:
        yield d
        return
    k = d[0]
    if k in ("attr", "linebox", "padding", "filler", "boxadapter"):
        yield from _leaf_descs(d[1])
    elif k == "pile":
        for _o, c in d[1]:
            yield from _leaf_descs(c)
    elif k == "columns":
        for c in d[1]:
            yield from _leaf_descs(c[1])
    elif k == "frame":
        for c in d[1:4]:
            if c is not None:
                yield from _leaf_descs(c)
    elif k == "overlay":
        yield from _leaf_descs(d[1])
    elif k in ("listbox", "gridflow"):
        for c in d[1]:
            yield from _leaf_descs(c)


def lower_bound(desc):
    needs = [leaf_need(x) for x in _leaf_descs(desc)]
    return max(n[0] for n in needs), max(n[1] for n in needs)


def dominates(a, b):
    return len(a) == len(b) and all(x >= y for x, y in zip(a, b))


def suspect(desc, dr, det):
    """A label for the two root causes that propagate to every tree containing them (an aid for reading
    the failure summary; the verdict never depends on it)."""
    why = det.get("why", "")
    kinds = dr.tree.kind
    if "overlay" in kinds.values() and ("too many values to unpack (expected 1)" in why or "non-iterable NoneType" in why):
        return "Overlay.get_cursor_coords gives its top widget a box size / unpacks None (DESIGN 7-d)"
    for p, k in kinds.items():
        if k == "padding" and isinstance(desc_at(desc, p)[3], int) and dr.node_size.get(p) == ():
            return "Padding(width=given) at the fixed size (): render sizes the child (width,), the other entry points pass ()"
    if det.get("reported_after_render", 0) == det.get("rendered", 1) and "gridflow" in kinds.values():
        return "never-rendered GridFlow: pack((cols,)) is answered by the stale display widget"
    sig = det.get("sig", "")
    if sig.startswith("mouse nothing") and any(k == "overlay" and desc_at(desc, p)[6] == "pack" and desc_at(desc, p)[4] != "pack" for p, k in kinds.items()):
        return "Overlay measures the rows of a flow top widget at the full width, not at the top widget's width"
    if sig.startswith(("move returned True expected False", "focus went to a widget not on the row", "cursor row after move")):
        for p, k in kinds.items():
            if k == "filler" and not hasattr(dr.tree.nodes[(*p, 0)], "move_cursor_to_coords"):
                return "Filler.move_cursor_to_coords answers True before looking at the row when its child defines no move_cursor_to_coords"
        if "columns" in kinds.values() or "gridflow" in kinds.values() or "button" in kinds.values() or "check" in kinds.values():
            return "Columns.move_cursor_to_coords passes any row to the chosen column (also inside Button / CheckBox / GridFlow): a row below a short column is accepted"
    return None


def _fin(desc, dr, det):
    if det:
        s = suspect(desc, dr, det)
        if s:
            det["suspect"] = s
            det["sig"] = f"{det['sig']} <{s.split(':')[0].split(' (')[0][:60]}>"
    return det


def eval_size(desc, size, dr, tallies, press=True, cells=None):
    sample = {"tree": source(desc), "size": list(size)}
    for clause, (ok, nt, det) in check_cursor(desc, size, dr).items():
        tallies[clause].case(ok, _fin(desc, dr, None if ok else det), nt, sample)
    kind, _fl = focus_leaf_kind(dr)
    in_quantifier = kind in ("edit", "icon", "button", "check")  # focus chain implements the cursor protocol
    has_move = hasattr(dr.tree.root, "move_cursor_to_coords")
    has_grid = "gridflow" in dr.tree.kind.values()
    for row in range(dr.rows):
        for col in range(dr.cols):
            if cells is not None and (col, row) not in cells:
                continue
            s2 = {**sample, "cell": [col, row]}
            ok, det = judge_mouse(desc, size, dr, dr.tree, col, row, "mouse release", 0)
            tallies["mouse-hit"].case(ok, _fin(desc, dr, det), True, s2)
            if press:
                # fast path without rendering first (never reported); the verdict comes from a rendered tree
                ok = FAST and not has_grid and judge_mouse(desc, size, dr, Tree(desc), col, row, "mouse press", 1)[0]
                det = None
                if not ok:
                    ok, det = judge_mouse(desc, size, dr, _rendered_tree(desc, size), col, row, "mouse press", 1)
                tallies["mouse-press"].case(ok, _fin(desc, dr, det), True, s2)
            if has_move and in_quantifier:
                ok, nt, det = judge_move(desc, size, dr, col, row, fast=FAST)
                tallies["move-cursor"].case(ok, _fin(desc, dr, det), nt, s2)
    if not has_move and in_quantifier:
        tallies["move-cursor"].case(True, None, False, sample)


def eval_tree(args):
    desc, policy, seedint, *rest = args
    press = rest[0] if rest else True  # False: the tree is there for the cursor / move clauses, the press clause is skipped
    tallies = {c: Tally() for c in CLAUSES}
    with _Utf8():
        try:
            fixed_ok = urwid.Sizing.FIXED in Tree(desc).root.sizing()
        except (urwid.WidgetError, ValueError, TypeError) as e:
            # the generator combined widgets in a way the constructors refuse (not under test): no case
            return tallies, {"sizes_tried": 0, "sizes_fit": 0, "invalid": f"{type(e).__name__}: {e}"[:200], "padding_deliveries": {}}
        lc, lr = lower_bound(desc)
        sizes = [s for s in all_sizes(desc) if s[0] >= lc and (len(s) == 1 or s[1] >= lr)]
        fits = []
        stats = {"sizes_tried": 0, "sizes_fit": 0}
        PADDING_DELIVERIES.clear()

        def attempt(size):
            stats["sizes_tried"] += 1
            dr = Drawn(Tree(desc), size)
            if dr.error:
                dom = [f for f in fits if dominates(size, f)]
                if dom:
                    tallies["fitting-render"].case(False, _detail(desc, size, f"render raised {dr.error} although the smaller size {dom[0]} fits", "render raised"), True)
                return False
            if dr.unfit:
                return False
            fits.append(size)
            stats["sizes_fit"] += 1
            tallies["fitting-render"].case(True, None, True, {"tree": source(desc), "size": list(size)})
            eval_size(desc, size, dr, tallies, press=press)
            return True

        if fixed_ok:
            attempt(())  # the widget declares FIXED sizing: the size () is one of "all sizes"
        if policy == "all":
            for s in sizes:
                attempt(s)
        else:
            # smallest fitting size by area, then `policy` seeded random further sizes, then the largest size
            r = rng(seedint)
            by_area = sorted(sizes, key=lambda s: (s[0] * (s[1] if len(s) == 2 else 1), s))
            first = None
            for s in by_area:
                if attempt(s):
                    first = s
                    break
            if first is not None:
                rest = [s for s in sizes if s != first and dominates(s, first)]
                r.shuffle(rest)
                done = 0
                for s in rest[: 4 * policy]:
                    if done >= policy:
                        break
                    if attempt(s):
                        done += 1
        CanvasCache.clear()
        stats["padding_deliveries"] = dict(PADDING_DELIVERIES)
    return tallies, stats


# ------------------------------------------------------------------------------------------------
# tree enumeration
E1 = ["edit", "", "ab", 1]
E2 = ["edit", "c:", "x\nyz", 3]
E3 = ["edit", "", "", 0]
E4 = ["edit", "q\n", "a\nb", 2]
IC = ["icon", "[*]", 1]
BT = ["button", "ok"]
CB = ["check", "v"]
TX = ["text", "tt"]
T3 = ["text", "p\nq\nr"]
LEAVES = [E1, E2, E3, E4, IC, BT, CB, TX, T3]

PAD_FLOW = [("left", ["relative", 100], 1, 2, None), ("center", 7, 0, 0, None), ("right", "pack", 0, 1, None), (["relative", 30], ["relative", 70], 0, 0, 3)]
PAD_BOX = [("left", ["relative", 100], 1, 2, None), (["relative", 30], ["relative", 70], 0, 0, 3)]
FIL_FLOW = [("top", "pack", 0, 0, None), ("middle", "pack", 0, 0, None), ("bottom", "pack", 1, 0, None), (["relative", 40], "pack", 1, 1, None)]
FIL_BOX = [("top", 3, 0, 0, None), ("middle", ["relative", 60], 0, 1, 2)]
OV_FLOW = [("center", ["relative", 60], "middle", "pack", 0, 0, 0, 0), ("left", 7, "top", "pack", 1, 0, 1, 0), ("right", ["relative", 80], "bottom", "pack", 0, 1, 0, 1), ("center", "pack", "middle", "pack", 0, 0, 0, 0)]
OV_BOX = [("center", ["relative", 70], "middle", ["relative", 60], 0, 0, 0, 0), ("left", 8, "bottom", 3, 1, 0, 0, 1)]
FRAMES = [(None, None, "body"), (TX, None, "body"), (E1, TX, "header"), (TX, E1, "footer"), (IC, BT, "body")]


def unary_flow(x):
    yield ["attr", x]
    yield ["linebox", x]
    for a, w, l, r, m in PAD_FLOW:
        yield ["padding", x, a, w, l, r, m]
    for v, h, t, b, m in FIL_FLOW:
        yield ["filler", x, v, h, t, b, m]
    for o in OV_FLOW:
        yield ["overlay", x, None, *o]
    yield ["overlay", x, ["filler", E1, "top", "pack", 0, 0, None], *OV_FLOW[0]]


def unary_box(b):
    yield ["attr", b]
    yield ["linebox", b]
    for a, w, l, r, m in PAD_BOX:
        yield ["padding", b, a, w, l, r, m]
    for v, h, t, bo, m in FIL_BOX:
        yield ["filler", b, v, h, t, bo, m]
    for o in OV_BOX:
        yield ["overlay", b, None, *o]
    yield ["boxadapter", b, 3]
    yield ["boxadapter", b, 5]
    for h, f, part in FRAMES:
        yield ["frame", b, h, f, part]
    yield ["pile", [["pack", TX], [["weight", 1], b]], None, False]
    yield ["pile", [[["given", 4], b], ["pack", E1]], None, False]
    yield ["columns", [[["weight", 1], b, False], [["given", 4], ["filler", E1, "top", "pack", 0, 0, None], False]], 1, None]
    yield ["columns", [[["given", 5], b, True], [["weight", 1], E2, False]], 0, None]


def nary_flow(groups):
    """groups: list of child tuples (flow nodes)."""
    for g in groups:
        n = len(g)
        for foc in [None, *range(n)]:
            yield ["pile", [["pack", c] for c in g], foc, False]
        yield ["pile", [["pack", c] for c in g], None, True]
        for div in (0, 2):
            yield ["columns", [[["weight", 1], c, False] for c in g], div, None]
        yield ["columns", [[["given", 6] if i == 0 else ["weight", 2], c, False] for i, c in enumerate(g)], 1, n - 1]
        yield ["columns", [["pack" if i == n - 1 else ["weight", 1], c, False] for i, c in enumerate(g)], 1, 0]
        yield ["listbox", list(g), None]
        yield ["listbox", list(g), n - 1]
        yield ["gridflow", list(g), 6, 1, 1, "left", None]
        yield ["gridflow", list(g), 5, 2, 0, "center", n - 1]


GROUPS0 = [(TX, E1), (E2, IC), (BT, T3, CB), (E4, E1), (IC, TX, E3), (T3, E2)]


def level1():
    out = []
    for x in LEAVES:
        out.extend(unary_flow(x))
    out.extend(nary_flow(GROUPS0))
    return out


def next_level(prev):
    out = []
    for x in prev:
        if x[0] == "pile" and x[3]:
            continue  # a flow Pile rendered at a box size is used as a root only (it does not declare box sizing)
        if mode(x) == "flow":
            out.extend(unary_flow(x))
            out.extend(nary_flow([(x, E1), (TX, x), (E2, x, IC)]))
        else:
            out.extend(unary_box(x))
    return out


def _dedup(trees):
    seen = set()
    out = []
    for t in trees:
        k = json.dumps(t)
        if k not in seen:
            seen.add(k)
            out.append(t)
    return out


# ------------------------------------------------------------------------------------------------
# Two-container trees that are always included (they showed the GridFlow / Overlay root causes found while
# building this check; the quick tier's sample of two-container trees need not contain such a tree).
CURATED = [
    ["pile", [["pack", ["gridflow", [E2, IC], 5, 2, 0, "center", 1]], ["pack", E1]], 1, False],
    ["overlay", ["gridflow", [TX, E1], 5, 2, 0, "center", 1], None, "left", 7, "top", "pack", 1, 0, 1, 0],
    ["overlay", ["gridflow", [TX, E1], 5, 2, 0, "center", 1], None, "right", ["relative", 80], "bottom", "pack", 0, 1, 0, 1],
    ["filler", ["padding", IC, "left", ["relative", 100], 1, 2, None], "middle", "pack", 0, 0, None],
    ["pile", [[["given", 4], ["filler", IC, "middle", "pack", 0, 0, None]], ["pack", E1]], None, False],
    ["columns", [[["weight", 1], ["pile", [["pack", TX], ["pack", E2]], None, False], False], [["weight", 1], CB, False]], 1, None],
]


# ------------------------------------------------------------------------------------------------
# Uneven heights (always included, both tiers).  The move-cursor clause ("succeeds exactly when the wrapped
# widget accepts the correspondingly translated cell, and afterwards the reported cursor is on the requested
# row") has cells that no single child covers only where siblings differ in height: the rows of a Columns
# below a short column, the rows of a box column / BoxAdapter around a Filler above and below the Filler's
# child.  Who has to refuse such a row depends on who *can*: SelectableIcon has no move_cursor_to_coords,
# AttrMap answers hasattr() as its child does, Padding / BoxAdapter always have the method and pass the row
# through (or answer True) without looking at it, Button / CheckBox / LineBox have it through their inner
# Columns / Pile.  So every cursor-less-protocol leaf is put under every decoration stack of depth <= 2 and
# used as the short child next to taller siblings, at every position, under every width option.
E3R = ["edit", "", "a\nb\nc", 0]  # 3 rows, 2 columns
E4R = ["edit", "", "k\nl\nm\nn", 5]  # 4 rows, cursor on the third


def _pad(x, i):
    a, w, l, r, m = (("left", ["relative", 100], 1, 1, None), ("center", "pack", 0, 0, None), ("right", "pack", 0, 1, None), ("left", ["relative", 100], 0, 0, None))[i]
    if w == "pack" and next(_leaf_descs(x))[0] == "edit":
        w = _need_cols(x)  # an Edit packs to its text without the column for the cursor after the last character
    return ["padding", x, a, w, l, r, m]


def _fil(x, valign, h):
    return ["boxadapter", ["filler", x, valign, "pack", 0, 0, None], h]  # a flow widget of h rows, x on one of them


def decorated(x):
    """x bare and under the decoration stacks of depth <= 2 (all one row high unless noted)."""
    yield x
    yield ["attr", x]
    yield _pad(x, 0)
    yield _pad(x, 1)
    yield _pad(["attr", x], 2)
    yield ["attr", _pad(x, 3)]
    yield _pad(_pad(x, 2), 0)
    yield ["attr", ["attr", x]]
    yield _fil(x, "middle", 3)  # 3 rows, x on the second
    yield _fil(_pad(x, 3), "bottom", 2)  # 2 rows, x on the second
    yield _pad(_fil(x, "top", 2), 3)  # 2 rows, x on the first
    yield ["linebox", x]  # 3 rows, x on the second


def _need_cols(d):
    """Columns the subtree needs at least (for choosing a given width); generous by the margins."""
    k = d[0]
    if k in LEAF_KINDS:
        return leaf_need(d)[0]
    if k == "padding":
        return _need_cols(d[1]) + d[4] + d[5]
    if k == "linebox":
        return _need_cols(d[1]) + 2
    return _need_cols(d[1])


def uneven(full=False):
    """quick: every decoration stack around SelectableIcon under every container shape; around Button,
    CheckBox and a one-row Edit (which bring their own move_cursor_to_coords) four stacks under the basic
    shapes.  full: all."""
    out = []
    for x in (IC, BT, CB, E1):
        for n, s in enumerate(decorated(x)):
            if not full and x is not IC and n not in (0, 2, 5, 8):
                continue
            boxad = "boxadapter" in json.dumps(s)  # a BoxAdapter (like an Edit) is a flow widget only: no 'pack' column for it
            g = ["given", _need_cols(s)]
            w1 = ["weight", 1]
            # the short child left / right of a taller Edit, under given / weight / pack widths, both initial foci
            out.append(["columns", [[g, s, False], [w1, E4R, False]], 1, 0])
            out.append(["columns", [[g, s, False], [w1, E4R, False]], 0, 1])
            out.append(["columns", [[w1, E4R, False], [g if boxad or x is E1 else "pack", s, False]], 2, 0])
            out.append(["columns", [[["weight", 3], s, False], [w1, E3R, False]], 1, None])
            # no weight column: the Columns declares FIXED sizing and is also asked at the size () (pack columns sized ())
            out.append(["columns", [[g if boxad or x is E1 else "pack", s, False], [["given", 3], E4R, False]], 1, 1])
            # the taller neighbour is not selectable: the short child is the nearest selectable for every cell
            out.append(["columns", [[["given", 2], T3, False], [w1, s, False]], 0, None])
            # the Columns is itself a child (rows shifted), the focus starts outside it
            out.append(["pile", [["pack", TX], ["pack", ["columns", [[g, s, False], [w1, E3R, False]], 1, 1]], ["pack", E1]], 2, False])
            # the short child as a box column under a Filler (the Filler gets the rows of the tallest column)
            out.append(["columns", [[g, ["filler", s, "middle", "pack", 0, 0, None], True], [w1, E4R, False]], 1, None])
            # children of a Pile of uneven height: every row belongs to exactly one child
            out.append(["pile", [["pack", s], ["pack", E3R], [["given", 3], ["filler", s, "bottom", "pack", 0, 0, None]]], 1, False])
            if x is IC or (full and x is E1):  # (the wider Button / CheckBox do not fit three abreast in 12 columns)
                out.append(["columns", [[w1, E3R, False], [g, s, False], [w1, E4R, False]], 1, 2])
                # the short column is a container of two rows / a row of two
                out.append(["columns", [[g, ["pile", [["pack", s], ["pack", IC]], None, False], False], [w1, E4R, False]], 1, 1])
                out.append(["columns", [[["given", _need_cols(s) + 4], ["columns", [[g, s, False], [["given", 3], IC, False]], 1, None], False], [w1, E3R, False]], 0, None])
                out.append(["columns", [[g, ["attr", ["columns", [[w1, s, False]], 0, None]], False], [w1, E3R, False]], 1, 1])
                out.append(["gridflow", [s, E3R, IC], max(_need_cols(s), 3), 1, 0, "left", 1])
    return _dedup(out)


def _plan(tier, seed):
    r = rng(seed)
    l1 = _dedup(level1())
    l2 = _dedup(next_level(l1))
    tasks = [(t, 2, seed * 100003 + 990000 + i) for i, t in enumerate(CURATED)]
    un = uneven(full=tier != "quick")
    # quick: the press clause is skipped for these trees (mouse-hit, the cursor clauses and move-cursor are judged)
    tasks += [(t, 1, seed * 100003 + 800000 + i, False) if tier == "quick" else (t, "all", seed * 100003 + 800000 + i) for i, t in enumerate(un)]
    if tier == "quick":
        tasks += [(t, 1, seed * 100003 + i) for i, t in enumerate(l1)]
        pick = r.sample(range(len(l2)), 350)
        tasks += [(l2[i], 1, seed * 100003 + 50000 + i) for i in sorted(pick)]
        desc = f"{len(CURATED)} curated trees; {len(un)} uneven-height trees (decorated SelectableIcon / Button / CheckBox / one-row Edit as the short child of Columns / Pile / GridFlow next to taller siblings) at the smallest fitting size + 1 larger, press clause skipped; all {len(l1)} one-container trees at their smallest fitting size + 1 seeded larger size; 350 of {len(l2)} two-container trees (seeded sample) at the smallest fitting size + 1 larger"
    else:
        tasks += [(t, "all", 0) for t in l1]
        tasks += [(t, 1, seed * 100003 + 50000 + i) for i, t in enumerate(l2)]
        l3n = 0
        # three containers: seeded sample, generated lazily from a sample of level 2
        base = [l2[i] for i in sorted(r.sample(range(len(l2)), 400))]
        l3 = _dedup(next_level(base))
        pick = sorted(r.sample(range(len(l3)), min(len(l3), 2000)))
        tasks += [(l3[i], 1, seed * 100003 + 900000 + i) for i in pick]
        l3n = len(pick)
        desc = f"{len(CURATED)} curated trees; {len(un)} uneven-height trees at every fitting size; all {len(l1)} one-container trees at every fitting size; all {len(l2)} two-container trees at the smallest fitting size + 1 seeded larger; {l3n} three-container trees (seeded sample) at the smallest fitting size + 1 larger"
    return tasks, desc


def run(tier="quick", seed=0):
    t0 = time.time()
    tasks, desc = _plan(tier, seed)
    procs = max(1, min(16, os.cpu_count() or 1))
    ctx = multiprocessing.get_context("fork")
    with ctx.Pool(procs) as pool:
        parts = pool.map(eval_tree, tasks, chunksize=4)
    total = {c: Tally() for c in CLAUSES}
    tried = fit = nofit = 0
    padding = {}
    invalid = []
    for tallies, stats in parts:
        for k, v in stats.get("padding_deliveries", {}).items():
            padding[k] = padding.get(k, 0) + v
        for c, t in tallies.items():
            total[c].merge(t)
        tried += stats["sizes_tried"]
        fit += stats["sizes_fit"]
        nofit += stats["sizes_fit"] == 0
        if "invalid" in stats:
            invalid.append(stats["invalid"])
    wall = time.time() - t0
    bound = (
        f"leaves Edit x4 / SelectableIcon / Button / CheckBox / Text x2 under AttrMap, LineBox, Padding, Filler, Overlay, BoxAdapter, Frame, Pile, Columns, ListBox, GridFlow; {desc}; "
        f"sizes <= {MAXC}x{MAXR} satisfying the fit precondition ({fit} fitting of {tried} rendered, {nofit} of {len(tasks)} trees fit nowhere); every cell of the rendered area"
    )
    checks = [MergedCheck(f"{ID}/{c}", rule, False, bound, total[c], wall).result() for c, rule in CLAUSES.items()]
    return {"checks": checks, "bound": bound, "info": {"trees_refused_by_constructors": len(invalid), "refusals": sorted(set(invalid))[:10], "events_delivered_for_cells_in_a_containers_own_padding (not constrained by the statement)": padding}}


def replay(check_name, case):
    clause = check_name.split("/", 1)[1] if "/" in check_name else check_name
    desc, size = case["tree"], tuple(case["size"])
    with _Utf8():
        dr = Drawn(Tree(desc), size)
        if clause == "fitting-render":
            return {"outcome": "confirmed" if dr.error else "not-reproduced", "detail": {"error": dr.error}}
        if dr.error or dr.unfit:
            return {"outcome": "not-reproduced", "detail": {"error": dr.error, "unfit": dr.unfit}}
        if clause in ("cursor-report", "cursor-drawn"):
            res = check_cursor(desc, size, dr).get(clause)
            ok, det = (True, None) if res is None else (res[0], res[2])
        elif clause == "mouse-hit":
            ok, det = judge_mouse(desc, size, dr, dr.tree, case["cell"][0], case["cell"][1], "mouse release", 0)
        elif clause == "mouse-press":
            ok, det = judge_mouse(desc, size, dr, _rendered_tree(desc, size), case["cell"][0], case["cell"][1], "mouse press", 1)
        elif clause == "move-cursor":
            ok, _nt, det = judge_move(desc, size, dr, case["cell"][0], case["cell"][1], fast=False)
        else:
            raise ValueError(check_name)
    return {"outcome": "not-reproduced" if ok else "confirmed", "detail": det or {}}
