"""C16 bounded stand-in: every list operation with every index/slice on small lists, against a plain
list plus the focus spec (spec/focus.py). Also the replay oracle for C16's deductive obligations.

The same exhaustive family runs on every monitored list the statement names ("the monitored lists used for
container contents and list walkers"):
  mfl        a bare MonitoredFocusList with recording callbacks
  pile / columns / gridflow
             the `.contents` list of a real Pile / Columns / GridFlow (its own callbacks wired by the constructor stay in
             place: `_contents_modified` / `_invalidate` / the validators run inside every call), children selectable or not
  sflw       SimpleFocusListWalker, "modified" observed through a connected signal subscriber (with and without a
             user focus-changed callback)
  slw        SimpleListWalker (a MonitoredList with a plain focus attribute: list behaviour, the signal, focus in range)
"""
from __future__ import annotations

import multiprocessing
import os
import warnings

from bounded.common import Check, rng
from spec.focus import focus_after

import urwid
from urwid.widget.monitored_list import MonitoredFocusList


def _representatives(slices, n):
    """One raw slice per class of slices that `slice.indices(n)` maps to the same (start, stop, step): the class member is
    picked by a fixed arithmetic rule so that the representatives keep every raw form (None, negative, out of range)."""
    classes = {}
    for sl in slices:
        classes.setdefault(sl.indices(n), []).append(sl)
    for (a, b, c), members in classes.items():
        yield members[(a * 7 + b * 3 + c * 5 + n) % len(members)]


def _ops(n, rg_idx, steps, quick, dedupe=False):
    vals = [None, *rg_idx]
    for i in rg_idx:
        yield ("delitem", i)
        yield ("setitem", i, "N")
        yield ("pop", i)
        yield ("insert", i, "N")
    slices = [slice(a, b, c) for a in vals for b in vals for c in steps]
    if dedupe:
        slices = list(_representatives(slices, n))
    for sl in slices:
        yield ("delitem", sl)
        for k in (0, 1, 2, 3):
            yield ("setitem", sl, ["N%d" % j for j in range(k)])
    yield ("append", "N")
    for k in (0, 1, 3):
        yield ("extend", ["N%d" % j for j in range(k)])
        yield ("iadd", ["N%d" % j for j in range(k)])
    for m in (-1, 0, 1, 2, 3):
        yield ("imul", m)
    for v in list(range(n)) + ["absent"]:
        yield ("remove", v)
    yield ("reverse",)
    yield ("sort",)
    yield ("sort_perm",)
    yield ("sort_rev",)
    yield ("clear",)
    yield ("pop_default",)


def apply(lst, op, key=str):
    k = op[0]
    if k == "delitem":
        del lst[op[1]]
    elif k == "setitem":
        lst[op[1]] = op[2]
    elif k == "pop":
        lst.pop(op[1])
    elif k == "pop_default":
        lst.pop()
    elif k == "insert":
        lst.insert(op[1], op[2])
    elif k == "append":
        lst.append(op[1])
    elif k == "extend":
        lst.extend(op[1])
    elif k == "iadd":
        lst += op[1]
    elif k == "imul":
        lst *= op[1]
    elif k == "remove":
        lst.remove(op[1])
    elif k == "reverse":
        lst.reverse()
    elif k == "sort":
        lst.sort(key=key)
    elif k == "sort_perm":
        lst.sort(key=lambda x: _perm(key(x)))
    elif k == "sort_rev":
        lst.sort(key=key, reverse=True)
    elif k == "clear":
        lst.clear()
    elif k == "assign":
        # whole-list assignment.  op = ("assign", value, snapshot of the value taken before the call, owner or None):
        # a plain list gets `[:] = snapshot`; a container gets `owner.contents = value` (the property SETTER), any other
        # monitored list `lst[:] = value`
        if type(lst) is list:
            lst[:] = op[2]
        elif op[3] is not None:
            op[3].contents = op[1]
        else:
            lst[:] = op[1]
    return lst


def _perm(tag):
    """A fixed non-monotone permutation of the tags 0..6 (so that sorting moves items, and the focus with them)."""
    return (tag * 3) % 7 if isinstance(tag, int) else tag


def touched(op, n, items):
    """(start, stop, step, k) per list semantics, or None when the spec is op-specific."""
    k = op[0]
    if k in ("delitem", "pop", "pop_default"):
        y = -1 if k == "pop_default" else op[1]
        if isinstance(y, slice):
            return (*y.indices(n), 0)
        i = y + n if y < 0 else y
        return (i, i + 1, 1, 0)
    if k == "setitem":
        if isinstance(op[1], slice):
            return (*op[1].indices(n), len(op[2]))
        i = op[1] + n if op[1] < 0 else op[1]
        return (i, i + 1, 1, 1)
    if k == "insert":
        i = max(op[1] + n, 0) if op[1] < 0 else min(op[1], n)
        return (i, i, 1, 1)
    if k == "append":
        return (n, n, 1, 1)
    if k in ("extend", "iadd"):
        return (n, n, 1, len(op[1]))
    if k == "imul":
        return (n, n, 1, n * (op[1] - 1)) if op[1] > 0 else (0, n, 1, 0)
    if k == "remove":
        i = items.index(op[1])
        return (i, i + 1, 1, 0)
    if k == "clear":
        return (0, n, 1, 0)
    if k == "assign":  # positions 0..n-1 replaced in place by len(value) items
        return (0, n, 1, len(op[2]))
    return None


# ------------------------------------------------------------------------------------------------ the lists under test
class _Leaf(urwid.Text):
    """A child widget with a tag (its initial position, or 100+j for the j-th new item) and a chosen selectability."""

    def __init__(self, tag, sel):
        super().__init__(str(tag))
        self.tag = tag
        self._selectable = sel

    def __repr__(self):
        return f"<{self.tag}{'s' if self._selectable else 'u'}>"


_LEAVES = {}


def _leaf(tag, sel):
    """Leaves carry no per-case state (a container keeps no back reference in a child): one object per (tag, sel)."""
    w = _LEAVES.get((tag, sel))
    if w is None:
        w = _LEAVES[tag, sel] = _Leaf(tag, sel)
    return w


# which of the n initial children are selectable, and whether the new items are
MASKS = {
    "all": (lambda i, n: True, False),
    "none": (lambda i, n: False, False),
    "none+selnew": (lambda i, n: False, True),
    "tail": (lambda i, n: i == n - 1, False),
    "head": (lambda i, n: i == 0, False),
}


class _RecPile(urwid.Pile):
    def _contents_modified(self):
        self.rec.append(("container-modified", len(self._contents)))
        super()._contents_modified()

    def _invalidate(self):
        self.rec.append(("invalidate",))
        super()._invalidate()


class _RecColumns(urwid.Columns):
    def _contents_modified(self):
        self.rec.append(("container-modified", len(self._contents)))
        super()._contents_modified()

    def _invalidate(self):
        self.rec.append(("invalidate",))
        super()._invalidate()


class _RecGridFlow(urwid.GridFlow):
    def _invalidate(self):
        self.rec.append(("invalidate",))
        super()._invalidate()


def _tap(ml, events):
    """Record the list's two callbacks WITHOUT replacing what the owner wired: the recorder runs first, then the owner's
    callback (so an exception of the owner's callback propagates exactly as it would without the recorder)."""
    own_mod, own_foc = ml._modified, ml._focus_changed

    def modified():
        events.append(("modified", list(ml)))
        own_mod()

    def focus_changed(i):
        events.append(("focus", i))
        own_foc(i)

    ml.set_modified_callback(modified)
    ml.set_focus_changed_callback(focus_changed)


class Client:
    """One kind of monitored list: how to build it with n items and focus f, which items to add, how to observe."""

    focus_rule = True  # the statement's focus clauses apply (a MonitoredFocusList)
    focus_events = True  # focus-changed callback observable
    variants = ("",)
    error = None  # the owner's own error for an item it refuses (containers)

    def __init__(self, name):
        self.name = name

    def key(self, item):
        return item

    def new(self, j, variant):
        return "N%d" % j

    def bad_item(self):
        return None

    def reweighted(self, item):
        """The same item at the same position with new options (containers); lists of plain items: a new item in its place."""
        return self.new(7, self.variants[0])


class MflClient(Client):
    def build(self, n, f, variant):
        items = list(range(n))
        ml = MonitoredFocusList(items, focus=f if n else 0)
        events = []
        ml.set_modified_callback(lambda: events.append(("modified", list(ml))))
        ml.set_focus_changed_callback(lambda i: events.append(("focus", i)))
        return ml, items, events, None

    def key(self, item):
        return item if isinstance(item, int) else str(item)


class ContainerClient(Client):
    variants = tuple(MASKS)

    def __init__(self, name, cls, error):
        super().__init__(name)
        self.cls = cls
        self.error = error

    def children(self, n, variant):
        sel, _ = MASKS[variant]
        return [_leaf(i, sel(i, n)) for i in range(n)]

    def key(self, item):
        return item[0].tag

    def build(self, n, f, variant):
        ws = self.children(n, variant)
        rec = []
        self.cls.rec = rec  # constructors already invalidate: the class attribute serves until the instance has its own
        if self.name == "pile":
            w = self.cls(ws, focus_item=f if n else None)
        elif self.name == "columns":
            w = self.cls(ws, focus_column=f if n else None)
        else:
            w = self.cls(ws, 3, 1, self.v_sep, "left")
            if n:
                w.focus_position = f
        w.rec = rec
        ml = w.contents
        events = []
        _tap(ml, events)
        del rec[:]
        return ml, list(ml), events, w

    def new(self, j, variant):
        leaf = _leaf(100 + j, MASKS[variant][1])
        if self.name == "pile":
            return (leaf, ("pack", None))
        if self.name == "columns":
            return (leaf, urwid.Columns.options("given", 3))
        return (leaf, ("given", 3))

    def bad_item(self):
        return (_leaf(999, False), ("no-such-sizing", 3))

    def reweighted(self, item):
        w = item[0]
        if self.name == "pile":
            return (w, ("given", 2))
        if self.name == "columns":
            return (w, urwid.Columns.options("weight", 2))
        return (w, ("given", 5))


class GridFlowClient(ContainerClient):
    def __init__(self, name, v_sep):
        super().__init__(name, _RecGridFlow, urwid.GridFlowError)
        self.v_sep = v_sep

    def new(self, j, variant):
        return (_leaf(100 + j, MASKS[variant][1]), ("given", 3))


class WalkerClient(Client):
    def __init__(self, name, cls, focus_list):
        super().__init__(name)
        self.cls = cls
        self.focus_rule = focus_list
        self.variants = ("signal-only", "signal+focus-callback") if focus_list else ("signal-only",)

    def key(self, item):
        return item.tag

    def new(self, j, variant):
        return _leaf(100 + j, True)

    def build(self, n, f, variant):
        ws = [_leaf(i, True) for i in range(n)]
        walker = self.cls(ws)
        if n:
            walker.focus = f  # plain attribute (SimpleListWalker) / focus setter (SimpleFocusListWalker): no signal
        events = []
        if variant == "signal+focus-callback":
            walker.set_focus_changed_callback(lambda i: events.append(("focus", i)))
        urwid.connect_signal(walker, "modified", lambda: events.append(("modified", list(walker))))
        return walker, list(ws), events, None


CLIENTS = {
    "mfl": MflClient("mfl"),
    "pile": ContainerClient("pile", _RecPile, urwid.PileError),
    "columns": ContainerClient("columns", _RecColumns, urwid.ColumnsError),
    "gridflow": GridFlowClient("gridflow", 0),
    "sflw": WalkerClient("sflw", urwid.SimpleFocusListWalker, True),
    "slw": WalkerClient("slw", urwid.SimpleListWalker, False),
}


def concretise(op, items, new, bad=None):
    """The symbolic operation (placeholders "N", "N<j>", "BAD", "absent", tag of an initial item) over this list's items."""
    k = op[0]

    def item(x):
        if x == "BAD":
            return bad
        return new(int(x[1:]) if len(x) > 1 else 0)

    if k == "setitem":
        return (k, op[1], [item(x) for x in op[2]] if isinstance(op[2], list) else item(op[2]))
    if k == "insert":
        return (k, op[1], item(op[2]))
    if k == "append":
        return (k, item(op[1]))
    if k in ("extend", "iadd"):
        return (k, [item(x) for x in op[1]])
    if k == "remove":
        return (k, items[op[1]] if isinstance(op[1], int) else new(50))
    return op


def _bad_ops(n):
    """Operations that hand a container an item it refuses: its own error, and the list untouched."""
    yield ("append", "BAD")
    yield ("insert", 0, "BAD")
    yield ("extend", ["N0", "BAD"])
    yield ("setitem", slice(0, 1), ["BAD"])
    yield ("setitem", slice(n, n), ["N0", "BAD", "N1"])
    if n:
        yield ("setitem", n - 1, "BAD")
        yield ("setitem", slice(None, None, -1), ["BAD"] * n)
    for kind in BAD_ASSIGN_KINDS:
        yield ("assign", kind)


class _LiveView:
    """A Collection that reads the monitored list lazily, at the time it is iterated / measured (a value "derived from the
    current contents"): a built-in list materialises the right-hand side of `lst[:] = value` before it changes anything."""

    def __init__(self, ml):
        self.ml = ml

    def __len__(self):
        return len(self.ml)

    def __iter__(self):
        return iter(list.__iter__(self.ml))

    def __contains__(self, x):
        return any(x is y for y in self)


ASSIGN_KINDS = ("same", "self", "view", "reweight", "reversed", "rotated", "shorter", "head", "empty", "longer", "prepended", "fresh1", "fresh3",
                "middle-replaced")
BAD_ASSIGN_KINDS = ("BAD-appended", "BAD-only", "BAD-inside", "BAD-first-reweighted")


def _assign_ops():
    for kind in ASSIGN_KINDS:
        yield ("assign", kind)


def _assign_value(kind, ml, items, cl, variant, bad):
    """The right-hand side of a whole-list assignment, from the list's present items."""
    new = lambda j: cl.new(j, variant)  # noqa: E731
    if kind == "same":
        return list(items)
    if kind == "self":
        return ml
    if kind == "view":
        return _LiveView(ml)
    if kind == "reweight":
        return [cl.reweighted(x) for x in items]
    if kind == "reversed":
        return items[::-1]
    if kind == "rotated":
        return items[1:] + items[:1]
    if kind == "shorter":
        return items[:-1]
    if kind == "head":
        return items[:1]
    if kind == "empty":
        return []
    if kind == "longer":
        return [*items, new(0), new(1)]
    if kind == "prepended":
        return [new(0), *items]
    if kind == "fresh1":
        return [new(0)]
    if kind == "fresh3":
        return [new(0), new(1), new(2)]
    if kind == "middle-replaced":
        return [new(j) if 0 < j < len(items) - 1 else x for j, x in enumerate(items)]
    if kind == "BAD-appended":
        return [*items, bad]
    if kind == "BAD-only":
        return [bad]
    if kind == "BAD-inside":
        return [*items[:1], bad, *items[1:]]
    if kind == "BAD-first-reweighted":
        return [*(cl.reweighted(x) for x in items), new(0), bad]
    raise ValueError(kind)


class _Detail:
    """The description of a case, built only when the case fails (`detail | {"why": ...}`) or is asked for."""

    def __init__(self, make):
        self.make = make

    def __or__(self, more):
        return self.make() | more


def one(n, f, op, client="mfl", variant=None, bad=False):
    """Returns (ok, detail)."""
    cl = CLIENTS[client]
    variant = cl.variants[0] if variant is None else variant
    ml, items, events, owner = cl.build(n, f, variant)
    refused = bad
    if op[0] == "assign":
        value = _assign_value(op[1], ml, items, cl, variant, cl.bad_item() if bad else None)
        cop = ("assign", value, list(value), owner)
    else:
        cop = concretise(op, items, lambda j: cl.new(j, variant), cl.bad_item() if bad else None)
    plain = list(items)
    focus0 = ml.focus
    stored0 = getattr(ml, "_focus", focus0)
    exc_p = exc_m = None
    try:
        plain = apply(plain, cop, cl.key)
    except Exception as e:  # noqa: BLE001
        exc_p = type(e)
    if refused:  # the owner's validator refuses the item before anything is changed
        plain, exc_p = list(items), cl.error
    try:
        apply(ml, cop, cl.key)
    except Exception as e:  # noqa: BLE001
        exc_m = type(e)
        exc_text = f"{type(e).__name__}: {e}"[:200]
    else:
        exc_text = "None"
    rec = list(owner.rec) if owner is not None else []
    same_object = owner is None or (owner.contents is ml and owner._contents is ml)
    detail = _Detail(lambda: {"client": client, "variant": variant, "n": n, "focus": f, "op": repr(op), "list": repr(list(ml)), "plain": repr(plain),
                              "new_focus": repr(ml.focus), "exc": exc_text, "exc_plain": str(exc_p), "events": repr(events), "owner_events": repr(rec)})
    if exc_p is not exc_m:
        return False, detail | {"why": "different error than a plain list (the owner's error for a refused item)"}
    if not same_object:
        return False, detail | {"why": "the container holds another list object than before (aliases of .contents and the wired callbacks are cut off)"}
    if list(ml) != plain or any(x is not y for x, y in zip(ml, plain)):
        return False, detail | {"why": "contents differ from a plain list"}
    if exc_m is not None:
        ok = getattr(ml, "_focus", ml.focus) == stored0 and ml.focus == focus0 and not events and list(ml) == items and not rec
        return ok, detail if ok else detail | {"why": "state changed / callback run by a failed call"}
    mods = [e for e in events if e[0] == "modified"]
    changed = plain != items or any(x is not y for x, y in zip(items, plain))
    if len(mods) > 1 or (changed and len(mods) != 1):
        return False, detail | {"why": f"modified fired {len(mods)} times for one call"}
    if mods and mods[0][1] != plain:
        return False, detail | {"why": "modified callback before the mutation"}
    if owner is not None:
        cm = [e for e in rec if e[0] == "container-modified"]
        if client in ("pile", "columns"):
            if len(cm) != len(mods) or (cm and cm[0][1] != len(plain)):
                return False, detail | {"why": f"the container's modified callback ran {len(cm)} times for one call"}
            if owner.selectable() != any(w.selectable() for w, _o in plain):
                return False, detail | {"why": "the container's selectability was not recomputed from the new contents"}
        elif any(w.selectable() for w, _o in plain) != owner.selectable():
            return False, detail | {"why": "the container's selectability does not follow the new contents"}
        if changed and ("invalidate",) not in rec:
            return False, detail | {"why": "contents changed, container not invalidated"}
    if not cl.focus_rule:
        # SimpleListWalker: a MonitoredList beside a plain `focus` attribute -- only "in range" is demanded of it
        if plain and not (isinstance(ml.focus, int) and 0 <= ml.focus < len(plain)):
            return False, detail | {"why": "focus out of range"}
        return True, detail
    if (ml.focus is None) != (len(plain) == 0):
        return False, detail | {"why": "focus None iff empty"}
    if plain and not (0 <= ml.focus < len(plain)):
        return False, detail | {"why": "focus out of range"}
    if owner is not None:
        # the owner reads the same index: its focus widget is the item the list designates
        want_w = plain[ml.focus][0] if plain else None
        if owner.focus is not want_w:
            return False, detail | {"why": "the container's focus widget is not the item at the focus index"}
    if n and plain:
        t = touched(cop, n, items)
        if t is not None:
            start, stop, step, k = t
            want = focus_after(n, f, start, stop, step, k)
        elif op[0] == "reverse":
            want = n - 1 - f
        else:  # sort
            want = [i for i, x in enumerate(plain) if x is items[f]][0]
        if ml.focus != want:
            return False, detail | {"why": f"focus should be {want}"}
        if variant != "signal-only":
            fc = [e for e in events if e[0] == "focus"]
            if (ml.focus != f) != (len(fc) == 1) or (fc and fc[-1][1] != ml.focus):
                return False, detail | {"why": "focus-changed callback"}
    return True, detail


# ------------------------------------------------------------------- walkers: subscribers that mutate the walker / raise
OUTCOME_CLAUSE = False


class HandlerFault(Exception):
    """What a faulty 'modified' subscriber raises."""


# Calls that either FAIL or CHANGE the contents (never a successful no-op: for those the statement allows 0 or 1 notification),
# as (name, arity of new items).  Used for the outer history and for what a subscriber does from inside its notification.
RE_OPS = ("append", "insert0", "pop", "pop0", "set0", "extend2", "pop99", "remove-absent")
HANDLER_ACTIONS = (None, "raise", "append", "pop0", "insert0", "set0", "pop99", "extend2")


def _re_apply(lst, name, fresh):
    """One call of RE_OPS on `lst` (a plain list or a walker); new items come from `fresh()` in execution order."""
    if name == "append":
        lst.append(fresh())
    elif name == "insert0":
        lst.insert(0, fresh())
    elif name == "pop":
        lst.pop()
    elif name == "pop0":
        lst.pop(0)
    elif name == "set0":
        lst[0] = fresh()
    elif name == "extend2":
        lst.extend([fresh(), fresh()])
    elif name == "pop99":
        lst.pop(99)
    elif name == "remove-absent":
        lst.remove(_leaf(98, True))


class _Fresh:
    def __init__(self):
        self.j = 0

    def __call__(self):
        self.j += 1
        return _leaf(200 + self.j, True)


def _reference_history(n, script, history):
    """The statement, on a plain list: every successful content-changing call -- whoever makes it, the caller or a subscriber
    from inside a notification, before or after some subscriber raised -- is followed by exactly one notification, delivered at
    once (so a call made from inside a notification is notified before the outer call returns); a failed call by none.
    Returns (outcome per outer call, notifications as snapshots of the tags, final tags)."""
    plain = [_leaf(i, True) for i in range(n)]
    fresh = _Fresh()
    log = []
    calls = [0]

    def call(name):
        trial = list(plain)
        _re_apply(trial, name, fresh)  # (raises IndexError / ValueError: nothing changed, nobody notified)
        plain[:] = trial
        notify()

    def notify():
        log.append([w.tag for w in plain])
        k = calls[0]
        calls[0] += 1
        act = script[k] if k < len(script) else None
        if act == "raise":
            raise HandlerFault
        if act is not None:
            try:
                call(act)
            except (IndexError, ValueError):
                pass

    outcomes = []
    for name in history:
        try:
            call(name)
        except (IndexError, ValueError, HandlerFault) as e:
            outcomes.append(type(e).__name__)
        else:
            outcomes.append("ok")
    return outcomes, log, [w.tag for w in plain]


def reentrant_one(client, n, f, script, history):
    """A walker with (first) a passive recording subscriber and (second) a scripted one: on its k-th notification it does
    script[k] -- nothing, raise, or a call on the walker (list errors of that call caught by the subscriber itself)."""
    cl = CLIENTS[client]
    walker = cl.cls([_leaf(i, True) for i in range(n)])
    if n:
        walker.focus = f
    fresh = _Fresh()
    log = []
    calls = [0]

    def scripted():
        k = calls[0]
        calls[0] += 1
        act = script[k] if k < len(script) else None
        if act == "raise":
            raise HandlerFault
        if act is not None:
            try:
                _re_apply(walker, act, fresh)
            except (IndexError, ValueError):
                pass

    urwid.connect_signal(walker, "modified", lambda: log.append([w.tag for w in walker]))
    urwid.connect_signal(walker, "modified", scripted)
    outcomes = []
    for name in history:
        try:
            _re_apply(walker, name, fresh)
        except (IndexError, ValueError, HandlerFault) as e:
            outcomes.append(type(e).__name__)
        except Exception as e:  # noqa: BLE001
            outcomes.append(f"unexpected {type(e).__name__}: {e}"[:120])
        else:
            outcomes.append("ok")
    want = _reference_history(n, script, history)
    got = (outcomes, log, [w.tag for w in walker])
    detail = {"client": client, "reentrant": True, "n": n, "focus": f, "script": list(script), "history": list(history),
              "outcomes": repr(got[0]), "notified": repr(got[1]), "final": repr(got[2]),
              "want_outcomes": repr(want[0]), "want_notified": repr(want[1]), "want_final": repr(want[2])}
    if got[2] != want[2]:
        return False, detail | {"why": "contents differ from a plain list under the same calls (the subscribers' calls included)"}
    if got[1] != want[1]:
        return False, detail | {"why": "not exactly one 'modified' notification after every successful content-changing call (nested in a notification / "
                                       "after a subscriber raised)"}
    # (how each outer call ENDS is compared in a check of its own, OUTCOME_CLAUSE: on the unchanged tree a SimpleFocusListWalker
    #  call whose subscriber shortens the walker ends with IndexError from the stale pre-computed focus -- reported as a candidate defect)
    if OUTCOME_CLAUSE and got[0] != want[0]:
        return False, detail | {"why": "a call ended differently than on a plain list with the same subscribers"}
    return True, detail


def _reentrant_family(chk, client, maxn, depth, hist_len):
    import itertools

    scripts = [s for d in range(1, depth + 1) for s in itertools.product(HANDLER_ACTIONS, repeat=d) if s[-1] is not None]
    histories = list(itertools.product(RE_OPS, repeat=hist_len))
    for n in range(maxn + 1):
        for f in sorted({0, n - 1} if n else {0}):
            for script in scripts:
                for history in histories:
                    ok, detail = reentrant_one(client, n, f, script, history)
                    chk.case((client, "reentrant", n, f, script, history), ok, None if ok else detail, nontrivial=True,
                             sample={"client": client, "n": n, "focus": f, "script": list(script), "history": list(history)})


def _family(chk, client, variant, maxn, steps, with_bad=False, dedupe_above=None):
    for n in range(maxn + 1):
        rg = range(-n - 2, n + 3)
        for f in range(max(n, 1)):
            ops = list(_ops(n, rg, steps, True, dedupe=dedupe_above is not None and n > dedupe_above))
            ops += list(_assign_ops())
            if with_bad:
                ops += list(_bad_ops(n))
            nbad = len(list(_bad_ops(n))) if with_bad else 0
            for j, op in enumerate(ops):
                ok, detail = one(n, f, op, client, variant, bad=j >= len(ops) - nbad)
                detail = None if ok else detail
                key = (n, f, repr(op)) if client == "mfl" else (client, variant, n, f, repr(op))
                chk.case(key, ok, detail, nontrivial=True, sample={"client": client, "variant": variant, "n": n, "focus": f, "op": repr(op)})


def _task(arg):
    client, variant, maxn, steps, with_bad, raw_upto = arg
    part = Check("part", "")
    with warnings.catch_warnings():
        warnings.simplefilter("ignore")
        if variant == "reentrant":
            _reentrant_family(part, client, *maxn)
        else:
            _family(part, client, variant, maxn, steps, with_bad=with_bad, dedupe_above=raw_upto)
    return part.evaluations, len(part.nontrivial), part.failures, part.samples


def _spread(chk, tasks):
    """Run the (client, variant) families of one check in forked workers (their case keys are disjoint) and merge."""
    procs = max(1, min(8, len(tasks), os.cpu_count() or 1))
    if procs > 1 and not multiprocessing.current_process().daemon:
        with multiprocessing.get_context("fork").Pool(procs) as pool:
            parts = pool.map(_task, tasks, chunksize=1)
    else:
        parts = [_task(t) for t in tasks]
    distinct = 0
    for ev, nt, failures, samples in parts:
        chk.evaluations += ev
        distinct += nt
        chk.failures.extend(failures[: 20 - len(chk.failures)])
        chk.samples.extend(samples[: 3 - len(chk.samples)])
    res = chk.result()
    res["distinct_nontrivial"] = distinct
    return res


def run(tier="quick", seed=0):
    with warnings.catch_warnings():
        warnings.simplefilter("ignore")
        return _run(tier, seed)


def _run(tier, seed):
    maxn = 4 if tier == "quick" else 6
    cmaxn = 4 if tier == "quick" else 5
    raw_upto = 2 if tier == "quick" else 4  # longer lists: one raw slice per class of equal slice.indices(n)
    steps = [None, -3, -2, -1, 1, 2, 3]
    chk = Check("C16/every-op-every-index", "every operation x every int index / slice(start,stop,step) x every focus on lists 0..maxn; real MonitoredFocusList vs plain list + focus spec; distinct = (n, focus, op)", True, f"list length <= {maxn}, indices in [{-maxn-2},{maxn+2}] or None, steps in {steps}, <= 3 new items")
    _family(chk, "mfl", "", maxn, steps)
    out = [chk.result()]
    bound = (f"list length <= {cmaxn}, indices in [{-cmaxn-2},{cmaxn+2}] or None, steps in {steps}, <= 3 new items, every initial focus (incl. the tail); "
             f"every raw slice for lists up to {raw_upto}, above that one raw slice per distinct slice.indices(n) (raw indices are resolved by "
             "MonitoredFocusList / list code shared by all these lists, exercised with every raw slice in C16/every-op-every-index)")
    cont = Check("C16/container-contents", "the same family on the real contents lists of Pile / Columns / GridFlow, children selectable per mask "
                 f"{list(MASKS)}: same contents (identity) and same error as a plain list, unchanged on error, focus None iff empty / in range / following its item "
                 "(spec/focus.py), the list's modified callback exactly once per successful content-changing call (<= 1 otherwise) and after the mutation, never on "
                 "failure, the container's own callback run as often, its selectability and focus widget those of the new contents, focus-changed exactly when the "
                 "index changes; a refused item raises the container's error and changes nothing; plus whole-list ASSIGNMENT through the `contents` property "
                 f"setter with the values {list(ASSIGN_KINDS)} and, refused, {list(BAD_ASSIGN_KINDS)} ('self' = the very list object, 'view' = a Collection reading "
                 "the list lazily): one `[:] = value` on the SAME list object; distinct = (client, mask, n, focus, op)", True, bound)
    out.append(_spread(cont, [(client, variant, cmaxn, steps, True, raw_upto) for client in ("pile", "columns", "gridflow") for variant in CLIENTS[client].variants]))
    walk = Check("C16/list-walkers", "the same family on SimpleFocusListWalker (without / with a user focus-changed callback) and SimpleListWalker with a connected "
                 "'modified' subscriber: same contents and errors as a plain list, unchanged on error, the signal exactly once per successful content-changing call "
                 "(<= 1 otherwise) and after the mutation, never on failure; SimpleFocusListWalker: the statement's focus rule; SimpleListWalker: focus in range; "
                 f"whole-list assignment `[:] = value` with {list(ASSIGN_KINDS)}; and RE-ENTRANT / FAULTY subscribers: a scripted subscriber that on its k-th "
                 f"notification does one of {list(HANDLER_ACTIONS)} (a call on the walker from inside the notification, or raise), under every outer history over "
                 f"{list(RE_OPS)}: contents as a plain list, and every successful content-changing call -- nested or after a fault -- notified exactly once, at once; "
                 "distinct = (client, variant, n, focus, op) / (client, n, focus, script, history)", True,
                 bound + "; re-entrant family: list length <= 3 (quick) / 4, script length (= nesting depth) <= 2 / 3, outer history length 2 / 3, focus first or last")
    re_bound = (3, 2, 2) if tier == "quick" else (4, 3, 3)  # (list length, subscriber script length = nesting depth, outer history length)
    out.append(_spread(walk, [(client, variant, cmaxn, steps, False, raw_upto) for client in ("sflw", "slw") for variant in CLIENTS[client].variants]
                       + [(client, "reentrant", re_bound, None, False, None) for client in ("sflw", "slw")]))
    if tier != "quick":
        r = rng(seed)
        seqc = Check("C16/op-sequences", "random sequences of 3 operations (seeded) on lists of length <= 4: invariants after every step", False, "sequence length 3, 20000 sequences")
        for _ in range(20000):
            n = r.randint(0, 4)
            ml = MonitoredFocusList(list(range(n)), focus=r.randrange(n) if n else 0)
            plain = list(range(n))
            ops = []
            ok = True
            for _s in range(3):
                cand = list(_ops(len(plain), range(-len(plain) - 1, len(plain) + 2), [None, -2, -1, 1, 2], True))
                op = cand[r.randrange(len(cand))]
                ops.append(op)
                ep = em = None
                try:
                    plain = apply(plain, op)
                except Exception as e:  # noqa: BLE001
                    ep = type(e)
                try:
                    apply(ml, op)
                except Exception as e:  # noqa: BLE001
                    em = type(e)
                if ep is not em or list(ml) != plain or (ml.focus is None) != (not plain) or (plain and not 0 <= ml.focus < len(plain)):
                    ok = False
                    break
            seqc.case(repr(ops), ok, {"ops": repr(ops), "list": list(ml), "plain": plain, "focus": ml.focus})
        out.append(seqc.result())
    return {"checks": out, "bound": chk.bound + "; container contents and list walkers: " + bound}


def replay(check, case):
    if case.get("reentrant"):
        ok, detail = reentrant_one(case["client"], case["n"], case["focus"], tuple(case["script"]), tuple(case["history"]))
        return {"outcome": "not-reproduced" if ok else "confirmed", "detail": detail}
    ok, detail = one(case["n"], case["focus"], eval(case["op"]), case.get("client", "mfl"), case.get("variant"), bad="BAD" in case["op"])  # noqa: S307
    return {"outcome": "not-reproduced" if ok else "confirmed", "detail": detail | {}}
