"""C16 bounded stand-in: every list operation with every index/slice on small lists, against a plain
list plus the focus spec (spec/focus.py). Also the replay oracle for C16's deductive obligations."""
from __future__ import annotations

import itertools

from bounded.common import Check, rng
from spec.focus import focus_after

from urwid.widget.monitored_list import MonitoredFocusList


def _ops(n, rg_idx, steps, quick):
    vals = [None, *rg_idx]
    for i in rg_idx:
        yield ("delitem", i)
        yield ("setitem", i, "N")
        yield ("pop", i)
        yield ("insert", i, "N")
    slices = [slice(a, b, c) for a in vals for b in vals for c in steps]
    for sl in slices:
        yield ("delitem", sl)
        for k in (0, 1, 2, 3):
            yield ("setitem", sl, ["N%d" % j for j in range(k)])
    yield ("append", "N")
    for k in (0, 1, 3):
        yield ("extend", ["N%d" % j for j in range(k)])
    for m in (-1, 0, 1, 2, 3):
        yield ("imul", m)
    for v in list(range(n)) + ["absent"]:
        yield ("remove", v)
    yield ("reverse",)
    yield ("sort",)
    yield ("clear",)
    yield ("pop_default",)


def apply(lst, op):
    k = op[0]
    if k == "delitem":
        del lst[op[1]]
    elif k == "setitem":
        lst[op[1]] = op[2]
    elif k == "pop":
        lst.pop(op[1])
    elif k == "pop_default":
        lst.pop()
    elif k == "insert":
        lst.insert(op[1], op[2])
    elif k == "append":
        lst.append(op[1])
    elif k == "extend":
        lst.extend(op[1])
    elif k == "imul":
        lst *= op[1]
    elif k == "remove":
        lst.remove(op[1])
    elif k == "reverse":
        lst.reverse()
    elif k == "sort":
        lst.sort(key=str)
    elif k == "clear":
        lst.clear()
    return lst


def touched(op, n, items):
    """(start, stop, step, k) per list semantics, or None when the spec is op-specific."""
    k = op[0]
    if k in ("delitem", "pop", "pop_default"):
        y = -1 if k == "pop_default" else op[1]
        if isinstance(y, slice):
            return (*y.indices(n), 0)
        i = y + n if y < 0 else y
        return (i, i + 1, 1, 0)
    if k == "setitem":
        if isinstance(op[1], slice):
            return (*op[1].indices(n), len(op[2]))
        i = op[1] + n if op[1] < 0 else op[1]
        return (i, i + 1, 1, 1)
    if k == "insert":
        i = max(op[1] + n, 0) if op[1] < 0 else min(op[1], n)
        return (i, i, 1, 1)
    if k == "append":
        return (n, n, 1, 1)
    if k == "extend":
        return (n, n, 1, len(op[1]))
    if k == "imul":
        return (n, n, 1, n * (op[1] - 1)) if op[1] > 0 else (0, n, 1, 0)
    if k == "remove":
        i = items.index(op[1])
        return (i, i + 1, 1, 0)
    if k == "clear":
        return (0, n, 1, 0)
    return None


def one(n, f, op):
    """Returns (ok, detail)."""
    items = list(range(n))
    ml = MonitoredFocusList(items, focus=f if n else 0)
    events = []
    ml.set_modified_callback(lambda: events.append(("modified", list(ml))))
    ml.set_focus_changed_callback(lambda i: events.append(("focus", i)))
    plain = list(items)
    exc_p = exc_m = None
    try:
        plain = apply(plain, op)
    except Exception as e:  # noqa: BLE001
        exc_p = type(e)
    try:
        apply(ml, op)
    except Exception as e:  # noqa: BLE001
        exc_m = type(e)
    detail = {"n": n, "focus": f, "op": repr(op), "list": list(ml), "plain": plain, "new_focus": ml.focus, "exc": str(exc_m), "exc_plain": str(exc_p), "events": repr(events)}
    if exc_p is not exc_m:
        return False, detail | {"why": "different error than a plain list"}
    if list(ml) != plain:
        return False, detail | {"why": "contents differ from a plain list"}
    if exc_m is not None:
        ok = ml._focus == (f if n else 0) and not events and list(ml) == items
        return ok, detail | {"why": "state changed by a failed call"}
    mods = [e for e in events if e[0] == "modified"]
    changed = plain != items
    if len(mods) > 1 or (changed and len(mods) != 1):
        return False, detail | {"why": "modified callback count"}
    if mods and mods[0][1] != plain:
        return False, detail | {"why": "modified callback before the mutation"}
    if (ml.focus is None) != (len(plain) == 0):
        return False, detail | {"why": "focus None iff empty"}
    if plain and not (0 <= ml.focus < len(plain)):
        return False, detail | {"why": "focus out of range"}
    if n and plain:
        t = touched(op, n, items)
        if t is not None:
            start, stop, step, k = t
            want = focus_after(n, f, start, stop, step, k)
        elif op[0] == "reverse":
            want = n - 1 - f
        else:  # sort
            want = plain.index(items[f])
        if ml.focus != want:
            return False, detail | {"why": f"focus should be {want}"}
        fc = [e for e in events if e[0] == "focus"]
        if (ml.focus != f) != (len(fc) == 1) or (fc and fc[-1][1] != ml.focus):
            return False, detail | {"why": "focus-changed callback"}
    return True, detail


def run(tier="quick", seed=0):
    maxn = 4 if tier == "quick" else 6
    idx = range(-maxn - 2, maxn + 3)
    steps = [None, -3, -2, -1, 1, 2, 3]
    chk = Check("C16/every-op-every-index", "every operation x every int index / slice(start,stop,step) x every focus on lists 0..maxn; real MonitoredFocusList vs plain list + focus spec; distinct = (n, focus, op)", True, f"list length <= {maxn}, indices in [{-maxn-2},{maxn+2}] or None, steps in {steps}, <= 3 new items")
    for n in range(maxn + 1):
        rg = range(-n - 2, n + 3)
        for f in range(max(n, 1)):
            for op in _ops(n, rg, steps, tier == "quick"):
                ok, detail = one(n, f, op)
                chk.case((n, f, repr(op)), ok, detail, nontrivial=True, sample={"n": n, "focus": f, "op": repr(op)})
    out = [chk.result()]
    if tier != "quick":
        r = rng(seed)
        seqc = Check("C16/op-sequences", "random sequences of 3 operations (seeded) on lists of length <= 4: invariants after every step", False, "sequence length 3, 20000 sequences")
        for _ in range(20000):
            n = r.randint(0, 4)
            ml = MonitoredFocusList(list(range(n)), focus=r.randrange(n) if n else 0)
            plain = list(range(n))
            ops = []
            ok = True
            for _s in range(3):
                cand = list(_ops(len(plain), range(-len(plain) - 1, len(plain) + 2), [None, -2, -1, 1, 2], True))
                op = cand[r.randrange(len(cand))]
                ops.append(op)
                ep = em = None
                try:
                    plain = apply(plain, op)
                except Exception as e:  # noqa: BLE001
                    ep = type(e)
                try:
                    apply(ml, op)
                except Exception as e:  # noqa: BLE001
                    em = type(e)
                if ep is not em or list(ml) != plain or (ml.focus is None) != (not plain) or (plain and not 0 <= ml.focus < len(plain)):
                    ok = False
                    break
            seqc.case(repr(ops), ok, {"ops": repr(ops), "list": list(ml), "plain": plain, "focus": ml.focus})
        out.append(seqc.result())
    return {"checks": out, "bound": chk.bound}


def replay(check, case):
    import ast

    ok, detail = one(case["n"], case["focus"], ast.literal_eval(case["op"].replace("slice(", "__SL__(")) if False else eval(case["op"]))  # noqa: S307
    return {"outcome": "not-reproduced" if ok else "confirmed", "detail": detail}
