"""Bounded stand-in checks: run the real code natively on small exhaustive scopes and evaluate the
same contracts/spec functions. Labelled bounded in the evidence; never counted as proved."""
from __future__ import annotations

import os
import random
import time


class Check:
    def __init__(self, name, rule, exhaustive=True, bound=""):
        self.name = name
        self.rule = rule
        self.exhaustive = exhaustive
        self.bound = bound
        self.evaluations = 0
        self.nontrivial = set()
        self.failures = []
        self.samples = []
        self.t0 = time.time()

    def case(self, key, ok, detail=None, nontrivial=True, sample=None):
        """Record one evaluated case. key: hashable identity of the case; ok: contract held."""
        self.evaluations += 1
        if nontrivial:
            self.nontrivial.add(key)
        if len(self.samples) < 3 and sample is not None:
            self.samples.append(sample)
        if not ok and len(self.failures) < 20:
            self.failures.append(detail if detail is not None else {"case": repr(key)})

    def result(self):
        return {
            "name": self.name,
            "rule": self.rule,
            "bound": self.bound,
            "exhaustive": self.exhaustive,
            "evaluations": self.evaluations,
            "distinct_nontrivial": len(self.nontrivial),
            "failures": self.failures,
            "samples": self.samples,
            "wall_s": round(time.time() - self.t0, 2),
        }


def rng(seed):
    return random.Random(int(seed) * 7919 + 17)
