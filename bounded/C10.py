"""C10 bounded stand-in: the real Edit / IntEdit / IntegerEdit / FloatEdit widgets against the reference
editor of spec/ref_editor.py (text + cursor index, reference layout for wrap any/space/clip).

Exploration: for every configuration (caption, width, wrap, align, multiline/allow_tab/mask, str/bytes)
and every initial (text, cursor) the harness applies every event (printable keys, left/right/up/down/
home/end, backspace, delete, enter, tab, unused keys, a click on every cell, a button-3 press) to a
fresh widget; states that carry a preferred column are expanded further (memoised on the reference
state) so that up/down chains are covered.  A seeded random-history check adds long mixed sequences
without memoisation (catches history dependence such as stale caches).

Two further families widen the scope where seeded changes were missed:
  * numeric key alphabet: every numeric widget is offered, at every explored state, every character of
    FOREIGN_KEYS / ASCII_EXTRA_KEYS that is outside its alphabet (non-ASCII decimal digits, characters that
    are isdigit()/isnumeric() only, letters whose upper()/lower() is an ASCII letter, separator and minus
    look-alikes, range neighbours of the ASCII digit and letter ranges, characters int()/float() tolerate);
    the reference refuses such a key by itself (it does not ask the widget), so an accepted one fails model,
    return-value and numeric-alphabet;
  * preferred-column histories (see RAGGED_TEXTS): ragged texts, every key at every state that carries a
    preferred column, an up/down probe after every key that must forget it.

Clauses (one Check each): model (text+offset = reference), offset-valid, cursor-cell (render/cursor
and the rendered rows = reference grid), click, signals, return-value, no-exception, numeric-alphabet,
numeric-alphabet-initial, random-histories.
"""
from __future__ import annotations

import copy
import itertools
import multiprocessing
import os
import time
from decimal import Decimal

import urwid
from urwid import Edit, IntEdit, str_util
from urwid import util as urwid_util
from urwid.numedit import FloatEdit, IntegerEdit

from bounded.common import Check, rng
from spec.ref_editor import CONT, RefEdit, cw

ID = "C10"
CLAUSES = ["model", "offset-valid", "cursor-cell", "click", "signals", "return-value", "no-exception", "numeric-alphabet"]
RULES = {
    "model": "after every key/click the widget's edit_text and edit_pos equal the reference editor's text and cursor (sets of positions only where zero-width characters share a cell / the statement leaves the preferred column open)",
    "offset-valid": "0 <= edit_pos <= len(edit_text) and, for bytes, edit_pos is on a UTF-8 character boundary, after construction and after every event",
    "cursor-cell": "render(size, focus=True).cursor and get_cursor_coords() equal the reference cell of the character at the cursor (view shifted so that the cell is inside the widget) and the rendered rows equal the reference grid; rows() = number of reference rows",
    "click": "a button-1 click on the cell of an edit-text character puts the cursor on that character and returns True (other cells: the cursor stays in range and lands on the clicked row; rows outside the edit text: refused, nothing changes)",
    "signals": "each modification emits exactly change(new text) while the old text is still held, then postchange(old text) once the new text is held; no signal without a modification",
    "return-value": "keys with an effect return None; keys the editor does not use are returned unchanged and leave text, cursor and signals untouched (keys without effect at a boundary may return either)",
    "no-exception": "no event, render or cursor query raises",
    "numeric-alphabet": "IntEdit/IntegerEdit/FloatEdit never hold a character outside their alphabet after any key/click sequence, apart from one leading '-' when allow_negative; the keys include characters outside every alphabet that Python's str methods / int() / float() treat as digits, numbers or the same letter",
    "numeric-alphabet-initial": "the same alphabet invariant directly after construction with a legitimately typed default",
    "random-histories": "seeded random event sequences (no memoisation): every clause above at every step",
}

PRINT_KEYS = ["a", " ", "中", "́"]
NAV_KEYS = ["left", "right", "up", "down", "home", "end", "backspace", "delete", "enter", "tab"]
UNUSED_KEYS = ["f1", "page up"]
PREF_KEYS = ["up", "down", "left", "a", "delete", "f1"]
NUM_KEYS = ["0", "5", "-", ".", ",", "a", "g", "left", "right", "home", "end", "backspace", "delete", "up", "down", "f1"]
# Characters that are NOT in any numeric alphabet although some str method / conversion of Python says
# "digit", "number" or "the same letter" -- one or more per Unicode category / pitfall:
FOREIGN_KEYS = [
    "\u0663",  # Nd ARABIC-INDIC DIGIT THREE: isdecimal/isdigit/isnumeric, int() accepts it
    "\uff17",  # Nd FULLWIDTH DIGIT SEVEN (two columns)
    "\u096b",  # Nd DEVANAGARI DIGIT FIVE
    "\u00b2",  # No SUPERSCRIPT TWO: isdigit, not isdecimal (int() raises)
    "\u2460",  # No CIRCLED DIGIT ONE: isdigit
    "\u00bd",  # No VULGAR FRACTION ONE HALF: isnumeric only
    "\u2167",  # Nl ROMAN NUMERAL EIGHT: isnumeric only
    "\u4e09",  # Lo CJK three: isnumeric only, two columns
    "\u0131",  # Ll DOTLESS I: upper() == 'I'
    "\u017f",  # Ll LONG S: upper() == 'S', casefold() == 's'
    "\ufb06",  # Ll LIGATURE ST: upper() == 'ST' (a substring of the digit string of base >= 30)
    "\u212a",  # Lu KELVIN SIGN: lower() == 'k'
    "\uff21",  # Lu FULLWIDTH A
    "\u00e9",  # Ll e with acute: isalnum
    "\uff0e",  # Po FULLWIDTH FULL STOP
    "\u066b",  # Po ARABIC DECIMAL SEPARATOR
    "\uff0c",  # Po FULLWIDTH COMMA
    "\u2212",  # Sm MINUS SIGN
    "\uff0d",  # Pd FULLWIDTH HYPHEN-MINUS
    "\u00ad",  # Cf SOFT HYPHEN (zero width)
    "\u0301",  # Mn COMBINING ACUTE (zero width)
]
# ASCII characters that int() / float() / Decimal() tolerate inside a number, or that are digits of another
# base; each is offered to a numeric widget only when it is outside that widget's alphabet (so that the
# state space does not grow), as are the FOREIGN_KEYS; "12" is a key name of two digits (not a character).
ASCII_EXTRA_KEYS = ["9", "f", "F", "z", "Z", "_", " ", "+", "e", "x", "/", ":", "@", "`", "{"]
MULTI_KEYS = ["12"]
DIGITS36 = "0123456789ABCDEFGHIJKLMNOPQRSTUVWXYZ"
# reporting caps (raise via the environment when triaging, to see every failure of a run)
CAP_PER_CLASS = int(os.environ.get("C10_CAP_PER_CLASS", "3"))
CAP_REPORT = int(os.environ.get("C10_CAP_REPORT", "20"))


# ----------------------------------------------------------------------------------------------
# global state guard
class _Utf8:
    def __enter__(self):
        self.saved = (urwid_util._target_encoding, urwid_util._use_dec_special, str_util.get_byte_encoding())
        urwid.set_encoding("utf-8")
        urwid.canvas.CanvasCache.clear()

    def __exit__(self, *a):
        urwid_util._target_encoding, urwid_util._use_dec_special = self.saved[0], self.saved[1]
        str_util.set_byte_encoding(self.saved[2])
        urwid.canvas.CanvasCache.clear()


# ----------------------------------------------------------------------------------------------
# configurations
def edit_cfg(caption="", W=3, wrap="space", align="left", multiline=False, allow_tab=False, mask=None, unit="str"):
    return {"kind": "edit", "unit": unit, "caption": caption, "W": W, "wrap": wrap, "align": align, "multiline": multiline, "allow_tab": allow_tab, "mask": mask}


def num_cfg(kind, W=3, wrap="any", align="left", caption="", **opts):
    return {"kind": kind, "unit": "str", "caption": caption, "W": W, "wrap": wrap, "align": align, "multiline": False, "allow_tab": False, "mask": None, **opts}


def allowed_alphabet(cfg):
    k = cfg["kind"]
    if k == "intedit":
        return set("0123456789"), False
    if k == "integeredit":
        up = DIGITS36[: cfg["base"]]
        return set(up) | set(up.lower()), cfg["neg"]
    if k == "floatedit":
        return set("0123456789" + cfg["sep"]), cfg["neg"]
    return None, False


def in_alphabet(cfg, ch):
    """may the widget of this configuration ever hold the character `ch`?  (the sign: only when allowed)"""
    allowed, neg = allowed_alphabet(cfg)
    return ch in allowed or (neg and ch == "-")


def numeric_keys(cfg):
    """event alphabet of one numeric configuration: the common keys plus every foreign / extra character that
    is outside this configuration's alphabet"""
    return NUM_KEYS + [k for k in FOREIGN_KEYS + ASCII_EXTRA_KEYS if not in_alphabet(cfg, k)] + MULTI_KEYS


def alphabet_ok(cfg, text):
    allowed, neg = allowed_alphabet(cfg)
    body = text[1:] if (neg and text[:1] == "-") else text
    return all(c in allowed for c in body)


def _conv(cfg, s):
    if s is None:
        return None
    return s if cfg["unit"] == "str" else s.encode("utf-8")


def make_widget(cfg, text, pos):
    """Real widget in the given initial state.  For the numeric kinds `text` must be empty (their states
    are reached by keys only, because the constructors normalise / validate defaults)."""
    k = cfg["kind"]
    if k == "edit":
        off = len(_conv(cfg, text[:pos]))
        return Edit(_conv(cfg, cfg["caption"]), _conv(cfg, text), cfg["multiline"], cfg["align"], cfg["wrap"], cfg["allow_tab"], edit_pos=off, mask=_conv(cfg, cfg["mask"]))
    if text:
        raise ValueError("numeric widgets start empty")
    if k == "intedit":
        w = IntEdit(cfg["caption"])
    elif k == "integeredit":
        w = IntegerEdit(cfg["caption"], None, cfg["base"], allow_negative=cfg["neg"])
    elif k == "floatedit":
        w = FloatEdit(cfg["caption"], None, decimal_separator=cfg["sep"], allow_negative=cfg["neg"])
    else:
        raise ValueError(k)
    w.set_wrap_mode(cfg["wrap"])
    w.set_align_mode(cfg["align"])
    return w


def make_ref(cfg, text, pos):
    trim = cfg["kind"] in ("intedit", "floatedit") or (cfg["kind"] == "integeredit" and cfg["base"] == 10)
    return RefEdit(cfg["caption"], text, pos, cfg["W"], cfg["wrap"], cfg["align"], cfg["multiline"], cfg["allow_tab"], cfg["mask"], cfg["unit"], trim_zeros=trim)


# ----------------------------------------------------------------------------------------------
# observation helpers
def _index_of_offset(cfg, text_value, off):
    """character index for a widget offset, None if the offset is out of range or inside a character"""
    if not 0 <= off <= len(text_value):
        return None
    if cfg["unit"] == "str":
        return off
    try:
        head = text_value[:off].decode("utf-8")
        text_value[off:].decode("utf-8")
    except UnicodeDecodeError:
        return None
    return len(head)


def _decode_row(b):
    cells = []
    for ch in b.decode("utf-8"):
        w = cw(ch)
        if w == 0:
            continue
        cells.append(ch)
        cells.extend([CONT] * (w - 1))
    return cells


def _show(cells):
    return "".join("" if c == CONT else c for c in cells)


class Log(list):
    pass


def attach(w, log):
    urwid.connect_signal(w, "change", lambda ww, new: log.append(("change", new, ww.edit_text, ww.edit_pos)))
    urwid.connect_signal(w, "postchange", lambda ww, old: log.append(("postchange", old, ww.edit_text, ww.edit_pos)))


def do_event(w, size, ev):
    if isinstance(ev, (list, tuple)):
        if ev[0] == "click":
            return w.mouse_event(size, "mouse press", 1, ev[1], ev[2], True)
        if ev[0] == "press":
            return w.mouse_event(size, "mouse press", ev[1], ev[2], ev[3], True)
        raise ValueError(ev)
    return w.keypress(size, ev)


def check_view(w, ref, cfg):
    """cursor-cell clause on the current state. -> (ok, why, nontrivial) ; raises what the widget raises"""
    size = (cfg["W"],)
    canv = w.render(size, True)
    rows = [_decode_row(r) for r in canv.text]
    cur = canv.cursor
    gcc = w.get_cursor_coords(size)
    nrows = w.rows(size, True)
    if not ref.displayable():
        # a wide character in a 1-column widget: nothing can be shown; only sanity is demanded
        ok = cur is not None and 0 <= cur[0] < cfg["W"] and 0 <= cur[1] < len(rows)
        return ok, "cursor outside the canvas (undisplayable text)", False
    cx, cy, _shift = ref.cursor()
    grid = ref.grid()
    if nrows != len(grid) or len(rows) != len(grid):
        return False, f"rows: widget {nrows}/{len(rows)}, reference {len(grid)}", True
    if rows != grid:
        return False, f"rendered rows {[_show(r) for r in rows]} != reference {[_show(r) for r in grid]}", True
    if cur != (cx, cy):
        return False, f"canvas cursor {cur} != reference cell {(cx, cy)}", True
    if tuple(gcc) != (cx, cy):
        return False, f"get_cursor_coords {gcc} != reference cell {(cx, cy)}", True
    return True, "", True


def check_signals(cfg, events, before, after):
    """-> (ok, why).  The events of one key must form a chain of modifications old -> t1 -> ... -> new,
    each announced by change(t_i) while t_(i-1) is still held and followed by postchange(t_(i-1)) once
    t_i is held.  (First formulation demanded "no signals when the text is the same before and after
    the key" -- a false alarm: typing '0' into an empty IntEdit really modifies the text twice,
    '' -> '0' -> '' (leading-zero trimming), and signals both; the demand is now per pair.)"""
    if len(events) % 2:
        return False, "odd number of signals"
    cur = before
    for i in range(0, len(events), 2):
        c, p = events[i], events[i + 1]
        if c[0] != "change" or p[0] != "postchange":
            return False, "order is not change, postchange"
        if c[2] != cur:
            return False, f"'change' emitted while the widget held {c[2]!r}, expected the old text {cur!r}"
        new = c[1]
        if new == cur:
            return False, f"change/postchange signalled without a modification ({cur!r})"
        if p[1] != cur:
            return False, f"'postchange' argument {p[1]!r} is not the old text {cur!r}"
        if p[2] != new:
            return False, f"'postchange' emitted while the widget held {p[2]!r}, not the announced new text {new!r}"
        for e in (c, p):
            if not 0 <= e[3] <= len(e[2]):
                return False, f"edit_pos {e[3]} outside 0..{len(e[2])} inside the {e[0]} handler"
        cur = new
    if cur != after:
        return False, f"last announced text {cur!r} is not the final text {after!r}" if events else f"text changed {before!r} -> {after!r} without signals"
    if cfg["kind"] == "edit" and len(events) > 2:
        return False, f"{len(events) // 2} change/postchange pairs for one modification"
    return True, ""


def _zw_only(ref, r):
    """classification aid only: does the display row `r` of the reference hold zero-width characters only?
    (A second form -- zero-width characters followed by one displayed space on a row broken inside a word --
    stood here for b'\xcc\x81 aaa' at width 1 while the reference pulled the word up behind that space; the
    reference now leaves a row of zero-width characters alone as urwid does (spec/ref_editor.break_rows), so
    that row is a plain zero-width-only row whose space is the hidden wrap point.  The second form also
    matched '́ 中' at width 2, a row on which urwid does show the space.)"""
    return bool(r.cells) and all(w == 0 for (_i, _x, w) in r.cells)


def _zw_row(ref):
    """classification aid only (never used by an oracle): does some display row consist of zero-width
    characters only?  urwid leaves such characters out of its layout (see the final report)."""
    rows = ref.rows()
    return bool(rows) and any(_zw_only(ref, r) for r in rows)


def _zw_at(ref):
    """classification aid only (never used by an oracle): which of {the cursor, the start of the edit
    text} lie on a display row that consists of zero-width characters only -> set of 'cursor' / 'text-start'.
    (urwid's layout has no segment for such characters, so every offset on such a row is mapped to the
    closest offset of a neighbouring row: known finding C10-KF1.)"""
    rows = ref.rows()
    out = set()
    if not rows:
        return out
    ncap = len(ref.caption)
    for r in rows:
        if _zw_only(ref, r):
            on_row = {ref.from_disp(d) for (d, _x) in r.positions() if d >= ncap}
            if ref.pos in on_row:
                out.add("cursor")
            if 0 in on_row:
                out.add("text-start")
    return out


def _zw_obs0(ref):
    return sorted({"cursor-before", "cursor-after"} if "cursor" in _zw_at(ref) else set()) + (["text-start"] if "text-start" in _zw_at(ref) else [])


def apply_and_check(w, ref, cfg, ev, log):
    """Apply one event to the real widget and to the reference; evaluate every clause.
    Returns (verdicts: {clause: (ok, why, nontrivial)}, alive: bool, obs: dict)."""
    size = (cfg["W"],)
    v = {}
    before_text, before_pos = w.edit_text, w.edit_pos
    ref_before = (ref.value(), ref.offset(), ref.prefs)
    zw_before = _zw_at(ref)
    del log[:]
    try:
        ret = do_event(w, size, ev)
    except Exception as e:  # noqa: BLE001
        v["no-exception"] = (False, f"raised {type(e).__name__}: {e}"[:300], True)
        return v, False, {"before": [repr(before_text), before_pos], "zero_width_at": sorted(f"{x}-before" for x in zw_before)}
    events = list(log)
    after_text, after_pos = w.edit_text, w.edit_pos
    obs = {"before": [repr(before_text), before_pos], "after": [repr(after_text), after_pos], "returned": repr(ret), "signals": repr([(e[0], e[1]) for e in events])}
    is_mouse = isinstance(ev, (list, tuple))
    is_click = is_mouse and ev[0] == "click"
    printable = (not is_mouse) and len(ev) == 1 and ord(ev) >= 32

    # ---- reference step
    if is_click:
        res = ref.click(ev[1], ev[2])
    elif is_mouse:
        res = {"ret": False, "alts": {ref.pos}}
    else:
        accepted = None
        tab_n = None
        if cfg["kind"] != "edit" and printable:
            # a character of the alphabet may still be refused (second separator, digit before the sign, ...):
            # there the widget decides.  A character outside the alphabet is a key the editor does not use:
            # the reference refuses it whatever the widget did.
            accepted = (ret is None) if in_alphabet(cfg, ev) else False
        if ev == "tab" and cfg["allow_tab"]:
            tab_n = len(after_text) - len(before_text)
        res = ref.step(ev, accepted, tab_n)
    exp_text = ref.value()
    obs["reference"] = [repr(exp_text), ref.offset(), repr(ref.prefs)]
    if cfg["kind"] != "edit" and printable and not in_alphabet(cfg, ev) and ret is None:
        # classification aid for the failure details (the verdicts below do not read it)
        obs["outside_alphabet_key"] = f"U+{ord(ev):04X}"

    # ---- offset-valid
    idx = _index_of_offset(cfg, after_text, after_pos)
    if idx is None:
        why = f"edit_pos {after_pos} outside 0..{len(after_text)}" if not 0 <= after_pos <= len(after_text) else f"edit_pos {after_pos} is inside a multi-byte character of {after_text!r}"
        v["offset-valid"] = (False, why, True)
    else:
        v["offset-valid"] = (True, "", True)

    # ---- model / click
    alive = True
    text_ok = type(after_text) is type(exp_text) and after_text == exp_text
    if not text_ok:
        alive = False
        v["model"] = (False, f"text {after_text!r}, reference {exp_text!r}", True)
    elif idx is None:
        alive = False
        v["model"] = (False, f"offset {after_pos} is not a character position; reference {ref.offset()}", True)
    elif res["alts"] is None:
        # undisplayable text: column-addressed moves have no reference; only the invariants are demanded
        ref.adopt(idx)
        if not is_click:
            v["model"] = (True, "", False)
    elif is_click:
        if res["ret"] is False:
            ok = after_pos == before_pos and not ret
            v["click"] = (ok, f"click on row {ev[2]} outside the edit text: returned {ret!r}, cursor {before_pos}->{after_pos}", False)
            if after_pos != before_pos:
                ref.adopt(idx)
        elif res["char"] is not None:
            want = ref.offset(res["char"])
            ok = after_pos == want and bool(ret)
            v["click"] = (ok, f"click on the cell of the character at offset {want}: cursor at {after_pos}, returned {ret!r}", True)
            if after_pos != want:
                if idx in res["alts"]:
                    ref.adopt(idx)
                else:
                    alive = False
        else:
            # a blank or caption cell: the statement fixes nothing; the reference expects the closest
            # position of the row, the check only demands that the cursor lands on the clicked row
            if idx in res["alts"]:
                ok = True
            else:
                ok = ref.row_of(idx) == ev[2]
            ref.adopt(idx)
            v["click"] = (ok and bool(ret), f"click on blank cell {ev[1:]}: cursor {after_pos} is not on row {ev[2]} (or returned {ret!r})", False)
    else:
        if idx in res["alts"]:
            ref.adopt(idx, res)
            v["model"] = (True, "", True)
        else:
            alive = False
            exp = sorted(ref.offset(p) for p in res["alts"])
            v["model"] = (False, f"cursor offset {after_pos}, reference {exp}", True)

    # ---- return value
    if not is_click:
        want = res["ret"]
        if is_mouse:
            ok = not ret and after_text == before_text and after_pos == before_pos and not events
            v["return-value"] = (ok, f"button {ev[1]} press: returned {ret!r}, state changed or signalled", True)
        elif want == "none":
            v["return-value"] = (ret is None, f"key was used by the reference editor but returned {ret!r}", True)
        elif want == "key":
            ok = ret == ev and after_text == before_text and after_pos == before_pos and not events
            v["return-value"] = (ok, f"unused key: returned {ret!r}, text/cursor {before_text!r}/{before_pos} -> {after_text!r}/{after_pos}, signals {len(events)}", True)
        else:
            ok = (ret is None or ret == ev) and after_text == before_text
            v["return-value"] = (ok, f"key without effect returned {ret!r} or changed the text", False)

    # ---- signals
    ok, why = check_signals(cfg, events, before_text, after_text)
    v["signals"] = (ok, why, before_text != after_text)

    # ---- numeric alphabet
    if cfg["kind"] != "edit":
        ok = alphabet_ok(cfg, after_text)
        if ok:
            v["numeric-alphabet"] = (True, "", True)
        else:
            kind = "a '-' that is not a single leading sign" if alphabet_ok(cfg, after_text.replace("-", "")) else "a character outside the alphabet"
            how = "introduced by this event" if alphabet_ok(cfg, before_text) else "still held"
            v["numeric-alphabet"] = (False, f"{kind} ({how}): text {after_text!r}", True)

    # ---- view
    try:
        if alive:
            ok, why, nt = check_view(w, ref, cfg)
            v["cursor-cell"] = (ok, why, nt)
        else:
            w.render(size, True)
    except Exception as e:  # noqa: BLE001
        v["no-exception"] = (False, f"render/cursor query raised {type(e).__name__}: {e}"[:300], True)
        alive = False
    if "no-exception" not in v:
        v["no-exception"] = (True, "", True)
    obs["ref_before"] = [repr(ref_before[0]), ref_before[1], repr(ref_before[2])]
    obs["zero_width_row"] = _zw_row(ref)
    zw_after = _zw_at(ref)
    obs["zero_width_at"] = sorted({"cursor-before" for x in zw_before if x == "cursor"} | {"cursor-after" for x in zw_after if x == "cursor"} | {"text-start" for x in zw_before | zw_after if x == "text-start"})
    return v, alive, obs


def build(cfg, text0, pos0, path):
    """Fresh widget + reference in the state reached by `path` (events applied without oracles, the
    reference following the widget inside its accepted sets).  Renders with focus after construction
    and after every event, as a main loop does."""
    size = (cfg["W"],)
    w = make_widget(cfg, text0, pos0)
    ref = make_ref(cfg, text0, pos0)
    log = Log()
    attach(w, log)
    w.render(size, True)
    for ev in path:
        apply_and_check(w, ref, cfg, ev, log)
    return w, ref, log


def evaluate(cfg, text0, pos0, path, ev, ref=None):
    """-> (verdicts, alive, obs, ref_after)."""
    size = (cfg["W"],)
    try:
        if ref is None:
            w, ref, log = build(cfg, text0, pos0, path)
        else:
            # (get_cursor_coords switches the view-follows-cursor mode on exactly as a focus render
            # does and is much cheaper; the random-history check uses real renders between events)
            w = make_widget(cfg, text0, pos0)
            log = Log()
            attach(w, log)
            w.get_cursor_coords(size)
            for e in path:
                do_event(w, size, e)
                w.get_cursor_coords(size)
            ref = copy.copy(ref)
            ref.text = list(ref.text)
    except Exception as e:  # noqa: BLE001
        what = "constructing and first rendering the initial state" if not path else "replaying the path to the state"
        return {"no-exception": (False, f"{what} raised {type(e).__name__}: {e}"[:300], True)}, False, {}, None
    if ev is None:
        v = {}
        idx = _index_of_offset(cfg, w.edit_text, w.edit_pos)
        v["offset-valid"] = (idx is not None, f"initial edit_pos {w.edit_pos} invalid for {w.edit_text!r}", True)
        try:
            v["cursor-cell"] = check_view(w, ref, cfg)
            v["no-exception"] = (True, "", True)
        except Exception as e:  # noqa: BLE001
            v["no-exception"] = (False, f"render/cursor query raised {type(e).__name__}: {e}"[:300], True)
            return v, False, {"zero_width_row": _zw_row(ref), "zero_width_at": _zw_obs0(ref)}, ref
        return v, True, {"zero_width_row": _zw_row(ref), "zero_width_at": _zw_obs0(ref)}, ref
    v, alive, obs = apply_and_check(w, ref, cfg, ev, log)
    return v, alive, obs, ref


# ----------------------------------------------------------------------------------------------
# exploration of one task (one configuration, one chunk of initial texts)
class Tally:
    """Per-clause counters that can be merged across processes."""

    def __init__(self):
        self.ev = {}
        self.nt = {}
        self.fail = {}
        self.samples = {}
        self.cpu = 0.0

    def case(self, clause, ok, nontrivial, detail_fn, sample=None):
        self.ev[clause] = self.ev.get(clause, 0) + 1
        if nontrivial:
            self.nt[clause] = self.nt.get(clause, 0) + 1
        if sample is not None and len(self.samples.setdefault(clause, [])) < 1:
            self.samples[clause].append(sample)
        if not ok:
            fl = self.fail.setdefault(clause, {})
            d = detail_fn()
            # keep at most 3 failures per distinct reason class so that one defect does not hide another
            cls = d.get("class", d["why"][:40])
            bucket = fl.setdefault(cls, [0, []])
            bucket[0] += 1
            if len(bucket[1]) < CAP_PER_CLASS:
                bucket[1].append(d)


def _why_class(clause, why, ev):
    e = ev[0] if isinstance(ev, (list, tuple)) else (ev if ev is None or len(ev) > 1 else "printable")
    w = why.split(":")[0] if clause in ("no-exception", "numeric-alphabet") else "".join(c for c in why if not c.isdigit())[:30]
    return f"{e}|{w}"


def record(tally, cfg, text0, pos0, path, ev, verdicts, obs):
    for clause, (ok, why, nt) in verdicts.items():
        def detail(clause=clause, why=why):
            # inner_clause / zero_width_at: top-level copies for the known-finding predicates
            oak = obs.get("outside_alphabet_key")
            cls = f"accepted-outside-alphabet-key|{oak}" if oak else ("zero-width-row|" if obs.get("zero_width_at") else "") + _why_class(clause, why, ev)
            return {"clause": clause, "inner_clause": clause, "why": why, "cfg": cfg, "text0": text0, "pos0": pos0, "path": list(path), "event": ev, "obs": obs, "zero_width_at": list(obs.get("zero_width_at", [])), "outside_alphabet_key": oak, "class": cls}

        tally.case(clause, ok, nt, detail, sample={"cfg": cfg, "text0": text0, "pos0": pos0, "path": list(path), "event": ev})


def events_for(cfg, ref, full, clicks, pref_keys=None):
    if cfg["kind"] != "edit":
        evs = numeric_keys(cfg)
    elif full is True:
        evs = PRINT_KEYS + NAV_KEYS + UNUSED_KEYS
    elif full == "probe":
        evs = ["up", "down"]
    else:
        evs = list(pref_keys or PREF_KEYS)
    if full is True:
        evs = [*evs, ("press", 3, 0, 0)]
    if clicks and ref.displayable():
        n = len(ref.rows())
        evs = [*evs, *[("click", c, r) for r in range(n + 1) for c in range(cfg["W"])]]
    return evs


def explore(task):
    """task: dict(cfg, inits=[(text,pos)], depth, expand_len, click_depth). -> Tally"""
    cfg = task["cfg"]
    tally = Tally()
    cpu0 = time.process_time()
    numeric = cfg["kind"] != "edit"
    with _Utf8():
        visited = set()
        queue = []
        for text0, pos0 in task["inits"]:
            v, alive, obs, ref = evaluate(cfg, text0, pos0, [], None)
            record(tally, cfg, text0, pos0, [], None, v, obs)
            if alive:
                visited.add((text0, pos0, (None,)))
                queue.append((text0, pos0, (), ref, True))
        qi = 0
        while qi < len(queue):
            text0, pos0, path, ref, full = queue[qi]
            qi += 1
            depth = len(path)
            for ev in events_for(cfg, ref, full, clicks=depth <= task["click_depth"], pref_keys=task.get("pref_keys")):
                v, alive, obs, ref2 = evaluate(cfg, text0, pos0, list(path), ev, ref)
                record(tally, cfg, text0, pos0, path, ev, v, obs)
                if not alive or depth + 1 > task["depth"]:
                    continue
                sig = ("".join(ref2.text), ref2.pos, ref2.prefs)
                if sig in visited and (numeric or ref2.prefs != (None,)):
                    continue
                if numeric:
                    if len(ref2.text) > task["expand_len"]:
                        continue
                    visited.add(sig)
                    queue.append((text0, pos0, (*path, ev), ref2, True))
                else:
                    if len(ref2.text) > task["expand_len"]:
                        continue
                    if ref2.prefs == (None,):
                        # a plain state is covered as an initial state of its own text; but when it was
                        # reached from a state that carried a preferred column, probe once that the
                        # column really was forgotten (up/down on this very widget)
                        if full is False and isinstance(ev, str) and ev not in ("up", "down"):
                            psig = (*sig, "probe", ref.prefs)
                            if psig not in visited:
                                visited.add(psig)
                                queue.append((text0, pos0, (*path, ev), ref2, "probe"))
                        continue
                    visited.add(sig)
                    queue.append((text0, pos0, (*path, ev), ref2, False))
    tally.cpu = time.process_time() - cpu0
    return tally


# ----------------------------------------------------------------------------------------------
# random histories
def random_history(cfg, text0, pos0, events):
    """-> (ok, first failing info)"""
    try:
        w = make_widget(cfg, text0, pos0)
    except Exception as e:  # noqa: BLE001
        return False, {"step": -1, "why": f"constructor raised {e!r}"}
    ref = make_ref(cfg, text0, pos0)
    log = Log()
    attach(w, log)
    try:
        w.render((cfg["W"],), True)
    except Exception as e:  # noqa: BLE001
        return False, {"step": -1, "clause": "no-exception", "why": f"initial render raised {type(e).__name__}: {e}"}
    for i, ev in enumerate(events):
        v, alive, obs = apply_and_check(w, ref, cfg, ev, log)
        bad = {c: why for c, (ok, why, _nt) in v.items() if not ok}
        if bad:
            c = sorted(bad)[0]
            return False, {"step": i, "event": ev, "clause": c, "why": bad[c], "all": bad, "obs": obs}
        if not alive:
            break
    return True, None


PREF_RANDOM_KEYS = ["up"] * 4 + ["down"] * 4 + ["home", "end", "delete", "delete", "delete", "backspace", "backspace", "a", "中", "left", "right", "enter", "tab", "f1"]


def _ragged_text(r):
    """2..4 lines of unequal random lengths (0..6) over {a, b, space, 中}"""
    lines = []
    for _ in range(r.randint(2, 4)):
        n = r.choice([0, 1, 1, 2, 3, 4, 6])
        lines.append("".join(r.choice(["a", "a", "a", "b", " ", "中"]) for _ in range(n)))
    return "\n".join(lines)


def random_task(args):
    """Three families, each with a random stream of its own (so that widening one does not reshuffle the
    others): 'generic' (any configuration, short random text, all keys), 'pref' (preferred-column stress:
    ragged text, mostly vertical moves and deletions), 'foreign' (numeric widgets, keys inside and outside
    the alphabet half and half)."""
    cfgs, seed, chunk, count, length, maxlen, pcfgs, pcount, ncfgs, ncount = args
    streams = {"generic": rng(seed * 1000 + chunk), "pref": rng(seed * 1000 + chunk + 500_000), "foreign": rng(seed * 1000 + chunk + 700_000)}
    tally = Tally()
    cpu0 = time.process_time()
    with _Utf8():
        for family in ["generic"] * count + ["pref"] * pcount + ["foreign"] * ncount:
            r = streams[family]
            stress = family == "pref"
            if stress:
                cfg = pcfgs[r.randrange(len(pcfgs))]
                text0 = _ragged_text(r)
                pos0 = r.randint(0, len(text0))
                keys = PREF_RANDOM_KEYS
            elif family == "foreign":
                cfg = ncfgs[r.randrange(len(ncfgs))]
                text0, pos0 = "", 0
                outside = [k for k in numeric_keys(cfg) if k not in NUM_KEYS]
                keys = NUM_KEYS * (1 + len(outside) // len(NUM_KEYS)) + outside
            else:
                cfg = cfgs[r.randrange(len(cfgs))]
                if cfg["kind"] == "edit":
                    alpha = ["a", "b", " ", "\n", "中", "́"]
                    text0 = "".join(r.choice(alpha) for _ in range(r.randint(0, maxlen)))
                    pos0 = r.randint(0, len(text0))
                    keys = PRINT_KEYS + NAV_KEYS + NAV_KEYS + UNUSED_KEYS
                else:
                    text0, pos0 = "", 0
                    keys = NUM_KEYS
            events = []
            for _ in range(length + 2 if stress else length):
                if r.random() < (0.08 if stress else 0.15):
                    events.append(("click", r.randrange(cfg["W"]), r.randrange(4)))
                else:
                    events.append(r.choice(keys))
            ok, info = random_history(cfg, text0, pos0, events)

            def detail(info=info, cfg=cfg, text0=text0, pos0=pos0, events=events):
                zw = list((info.get("obs") or {}).get("zero_width_at", []))
                oak = (info.get("obs") or {}).get("outside_alphabet_key")
                cls = f"accepted-outside-alphabet-key|{oak}" if oak else ("zero-width-row|" if zw else "") + _why_class(info.get("clause", ""), str(info.get("why")), info.get("event"))
                return {"clause": "random-histories", "inner_clause": info.get("clause"), "event": info.get("event"), "why": f"step {info.get('step')}: [{info.get('clause')}] {info.get('why')}", "cfg": cfg, "text0": text0, "pos0": pos0, "events": events, "obs": info.get("obs"), "zero_width_at": zw, "outside_alphabet_key": oak, "class": cls}

            tally.case("random-histories", ok, True, detail, sample={"cfg": cfg, "text0": text0, "pos0": pos0, "events": events})
    tally.cpu = time.process_time() - cpu0
    return tally


# ----------------------------------------------------------------------------------------------
# numeric constructors
def numeric_initial_cases():
    defaults_int = [None, "", 0, 7, -5, "0", "12", "007", Decimal("12"), Decimal("-3")]
    # str defaults that a validating constructor (IntegerEdit / FloatEdit check str defaults; IntEdit documents
    # none and is left out) must either refuse or normalise into its alphabet: non-ASCII decimal digits,
    # letters that case-fold / upper-case to ASCII letters, and spellings float() / Decimal() accept
    unicode_int = ["\u0663", "\uff11\uff12", "\u00b2", "\u0131", "\u017f", "\u212a", "1_0", " 5", "+5"]
    unicode_float = ["\u0663", "\uff11.\uff15", "\u00b2", "1_0", " 5", "+5", "nan", "inf", "-inf"]
    out = []
    for d in defaults_int + unicode_int:
        if not isinstance(d, Decimal) and d not in unicode_int:
            out.append(("IntEdit", {"default": d}))
        for base in (2, 10, 16, 36):
            for neg in (False, True):
                out.append(("IntegerEdit", {"default": d, "base": base, "allow_negative": neg}))
    for d in [None, "", 0, 7, -5, "0", "12", "1.50", "-1.5", "1e5", "1E-7", Decimal("12"), Decimal("1.5"), Decimal("1E+2"), Decimal("0.0000001"), *unicode_float]:
        for sep in (".", ","):
            for neg in (False, True):
                out.append(("FloatEdit", {"default": d, "decimal_separator": sep, "allow_negative": neg}))
    return out


def numeric_initial_one(ctor, kw):
    """-> (ok, why, nontrivial, text)"""
    try:
        if ctor == "IntEdit":
            w = IntEdit("", kw["default"])
            cfg = {"kind": "intedit"}
        elif ctor == "IntegerEdit":
            w = IntegerEdit("", kw["default"], kw["base"], allow_negative=kw["allow_negative"])
            cfg = {"kind": "integeredit", "base": kw["base"], "neg": kw["allow_negative"]}
        else:
            w = FloatEdit("", kw["default"], decimal_separator=kw["decimal_separator"], allow_negative=kw["allow_negative"])
            cfg = {"kind": "floatedit", "sep": kw["decimal_separator"], "neg": kw["allow_negative"]}
    except ValueError as e:
        # the constructors document ValueError for defaults they do not accept: nothing is held
        return True, f"rejected: {e}", False, None
    text = w.edit_text
    ok = alphabet_ok(cfg, text)
    return ok, f"{ctor}(default={kw['default']!r}, ...) holds {text!r}", True, text


def numeric_offending(ctor, kw, text):
    """classification aid for the failure details: the characters of `text` outside the alphabet (a leading
    '-' is not counted when negatives are allowed), as a sorted string"""
    if text is None:
        return ""
    cfg = {"IntEdit": {"kind": "intedit"}, "IntegerEdit": {"kind": "integeredit", "base": kw.get("base"), "neg": kw.get("allow_negative")}, "FloatEdit": {"kind": "floatedit", "sep": kw.get("decimal_separator"), "neg": kw.get("allow_negative")}}[ctor]
    allowed, neg = allowed_alphabet(cfg)
    body = text[1:] if (neg and text[:1] == "-") else text
    return "".join(sorted({c for c in body if c not in allowed}))


# ----------------------------------------------------------------------------------------------
# bounds
def texts_upto(alpha, n):
    for k in range(n + 1):
        for t in itertools.product(alpha, repeat=k):
            yield "".join(t)


EXTRA_TEXTS = ["a aaa", "aa aaa", "ab 中c", "a中a中a", "aa\naaaa\na", "a  a a", "中中 中", "áá á", "aaaa a", " aaa", "a\n\na"]


def configs(tier):
    quick = tier == "quick"
    cfgs = []
    # core ("plain"): every wrap x align x width, no caption, str, no mask
    for wrap in ("space", "any", "clip"):
        for align in ("left", "center", "right"):
            for W in (1, 2, 3, 4) if quick else (1, 2, 3, 4, 5, 6):
                if quick and W in (1, 4) and align != "left":
                    continue
                cfgs.append(edit_cfg("", W, wrap, align, multiline=True))
    # captions
    caps = ["a", "中 "] if quick else ["a", "ab", "中 ", "a\n"]
    shapes = (("left", 2), ("right", 3)) if quick else (("left", 1), ("left", 2), ("left", 3), ("right", 3), ("center", 4))
    for cap in caps:
        for wrap in ("space", "any", "clip"):
            for align, W in shapes:
                cfgs.append(edit_cfg(cap, W, wrap, align, multiline=True))
    # flags
    for wrap in ("space", "any", "clip"):
        for W in (3,) if quick else (2, 3, 5):
            cfgs.append(edit_cfg("", W, wrap, "left", multiline=False, allow_tab=True))
            cfgs.append(edit_cfg("a", W, wrap, "right", multiline=True, allow_tab=True, mask="*"))
            cfgs.append(edit_cfg("", W, wrap, "left", multiline=True, mask="中"))
    # bytes (UTF-8)
    for wrap in ("space", "any", "clip"):
        for W, align in ((2, "left"),) if quick else ((1, "left"), (2, "left"), (3, "right")):
            cfgs.append(edit_cfg("", W, wrap, align, multiline=True, unit="bytes"))
            cfgs.append(edit_cfg("a", W + 1, wrap, align, multiline=True, allow_tab=True, unit="bytes"))
    for W in (2,) if quick else (2, 3):
        cfgs.append(edit_cfg("", W, "any", "left", multiline=True, mask="*", unit="bytes"))
    return cfgs


def numeric_configs(tier):
    quick = tier == "quick"
    out = []
    shapes = [(2, "any", "left")] if quick else [(2, "any", "left"), (3, "space", "right"), (2, "clip", "center")]
    for W, wrap, align in shapes:
        out.append(num_cfg("intedit", W, wrap, align))
        # base 36: the whole digit string "0..9A..Z" is the alphabet (case mappings / substring tests of
        # non-ASCII letters land in it); base 20: 'I' is a digit (U+0131 upper-cases to it), 'S' is not
        bases = ((10, False), (10, True), (16, True), (2, False), (36, True)) if (quick or W != 2) else ((10, False), (10, True), (16, True), (2, False), (36, True), (20, False), (30, False))
        for base, neg in bases:
            out.append(num_cfg("integeredit", W, wrap, align, base=base, neg=neg))
        for sep in (".", ","):
            for neg in (False, True):
                out.append(num_cfg("floatedit", W, wrap, align, sep=sep, neg=neg))
    return out


def text_sets(tier):
    """(texts for the core configurations, texts for the other configurations)"""
    full = ["a", " ", "\n", "中", "́"]
    if tier == "quick":
        core = list(texts_upto(full, 2)) + list(texts_upto(["a", " ", "中"], 3)) + EXTRA_TEXTS[:6]
        other = list(texts_upto(full, 2)) + EXTRA_TEXTS[:6]
    else:
        core = list(texts_upto(full, 3)) + list(texts_upto(["a", " ", "中"], 4)) + EXTRA_TEXTS
        other = list(texts_upto(full, 2)) + list(texts_upto(["a", " ", "\n", "中"], 3)) + EXTRA_TEXTS
    return list(dict.fromkeys(core)), list(dict.fromkeys(other))


# ---- preferred-column histories ------------------------------------------------------------------
# "move one display row keeping the preferred column": the column is kept across consecutive up/down moves
# only; every other operation (insert, delete, backspace, left, right, enter, tab, home/end, a click) ends the
# chain, the next up/down starts from the cell the cursor is really drawn in.  A remembered column that
# outlives such an operation shows only when (1) it differs from the cursor's real column -- the cursor went
# through a row shorter than the column, or home/end/a click on a blank cell set it -- and (2) the row moved to
# afterwards tells the two columns apart.  Hence ragged texts (rows of different lengths: short or empty row
# between longer ones, staircase, wide characters, rows made by wrapping, a clipped row longer than the
# widget) and every alignment (right/centre: 'home' is not column 0); all keys at every state that carries a
# preferred column, and an up/down probe on the same widget after every key that must forget it.
PREF_FULL_KEYS = ["up", "down", "home", "end", "left", "right", "a", "delete", "backspace", "enter", "tab", "f1"]
RAGGED_TEXTS = [
    "aaa\na\naaa",  # short row between two longer ones
    "aaa\n\naa",  # empty row in the middle
    "a\naaaa\naa",  # long row in the middle
    "aaaa\naa\na\naaa",  # staircase
    "a中a\na\n中中",  # columns inside wide characters
    "aaaa a aaa",  # rows made by wrapping (wrap space: aaaa / a / aaa at width 4)
    "aaaaaa\na\naaa",  # a row longer than the widget (wrapped, or clipped with the view shifted)
    # thorough tier only:
    "aa\naaa\n\naaaa\na",
    "中a\n\na中a\na",
    "aa aaaa a\naaa",
    "a\n\n\naaa",
    "aaa\na\naaa\na\naaa",
]


def pref_configs(tier):
    quick = tier == "quick"
    cfgs = []
    for W in (4,) if quick else (3, 4, 5):
        for wrap in ("space", "any", "clip"):
            for align in ("left", "right", "center"):
                cfgs.append(edit_cfg("", W, wrap, align, multiline=True))
    cfgs.append(edit_cfg("", 3, "any", "left", multiline=True))
    cfgs.append(edit_cfg("", 3, "space", "right", multiline=True))
    cfgs.append(edit_cfg("a", 4, "space", "right", multiline=True, allow_tab=True))
    cfgs.append(edit_cfg("", 4, "any", "left", multiline=True, unit="bytes"))
    cfgs.append(edit_cfg("", 5, "clip", "center", multiline=True, mask="*"))
    return list({repr(c): c for c in cfgs}.values())


def pref_texts(tier):
    return RAGGED_TEXTS[:7] if tier == "quick" else RAGGED_TEXTS


def is_core(cfg):
    return cfg["caption"] == "" and cfg["unit"] == "str" and cfg["mask"] is None and not cfg["allow_tab"]


def tasks_for(tier):
    quick = tier == "quick"
    core_texts, other_texts = text_sets(tier)
    tasks = []
    for cfg in numeric_configs(tier):
        # (base > 16: 'a' and 'g' are both digits, the state space is larger -- texts one shorter in the quick tier)
        big = cfg.get("base", 10) > 16
        tasks.append({"cfg": cfg, "inits": [("", 0)], "depth": 4 if quick else 5, "expand_len": (2 if big else 3) if quick else 4, "click_depth": 2})
    per_task = 80 if quick else 400
    for ci, cfg in enumerate(configs(tier)):
        texts = core_texts if is_core(cfg) else other_texts
        inits = [(t, p) for t in texts for p in range(len(t) + 1)]
        if quick:
            # time budget of the quick tier (the run has to stay well below 45 s wall also when the cores
            # are shared): every second initial state, the phase alternating with the configuration index
            # (deterministic; neighbouring configurations -- same wrap and alignment, next width -- take
            # complementary halves).  The thorough tier takes every initial state.
            inits = [x for k, x in enumerate(inits) if (k + ci) % 2 == 0]
        for i in range(0, len(inits), per_task):
            depth = 2 if quick else 4
            tasks.append({"cfg": cfg, "inits": inits[i : i + per_task], "depth": depth, "expand_len": 8, "click_depth": 1 if (not quick and is_core(cfg)) else 0, "pref_keys": ["up", "down", "a", "delete"] if quick else PREF_KEYS})
    # preferred-column histories: ragged texts x every cursor, every key at every state with a preferred column
    for cfg in pref_configs(tier):
        inits = [(t, p) for t in pref_texts(tier) for p in range(len(t) + 1)]
        # quick tier: event sequences of length 3 (mover, key, up/down probe) everywhere, of length 4 for one
        # configuration per wrap mode (width 4; left, right and centre once each)
        deep = (cfg["W"], cfg["wrap"], cfg["align"], cfg["caption"], cfg["unit"]) in ((4, "any", "left", "", "str"), (4, "space", "right", "", "str"), (4, "clip", "center", "", "str"))
        for i in range(0, len(inits), 40):
            tasks.append({"cfg": cfg, "inits": inits[i : i + 40], "depth": (3 if deep else 2) if quick else 4, "expand_len": 20, "click_depth": 0, "pref_keys": PREF_FULL_KEYS, "family": "pref"})
    return tasks


def _merge(total, t):
    total.cpu += t.cpu
    for c, n in t.ev.items():
        total.ev[c] = total.ev.get(c, 0) + n
    for c, n in t.nt.items():
        total.nt[c] = total.nt.get(c, 0) + n
    for c, s in t.samples.items():
        total.samples.setdefault(c, [])
        if len(total.samples[c]) < 3:
            total.samples[c].extend(s[: 3 - len(total.samples[c])])
    for c, classes in t.fail.items():
        dst = total.fail.setdefault(c, {})
        for cls, (n, items) in classes.items():
            b = dst.setdefault(cls, [0, []])
            b[0] += n
            b[1].extend(items[: max(0, CAP_PER_CLASS - len(b[1]))])


def _pool_map(fn, tasks, procs):
    if procs <= 1:
        for t in tasks:
            yield fn(t)
        return
    ctx = multiprocessing.get_context("fork")
    with ctx.Pool(procs) as pool:
        yield from pool.imap_unordered(fn, tasks, chunksize=1)


def _result(name, rule, bound, exhaustive, total, clause, t0):
    fails = []
    classes = total.fail.get(clause, {})
    # round-robin over the reason classes, at most 20 reported; the classes of the known zero-width-row
    # finding go last so that they can never crowd a different failure out of the report
    for k in range(CAP_PER_CLASS):
        for cls, (n, items) in sorted(classes.items(), key=lambda kv: (kv[0].startswith("zero-width-row|"), -kv[1][0])):
            if k < len(items) and len(fails) < CAP_REPORT:
                fails.append({**items[k], "failures_in_class": n})
    return {
        "name": name,
        "rule": rule,
        "bound": bound,
        "exhaustive": exhaustive,
        "evaluations": total.ev.get(clause, 0),
        "distinct_nontrivial": total.nt.get(clause, 0),
        "failures": fails,
        "failure_count": sum(n for n, _ in classes.values()),
        "failure_classes": {cls: n for cls, (n, _i) in sorted(classes.items(), key=lambda kv: -kv[1][0])[:40]},
        "samples": total.samples.get(clause, []),
        "wall_s": round(time.time() - t0, 2),
        "cpu_s_all_workers": round(total.cpu, 1),
    }


def run(tier="quick", seed=0):
    t0 = time.time()
    procs = min(16, os.cpu_count() or 1)
    tasks = tasks_for(tier)
    # longest first (rough cost: numeric tasks, then the preferred-column tasks -- about 3x / 7x an ordinary initial state)
    tasks.sort(key=lambda t: -((len(t["inits"]) * ((7 if t["depth"] >= 3 else 3) if t.get("family") == "pref" else 1)) if t["cfg"]["kind"] == "edit" else 10**6))
    core_texts, other_texts = text_sets(tier)
    total = Tally()
    for t in _pool_map(explore, tasks, procs):
        _merge(total, t)
    ncfg = len(configs(tier))
    nnum = len(numeric_configs(tier))
    bound = (
        f"Edit: {ncfg} configurations (wrap space/any/clip x align x width 1..{4 if tier == 'quick' else 6}; captions, multiline/allow_tab/mask, str and UTF-8 bytes) x "
        f"{len(core_texts)} texts for the {sum(1 for c in configs(tier) if is_core(c))} plain configurations ({'all of length <= 2 over {a, space, newline, 中, U+0301}, all <= 3 over {a, space, 中}, 6 longer ones' if tier == 'quick' else 'all <= 3 over {a, space, newline, 中, U+0301}, all <= 4 over {a, space, 中}, 11 longer ones (up to 9 characters)'}) and {len(other_texts)} texts ({'all <= 2, 6 longer' if tier == 'quick' else 'all <= 2, all <= 3 without U+0301, 11 longer'}) for the others "
        f"x every cursor{' (quick tier: every second (text, cursor) pair, the phase alternating with the configuration)' if tier == 'quick' else ''} x every event ({len(PRINT_KEYS + NAV_KEYS + UNUSED_KEYS)} keys, a click on every cell, a button-3 press), "
        f"preferred-column states expanded to event sequences of length {2 if tier == 'quick' else 4}; "
        f"preferred-column histories: {len(pref_configs(tier))} configurations (width 3..5, every wrap x align at width {'4' if tier == 'quick' else '3, 4, 5'}, caption, UTF-8 bytes, mask) x {len(pref_texts(tier))} ragged texts (2..5 rows of unequal length incl. empty rows, wide characters, wrapped and clipped rows) x every cursor x every event, then all of {len(PREF_FULL_KEYS)} keys at every state that carries a preferred column and an up/down probe after every key that must forget it, event sequences up to length {'3 (4 for one configuration per wrap mode)' if tier == 'quick' else 5}; "
        f"numeric: {nnum} configurations (IntEdit, IntegerEdit base 2/10/16/36{'' if tier == 'quick' else '/20/30'}, FloatEdit), all key sequences up to length {4 if tier == 'quick' else 5} from the empty widget (memoised on state) over {len(NUM_KEYS)} common keys plus every one of {len(FOREIGN_KEYS)} non-ASCII characters (Nd/No/Nl/Lo digits and numbers, letters whose upper()/lower() is an ASCII letter, separator and minus look-alikes, Cf/Mn) and {len(ASCII_EXTRA_KEYS)} ASCII characters (digits of other bases, range neighbours of 0-9/A-Z/a-z, characters int()/float() tolerate) that is outside the configuration's alphabet, and the two-digit key name '12'"
    )
    checks = []
    for clause in CLAUSES:
        checks.append(_result(f"{ID}/{clause}", RULES[clause], bound, True, total, clause, t0))

    # numeric constructors
    t1 = time.time()
    chk = Check(f"{ID}/numeric-alphabet-initial", RULES["numeric-alphabet-initial"], True, "IntEdit / IntegerEdit(base 2,10,16,36; allow_negative) / FloatEdit(separator . and , ; allow_negative) x defaults None, '', ints, numeric strings, Decimals; for the two validating constructors also str defaults with non-ASCII digits, case-mapping letters (U+0131, U+017F, U+212A), '_', blank, '+', nan/inf")
    with _Utf8():
        for ctor, kw in numeric_initial_cases():
            ok, why, nt, text = numeric_initial_one(ctor, kw)
            chk.case((ctor, repr(kw)), ok, {"clause": "numeric-alphabet-initial", "why": why, "ctor": ctor, "kwargs": repr(kw), "text": text, "allow_negative": bool(kw.get("allow_negative", False)), "offending": numeric_offending(ctor, kw, text)}, nontrivial=nt, sample={"ctor": ctor, "kwargs": repr(kw)})
    chk.t0 = t1
    checks.append(chk.result())

    # random histories
    t2 = time.time()
    # (the generic family keeps the configuration list it has always drawn from; the numeric configurations added
    # later -- base > 16 -- are drawn by the 'foreign' family)
    numcfgs = numeric_configs(tier)
    allcfgs = configs(tier) + [c for c in numcfgs if c.get("base", 10) <= 16]
    nchunks = procs * 2
    count = 150 if tier == "quick" else 2500
    length = 8 if tier == "quick" else 10
    rtotal = Tally()
    pcount = 60 if tier == "quick" else 1500
    ncount = 40 if tier == "quick" else 800
    for t in _pool_map(random_task, [(allcfgs, seed, i, count, length, 6, pref_configs(tier), pcount, numcfgs, ncount) for i in range(nchunks)], procs):
        _merge(rtotal, t)
    checks.append(_result(f"{ID}/random-histories", RULES["random-histories"], f"{nchunks * count} seeded sequences of {length} events, random configuration from the same set, initial text <= 6 over {{a, b, space, newline, 中, U+0301}}; plus {nchunks * pcount} preferred-column stress sequences of {length + 2} events (ragged initial text of 2..4 lines of length 0..6 over {{a, b, space, 中}}, {len(pref_configs(tier))} configurations, 40% up/down, 25% delete/backspace, home/end/insert/left/right/enter/tab/clicks); plus {nchunks * ncount} sequences of {length} events on the {len(numcfgs)} numeric configurations with keys inside and outside the alphabet half and half", False, rtotal, "random-histories", t2))
    return {"checks": checks, "bound": bound}


# ----------------------------------------------------------------------------------------------
def _tup(ev):
    return tuple(ev) if isinstance(ev, list) else ev


def replay(check_name, case):
    clause = check_name.split("/", 1)[1] if "/" in check_name else check_name
    with _Utf8():
        if clause == "numeric-alphabet-initial":
            kw = eval(case["kwargs"], {"Decimal": Decimal})  # noqa: S307  (our own repr)
            ok, why, _nt, text = numeric_initial_one(case["ctor"], kw)
            return {"outcome": "not-reproduced" if ok else "confirmed", "detail": {"why": why, "text": repr(text)}}
        cfg = case["cfg"]
        if clause == "random-histories":
            ok, info = random_history(cfg, case["text0"], case["pos0"], [_tup(e) for e in case["events"]])
            return {"outcome": "not-reproduced" if ok else "confirmed", "detail": {"info": repr(info)}}
        path = [_tup(e) for e in case.get("path", [])]
        ev = _tup(case.get("event"))
        v, alive, obs, _ref = evaluate(cfg, case["text0"], case["pos0"], path, ev)
        ok, why, _nt = v.get(clause, (True, "clause not evaluated for this case", False))
        return {"outcome": "not-reproduced" if ok else "confirmed", "detail": {"why": why, "obs": obs, "all": {c: list(x) for c, x in v.items() if not x[0]}}}
