"""C04 bounded stand-in: the bytes sent to the terminal paint exactly the rendered canvas.

The real `urwid.display.raw.Screen` (a subclass that only answers `get_cols_rows`) writes into an
in-memory byte stream; everything written since `start()` is interpreted by the independent reference
terminal `spec/term_state.py` (VT100/xterm: autowrap with the last-column flag, CUP, EL with
back-colour erase, insert mode, SGR via spec/sgr.py, G0/G1 + SO/SI with the DEC special graphics set,
cursor show/hide, UTF-8 / 8-bit / EUC input decoding, double-width cells).  After EVERY draw the
interpreted screen is compared cell by cell with a plain grid built from the frame description (never
from urwid's own canvas content).

Checks (one per clause of the statement)
  C04/paint-every-cell     every cell shows the text and attributes (fg, bg, style flags) of the last canvas
  C04/cursor               cursor visible at the canvas cursor, or hidden when the canvas has none
  C04/never-scrolls        no line was ever scrolled; insert mode is off and no control sequence is left
                           unfinished after a draw; only sequences of the modelled VT100/xterm repertoire
  C04/incremental-equals-full-repaint
                           the state after the whole history == the state after start() + one draw of the
                           last canvas on a fresh screen (compared through the interpreter only: this
                           clause does not use the expected-attribute tables)
  C04/control-characters/{C0,DEL,C1}
                           canvases whose text contains C0 / DEL / C1 control characters: no control
                           function reaches the terminal, every OTHER cell is painted as the canvas says
  C04/html-text            HtmlGenerator: fragment parsed as HTML gives exactly the canvas text row by row
  C04/html-cursor          HtmlGenerator: at most one highlighted character, and it is the one under the cursor

Readings of the statement fixed here
  * "forced clears": `clear()` is documented as "force the screen to be completely repainted"; the harness
    therefore SCRIBBLES over the reference terminal (every cell unknown) when it calls `clear()`, and the
    next draw must restore every cell.  The same after a size change (what a terminal keeps on screen
    after a resize differs between terminals).  A size change is delivered the way a real one is:
    `_sigwinch_handler()`, then input processing (`parse_input`) reports 'window resize', then the next
    `draw_screen` gets the new size.
  * back_color_erase=True is run against a terminal WITH back-colour erase, False against one without
    (erased cells get the default background) -- the setting is a statement about the terminal.
  * an ERASED cell has no foreground and no style; it stands for a canvas blank iff the background is
    the canvas cell's background and the cell's attribute has none of the styles that are visible on a
    blank (underline, strikethrough: a line is drawn through the cell; standout: the cell shows the
    foreground colour).  Bold/italics/blink and the foreground colour of a blank without those styles are
    invisible and not demanded of erased cells.  PRINTED cells (blanks too) are compared in full.
  * half of a double-width character whose other half was overwritten/erased/pushed off the line is
    terminal-dependent ("broken" in the reference) and never equals a canvas cell.
  * the partial-screen mode of `start(alternate_buffer=False)` is not part of the statement's
    configurations (there the canvas is deliberately NOT the whole screen) and is not exercised.
  * control characters in the canvas text (C0, DEL, C1) have no glyph, so the statement cannot say what
    their own cell shows; what it does say is that every OTHER cell shows the canvas and that nothing
    scrolls.  The canvas geometry is urwid's own: the control character occupies as many columns as
    `str_util.calc_width` gives it (0 in UTF-8, 1 in 8-bit/EUC encodings) and the row is padded to the
    screen width by that measure, exactly as a Text widget would render it.  Kept in a separate check.
  * attributes: the expected rendition of every attribute used here is written down by hand per colour
    depth (ATTRS below) from the palette documentation (mono entry at 1 colour, foreground/background at
    16, the *_high entries at 88/256/2**24, corners of the colour cubes only so that "nearest colour" is
    not in play); undefined names and None = terminal default; an AttrSpec object is drawn as its own
    fields say at any depth.  bright_is_bold is switched off (C17 covers the bold-for-bright reading).
  * two AttrSpec objects that denote different colours or settings are different attributes however close their
    packed representation is (default vs true-colour black vs palette index 0, bold as the only difference):
    the NEAR table and the families E / F draw them over one another and next to one another.
  * HTML: "the canvas text" is the decoded text of the canvas rows; a DEC special-graphics run (only
    present in non-UTF-8 encodings) is compared literally (the statement says text, not glyphs).
    "Highlighted" = styled differently from the same canvas drawn without a cursor.
"""
from __future__ import annotations

import html.parser
import io
import itertools
import os
import time

import urwid
from urwid.canvas import CanvasCache, TextCanvas
from urwid.display import html_fragment
from urwid.display import raw as raw_display
from urwid.display.common import AttrSpec
from urwid.util import get_encoding, set_encoding

from bounded.common import Check, rng
from spec.sgr import DEFAULT
from spec.term_state import SPECIAL_GRAPHICS, Cell, TermError, Terminal, char_width

DEPTHS = (1, 16, 88, 256, 2**24)
DEC = {"─": b"q", "│": b"x", "┌": b"l", "┘": b"j"}  # VT100 special graphics codes (table 3-9)


def IDX(n):
    return ("index", n)


def RGB(r, g, b):
    return ("rgb", r, g, b)


# ======================================================================================================
# attributes: id -> (what goes into the canvas, expected rendition per depth)


def _palette():
    return [
        ("pm", "dark red", "brown", "bold", "#f00", "#00f"),
        ("ps", "default,standout", "dark blue", "standout"),
        ("pk", "black,strikethrough", "dark cyan", "strikethrough"),
        ("pb", "yellow,blink", "default"),
    ]


def _canvas_attr(aid):
    if aid in NEAR:
        return AttrSpec(*NEAR[aid][0])  # a NEW object for every canvas: equality by value, never by identity
    return {
        0: None,
        1: "pm",
        2: "undef",
        3: AttrSpec("dark green,bold", "dark magenta"),
        4: "ps",
        5: "pk",
        6: AttrSpec("h208,underline", "h17", 256),
        7: AttrSpec("#102030", "#ffeedd", 2**24),
        8: "pb",
        9: AttrSpec("default,italics", "default"),
    }[aid]


N_ATTRS = 10  # the ids the random generators draw from

# "Near-equal" AttrSpec objects (ids 10..): pairs of them denote DIFFERENT colours or settings although their
# descriptions / packed numbers nearly coincide -- default vs colour number 0 of each kind (basic 'black', high 'h0',
# true-colour '#000'), the same number 1 as a basic, a high and a true colour, bold as the only difference, the same
# default/default declared at different depths (these DO look alike).  The row diff against screen_buf and the
# attribute-switch test inside a row both rest on AttrSpec equality: family E below draws every ordered pair of
# them as "same text redrawn with the other attribute" and as adjacent runs of one row.
# id: ((foreground, background, colors) handed to AttrSpec, (fg, bg, flags) a terminal must show -- written by hand)
NEAR = {
    10: (("default", "default", 2**24), (DEFAULT, DEFAULT, ())),
    11: (("#000", "default", 2**24), (RGB(0, 0, 0), DEFAULT, ())),
    12: (("default", "#000", 2**24), (DEFAULT, RGB(0, 0, 0), ())),
    13: (("#000", "#000", 2**24), (RGB(0, 0, 0), RGB(0, 0, 0), ())),
    14: (("black", "default", 16), (IDX(0), DEFAULT, ())),
    15: (("default", "black", 16), (DEFAULT, IDX(0), ())),
    16: (("h0", "default", 256), (IDX(0), DEFAULT, ())),
    17: (("default", "h0", 256), (DEFAULT, IDX(0), ())),
    18: (("h0", "h0", 88), (IDX(0), IDX(0), ())),
    19: (("default,bold", "default", 16), (DEFAULT, DEFAULT, ("bold",))),
    20: (("#000,bold", "default", 2**24), (RGB(0, 0, 0), DEFAULT, ("bold",))),
    21: (("black,bold", "default", 16), (IDX(0), DEFAULT, ("bold",))),
    22: (("#000001", "#000001", 2**24), (RGB(0, 0, 1), RGB(0, 0, 1), ())),
    23: (("dark red", "dark red", 16), (IDX(1), IDX(1), ())),
    24: (("h1", "h1", 256), (IDX(1), IDX(1), ())),
    25: (("default", "default", 88), (DEFAULT, DEFAULT, ())),
    26: (("default,underline", "default", 2**24), (DEFAULT, DEFAULT, ("underline",))),
    27: (("default", "default", 16), (DEFAULT, DEFAULT, ())),
}
NEAR_IDS = (0, *sorted(NEAR))


def rendition(aid, depth):
    """(fg, bg, flags) the terminal must show for attribute `aid` on a `depth`-colour screen."""
    f = frozenset
    if aid in NEAR:  # an AttrSpec object is drawn as its own fields say at any depth
        fg, bg, flags = NEAR[aid][1]
        return (fg, bg, f(flags))
    if aid in (0, 2):
        return (DEFAULT, DEFAULT, f())
    if aid == 1:
        return {
            1: (DEFAULT, DEFAULT, f(["bold"])),
            16: (IDX(1), IDX(3), f()),
            88: (IDX(16 + 3 * 16), IDX(16 + 3), f()),  # 4x4x4 cube: 16 + 16r + 4g + b
            256: (IDX(16 + 5 * 36), IDX(16 + 5), f()),  # 6x6x6 cube: 16 + 36r + 6g + b
            2**24: (RGB(255, 0, 0), RGB(0, 0, 255), f()),
        }[depth]
    if aid == 3:
        return (IDX(2), IDX(5), f(["bold"]))
    if aid == 4:
        return (DEFAULT, DEFAULT if depth == 1 else IDX(4), f(["standout"]))
    if aid == 5:
        return (DEFAULT, DEFAULT, f(["strikethrough"])) if depth == 1 else (IDX(0), IDX(6), f(["strikethrough"]))
    if aid == 6:
        return (IDX(208), IDX(17), f(["underline"]))
    if aid == 7:
        return (RGB(0x10, 0x20, 0x30), RGB(0xFF, 0xEE, 0xDD), f())
    if aid == 8:
        return (DEFAULT, DEFAULT, f()) if depth == 1 else (IDX(11), DEFAULT, f(["blink"]))
    if aid == 9:
        return (DEFAULT, DEFAULT, f(["italics"]))
    raise KeyError(aid)


VISIBLE_ON_BLANK = frozenset(["underline", "strikethrough", "standout"])

# ======================================================================================================
# frames: {"size": [cols, rows], "rows": [[[ch, aid], ...], ...], "cursor": None | [x, y]}
# ch is one character (plus combining marks); a double-width character is ONE entry and takes two columns.


def ch_width(ch):
    return sum(char_width(c) for c in ch)


def encodable(ch, enc):
    if enc == "utf-8":
        return True
    if ch in DEC:
        return True
    try:
        b = ch.encode(enc)
    except UnicodeEncodeError:
        return False
    if enc == "euc-jp":
        return len(b) == ch_width(ch)  # JIS X 0208 only (urwid's own restriction for euc-jp)
    return len(b) == 1


def frame_ok_for(frame, enc):
    return all(encodable(ch, enc) for row in frame["rows"] for ch, _ in row)


def to_canvas(frame, enc):
    """TextCanvas for a frame, the way a widget would have rendered it in encoding `enc`: DEC line
    drawing characters are special-graphics runs (cs "0") outside UTF-8."""
    cols, _rows = frame["size"]
    text, attr, cs = [], [], []
    for row in frame["rows"]:
        t, a_runs, c_runs, prev_aid = b"", [], [], None
        for ch, aid in row:
            if enc != "utf-8" and ch in DEC:
                b, c = DEC[ch], "0"
            else:
                b, c = ch.encode(enc), None
            t += b
            if a_runs and prev_aid == aid:
                a_runs[-1] = (a_runs[-1][0], a_runs[-1][1] + len(b))
            else:
                a_runs.append((_canvas_attr(aid), len(b)))
            prev_aid = aid
            if c_runs and c_runs[-1][0] == c:
                c_runs[-1] = (c, c_runs[-1][1] + len(b))
            else:
                c_runs.append((c, len(b)))
        text.append(t)
        attr.append(a_runs)
        cs.append(c_runs)
    cur = tuple(frame["cursor"]) if frame["cursor"] is not None else None
    return TextCanvas(text, attr, cs, cursor=cur, maxcol=cols)


def expected_grid(frame, depth):
    grid = []
    for row in frame["rows"]:
        out = []
        for ch, aid in row:
            fg, bg, flags = rendition(aid, depth)
            c = Cell(ch, fg, bg, flags, "print")
            out.append(c)
            if ch_width(ch) == 2:
                out.append(c._replace(ch=None))
        grid.append(out)
    return grid


def cell_ok(exp, got):
    """Does terminal cell `got` show canvas cell `exp`?  (see 'Readings' in the module docstring)"""
    if got.how in ("garbage", "broken"):
        return False
    if got.how == "erase":
        return exp.ch == " " and got.bg == exp.bg and not (exp.flags & VISIBLE_ON_BLANK)
    return (got.ch, got.fg, got.bg, got.flags) == (exp.ch, exp.fg, exp.bg, exp.flags)


def cells_equiv(a, b):
    """Do two terminal cells look the same? (for incremental vs full repaint)"""
    if a.how == "garbage" or b.how == "garbage":
        return False  # unknown content is never "the same"
    if a.how == "broken" or b.how == "broken":
        return a.how == b.how  # the same damage in both (the paint clause reports it)
    if a.how == "erase" and b.how == "erase":
        return a.bg == b.bg
    if a.how == "erase" or b.how == "erase":
        e, p = (a, b) if a.how == "erase" else (b, a)
        return p.ch == " " and p.bg == e.bg and not (p.flags & VISIBLE_ON_BLANK)
    return a[:4] == b[:4]


# ======================================================================================================
# driving the real screen


class _NoTty:
    """input 'file' without a descriptor: nothing is ever read from it"""


class Scr(raw_display.Screen):
    def __init__(self, out, size):
        super().__init__(_NoTty(), out)
        self.size = tuple(size)

    def get_cols_rows(self):
        self.maxrow = self.size[1]
        return self.size


def make_screen(cfg, size):
    depth, bce, enc = cfg
    raw = io.BytesIO()
    out = io.TextIOWrapper(raw, encoding=enc, errors="strict", newline="", write_through=True)
    old_term = os.environ.get("TERM")
    os.environ["TERM"] = "xterm"
    try:
        scr = Scr(out, size)
    finally:
        if old_term is None:
            del os.environ["TERM"]
        else:
            os.environ["TERM"] = old_term
    scr.signal_handler_setter = lambda *_a: None  # never install process-wide signal handlers
    scr._signal_keys_set = True  # never look at (or change) a tty's signal keys
    scr.fg_bright_is_bold = True
    scr.set_terminal_properties(colors=depth, bright_is_bold=False, has_underline=True)
    scr.bg_bright_is_blink = False
    scr.back_color_erase = bce
    scr.register_palette(_palette())
    return scr, raw


def close_screen(scr):
    scr._resize_pipe_rd.close()
    scr._resize_pipe_wr.close()


class Session:
    """One started screen + the reference terminal fed with everything written so far."""

    def __init__(self, cfg, size):
        self.cfg = cfg
        depth, bce, enc = cfg
        self.scr, self.raw = make_screen(cfg, size)
        self.term = Terminal(size[0], size[1], encoding=enc, bce=bce)
        self.fed = 0
        self.last_canvas = None
        self.last_frame = None
        self.scr.start()
        self.pump()

    def pump(self):
        data = self.raw.getvalue()
        new = data[self.fed :]
        self.fed = len(data)
        self.last_new = new
        self.term.feed(new)
        return new

    def draw(self, frame, reuse=False):
        if reuse and self.last_frame == frame:
            canvas = self.last_canvas
        else:
            canvas = to_canvas(frame, self.cfg[2])
        self.last_canvas, self.last_frame = canvas, frame
        self.scr.draw_screen(tuple(frame["size"]), canvas)
        return self.pump()

    def clear(self):
        self.scr.clear()
        self.term.scribble()

    def resize(self, size):
        self.term.resize(size[0], size[1])
        self.scr._sigwinch_handler()
        self.scr.size = tuple(size)
        keys, _raw = self.scr.parse_input(None, None, [])
        if keys != ["window resize"]:
            raise AssertionError(f"parse_input after SIGWINCH gave {keys!r}")
        self.scr.get_cols_rows()

    def close(self):
        close_screen(self.scr)


def first_mismatch(frame, depth, snap):
    exp = expected_grid(frame, depth)
    got = snap["grid"]
    if len(got) != len(exp) or any(len(g) != len(e) for g, e in zip(got, exp)):
        return {"why": "harness: grid shape", "sig": "harness"}
    for y, (er, gr) in enumerate(zip(exp, got)):
        for x, (e, g) in enumerate(zip(er, gr)):
            if not cell_ok(e, g):
                last = y == len(exp) - 1
                if g.how in ("garbage", "broken"):
                    kind = g.how
                elif g.ch != e.ch:
                    kind = "text"
                    if g.ch is not None and e.ch is not None and (SPECIAL_GRAPHICS.get(g.ch) == e.ch or SPECIAL_GRAPHICS.get(e.ch) == g.ch):
                        kind = "wrong-character-set"
                else:
                    kind = "attr"
                    if g.how == "erase":
                        kind = "erased-blank:" + "+".join(sorted(e.flags & VISIBLE_ON_BLANK) or ["bg"])
                return {
                    "why": f"cell (x={x}, y={y}) should show {e.show()}, terminal shows {g.show()}",
                    "sig": f"{'last-row' if last else 'row'}:{kind}",
                    "screen": [row_show(r) for r in got],
                }
    return None


def row_show(row):
    out = []
    for c in row:
        if c.how == "garbage":
            out.append("?")
        elif c.how == "broken":
            out.append("#")
        elif c.ch is None:
            out.append("")
        else:
            out.append(c.ch)
    return "|".join(out)


_FULL_CACHE = {}


def full_repaint_snapshot(cfg, frame):
    key = (cfg, repr(frame))
    if key not in _FULL_CACHE:
        if len(_FULL_CACHE) > 20000:
            _FULL_CACHE.clear()
        s = Session(cfg, frame["size"])
        try:
            s.draw(frame)
            _FULL_CACHE[key] = s.term.snapshot()
        except Exception as e:  # noqa: BLE001  - the paint check reports it; here only "no reference"
            _FULL_CACHE[key] = e
        finally:
            s.close()
    return _FULL_CACHE[key]


def run_history(cfg, ops):
    """Runs one history on a fresh screen.  Returns verdicts:
    {"paint": None | {...}, "cursor": ..., "scroll": ..., "incr": ..., "bytes": [...], "draws": n}
    (None = clause held after every draw; dict = first violation)."""
    depth, _bce, _enc = cfg
    v = {"paint": None, "cursor": None, "scroll": None, "incr": None, "draws": 0, "bytes": []}
    size = ops[0]["frame"]["size"]
    s = Session(cfg, size)
    last = None
    try:
        for i, op in enumerate(ops):
            kind = op["op"]
            if kind == "clear":
                s.clear()
                continue
            if kind == "resize":
                s.resize(op["size"])
                continue
            frame = op["frame"]
            last = frame
            v["draws"] += 1
            try:
                new = s.draw(frame, op.get("reuse", False))
            except TermError as e:
                v["bytes"].append(s.last_new.decode("latin-1"))
                bad = {"why": f"terminal interpreter, draw #{i}: {e}", "sig": f"interp:{str(e)[:24]}", "step": i}
                v["scroll"] = v["scroll"] or bad
                v["paint"] = v["paint"] or bad
                return v
            except Exception as e:  # noqa: BLE001
                bad = {"why": f"draw_screen raised {type(e).__name__}: {e}", "sig": f"raised:{type(e).__name__}", "step": i}
                for k in ("paint", "cursor", "scroll") + (("incr",) if len(ops) > 1 else ()):
                    v[k] = v[k] or bad
                return v
            v["bytes"].append(new.decode("latin-1"))
            snap = s.term.snapshot()
            if v["paint"] is None:
                mm = first_mismatch(frame, depth, snap)
                if mm:
                    v["paint"] = mm | {"step": i}
            if v["cursor"] is None:
                want = tuple(frame["cursor"]) if frame["cursor"] is not None else None
                if snap["cursor"] != want:
                    v["cursor"] = {
                        "why": f"cursor should be {want if want else 'hidden'}, terminal has {snap['cursor'] if snap['cursor'] else 'hidden'}",
                        "sig": "cursor:" + ("hidden" if snap["cursor"] is None else "shown-wrong" if want else "shown"),
                        "step": i,
                    }
            if v["scroll"] is None:
                if snap["scrolled"]:
                    v["scroll"] = {"why": f"the terminal scrolled {snap['scrolled']} line(s)", "sig": "scrolled", "step": i}
                elif snap["irm"]:
                    v["scroll"] = {"why": "insert mode left on after the draw", "sig": "irm", "step": i}
                elif snap["pending_sequence"]:
                    v["scroll"] = {"why": "unfinished control sequence after the draw", "sig": "pending", "step": i}
        if last is not None and len(ops) > 1:  # a single draw IS the full repaint: nothing to compare
            ref = full_repaint_snapshot(cfg, last)
            snap = s.term.snapshot()
            if isinstance(ref, Exception):
                v["incr"] = {"why": f"full repaint raised {type(ref).__name__}: {ref}", "sig": f"raised:{type(ref).__name__}"}
            else:
                bad = None
                for y, (ra, rb) in enumerate(zip(snap["grid"], ref["grid"])):
                    for x, (a, b) in enumerate(zip(ra, rb)):
                        if not cells_equiv(a, b):
                            bad = f"cell (x={x}, y={y}): history leaves {a.show()}, full repaint gives {b.show()}"
                            break
                    if bad:
                        break
                if not bad and snap["cursor"] != ref["cursor"]:
                    bad = f"cursor: history leaves {snap['cursor']}, full repaint gives {ref['cursor']}"
                if not bad and (snap["irm"], snap["scrolled"]) != (ref["irm"], ref["scrolled"]):
                    bad = f"modes: history (irm, scrolled)={(snap['irm'], snap['scrolled'])}, full repaint {(ref['irm'], ref['scrolled'])}"
                if bad:
                    v["incr"] = {"why": bad, "sig": "incr:" + bad.split(":")[0].split(" ")[0], "screen": [row_show(r) for r in snap["grid"]], "full": [row_show(r) for r in ref["grid"]]}
    finally:
        s.close()
    return v


# ======================================================================================================
# check collector that keeps a few failures PER KIND (so one defect does not hide another)


class KCheck(Check):
    PER_KIND = 4

    def __init__(self, *a, **k):
        super().__init__(*a, **k)
        self.kinds = {}
        self.failed = 0

    def case(self, key, ok, detail=None, nontrivial=True, sample=None, sig=None):
        self.evaluations += 1
        if nontrivial:
            self.nontrivial.add(key)
        if len(self.samples) < 3 and sample is not None:
            self.samples.append(sample)
        if not ok:
            self.failed += 1
            n = self.kinds.get(sig, 0)
            self.kinds[sig] = n + 1
            if n < self.PER_KIND and len(self.failures) < 40:
                self.failures.append(detail if detail is not None else {"case": repr(key)})

    def result(self):
        r = super().result()
        r["failed_cases"] = self.failed
        r["failure_kinds"] = dict(sorted(self.kinds.items(), key=lambda kv: -kv[1]))
        return r


# ======================================================================================================
# generators

ASCII = ["a", "q", "A", "x"]
WIDE = ["中", "文"]
LINE = ["─", "│"]
ACC = ["é"]
COMB = ["e\u0301"]


def cfg_name(cfg):
    return {"depth": cfg[0], "back_color_erase": cfg[1], "encoding": cfg[2]}


def hist_json(ops):
    return ops


def all_rows(cols, alphabet):
    """every row of width `cols` over `alphabet` = list of (ch, aid)"""
    if cols == 0:
        yield []
        return
    for ch, aid in alphabet:
        w = ch_width(ch)
        if w <= cols:
            for rest in all_rows(cols - w, alphabet):
                yield [[ch, aid], *rest]


def cursors(cols, rows, how):
    if how == "none":
        return [None]
    if how == "corners":
        return [None, [0, 0], [cols - 1, rows - 1]]
    return [None] + [[x, y] for y in range(rows) for x in range(cols)]


def _aid(r, aids):
    """an attribute id: from the ten standard ones (aids None; the stream the families A-D were built on) or from `aids`"""
    return r.randrange(N_ATTRS) if aids is None else r.choice(aids)


def random_row(r, cols, enc, blank_p=0.15, trail_p=0.35, aids=None):
    if r.random() < blank_p:
        return [[" ", r.choice([0, 0, 1, 4, 5, 2] if aids is None else aids)] for _ in range(cols)]
    pools = [(ASCII, 5), ([" "], 3), (LINE, 2)]
    if encodable("é", enc):
        pools.append((ACC, 1))
    if encodable("中", enc):
        pools.append((WIDE, 3))
    if enc == "utf-8":
        pools.append((COMB, 1))
    weighted = [p for p, w in pools for _ in range(w)]
    trail = r.randint(1, cols) if r.random() < trail_p else 0
    row, used = [], 0
    aid = _aid(r, aids)
    while used < cols - trail:
        if r.random() < 0.4:
            aid = _aid(r, aids)
        ch = r.choice(r.choice(weighted))
        if used + ch_width(ch) > cols - trail:
            ch = r.choice(ASCII)
        row.append([ch, aid])
        used += ch_width(ch)
    if trail:
        if r.random() < 0.6:
            aid = _aid(r, aids)
        row += [[" ", aid] for _ in range(cols - used)]
    return row


def random_frame(r, size, enc, cursor_p=0.5, aids=None):
    cols, rows = size
    f = {"size": [cols, rows], "rows": [random_row(r, cols, enc, aids=aids) for _ in range(rows)], "cursor": None}
    if r.random() < cursor_p:
        f["cursor"] = [r.randrange(cols), r.randrange(rows)]
    return f


def mutate_frame(r, frame, enc, aids=None):
    cols, rows = frame["size"]
    f = {"size": [cols, rows], "rows": [[list(c) for c in row] for row in frame["rows"]], "cursor": frame["cursor"]}
    what = r.randrange(5)
    if what == 0:  # cursor only
        f["cursor"] = None if (frame["cursor"] is not None and r.random() < 0.4) else [r.randrange(cols), r.randrange(rows)]
    elif what == 1:  # one row replaced
        f["rows"][r.randrange(rows)] = random_row(r, cols, enc, aids=aids)
    elif what == 2:  # one cell's attribute
        row = f["rows"][r.randrange(rows)]
        row[r.randrange(len(row))][1] = _aid(r, aids)
    elif what == 3:  # one cell's text (same width)
        row = f["rows"][r.randrange(rows)]
        i = r.randrange(len(row))
        w = ch_width(row[i][0])
        cands = [c for c in ASCII + [" "] + LINE + WIDE + ACC if ch_width(c) == w and encodable(c, enc)]
        row[i][0] = r.choice(cands)
    else:  # rows rotated (scrolling content)
        f["rows"] = f["rows"][1:] + f["rows"][:1]
    return f


def random_history(r, enc, max_size=(6, 3), max_draws=3, aids=None):
    size = (r.randint(1, max_size[0]), r.randint(1, max_size[1]))
    ops = []
    frame = None
    n = r.randint(1, max_draws)
    for i in range(n):
        if i:
            k = r.random()
            if k < 0.2:
                ops.append({"op": "clear"})
            elif k < 0.4:
                size = (r.randint(1, max_size[0]), r.randint(1, max_size[1]))
                ops.append({"op": "resize", "size": list(size)})
                frame = None
        if frame is not None and r.random() < 0.7:
            frame = mutate_frame(r, frame, enc, aids=aids)
        elif frame is not None and r.random() < 0.15:
            ops.append({"op": "draw", "frame": frame, "reuse": True})
            continue
        else:
            frame = random_frame(r, size, enc, aids=aids)
        ops.append({"op": "draw", "frame": frame})
    return ops


def gen_histories(tier, seed):
    """yield (family, cfg, ops)"""
    quick = tier == "quick"
    r = rng(seed)
    encs = ("utf-8", "iso8859-1", "euc-jp")
    all_cfgs = [(d, b, e) for e in encs for d in DEPTHS for b in (True, False)]

    # A. every single frame on tiny screens over a small alphabet, every cursor position
    alpha = [("a", 0), (" ", 0), (" ", 1), ("q", 3), ("─", 1), ("中", 0), ("é", 5)]
    tiny = [(1, 1), (2, 1), (3, 1), (1, 2), (2, 2)] + ([] if quick else [(4, 1), (3, 2)])
    for cfg in [(16, True, "utf-8"), (256, False, "utf-8"), (16, True, "iso8859-1"), (1, False, "iso8859-1"), (88, True, "euc-jp")]:
        enc = cfg[2]
        al = [[ch, aid] for ch, aid in alpha if encodable(ch, enc)]
        for cols, rows in tiny:
            rws = list(all_rows(cols, al))
            if len(rws) ** rows > (400 if quick else 3000):
                combos = [tuple(r.choice(rws) for _ in range(rows)) for _ in range(400 if quick else 3000)]
            else:
                combos = itertools.product(rws, repeat=rows)
            for combo in combos:
                for cur in cursors(cols, rows, "corners" if quick else "all"):
                    yield "A-single-frame-tiny", cfg, [{"op": "draw", "frame": {"size": [cols, rows], "rows": [list(map(list, x)) for x in combo], "cursor": cur}}]

    # B. the last two characters of the bottom row: every (class, attribute) pair, 1..3 rows, widths 2..6
    ends = [("a", 0), ("q", 1), (" ", 0), (" ", 5), (" ", 4), ("─", 0), ("│", 6), ("中", 0), ("文", 3), ("é", 0), ("é", 0)]
    for enc in encs:
        e_ok = [e for e in ends if encodable(e[0], enc)]
        cfgs = [c for c in all_cfgs if c[2] == enc]
        for y_, z_ in itertools.product(e_ok, repeat=2):
            for cols in (2, 3, 4, 6) if quick else (2, 3, 4, 5, 6):
                w = ch_width(y_[0]) + ch_width(z_[0])
                if w > cols:
                    continue
                for rows in (1, 3) if quick else (1, 2, 3):
                    cfg = r.choice(cfgs)
                    prefix = random_row(r, cols - w, enc, blank_p=0, trail_p=0) if cols > w else []
                    last = [*prefix, list(y_), list(z_)]
                    above = [random_row(r, cols, enc) for _ in range(rows - 1)]
                    f = {"size": [cols, rows], "rows": [*above, last], "cursor": r.choice([None, [cols - 1, rows - 1], [0, 0]])}
                    yield "B-bottom-right", cfg, [{"op": "draw", "frame": f}]
                    # and as the second frame of an incremental redraw
                    f0 = random_frame(r, (cols, rows), enc)
                    yield "B-bottom-right", cfg, [{"op": "draw", "frame": f0}, {"op": "draw", "frame": f}]

    # C. every ordered pair (and the interleavings with clear / same-size resize) of frames built from a row library
    lib_u = [
        [["a", 0], ["b", 0], [" ", 0]],
        [["a", 0], ["b", 1], [" ", 1]],
        [[" ", 0], [" ", 0], [" ", 0]],
        [[" ", 1], [" ", 1], [" ", 1]],
        [["中", 0], ["q", 3]],
        [["q", 0], ["─", 0], ["q", 0]],
        [["a", 4], [" ", 4], [" ", 4]],
        [["é", 2], [" ", 0], ["x", 8]],
    ]
    for cfg in [(16, True, "utf-8"), (256, False, "utf-8"), (2**24, True, "iso8859-1"), (1, True, "euc-jp")]:
        enc = cfg[2]
        lib = [row for row in lib_u if all(encodable(ch, enc) for ch, _ in row)]
        frames = [{"size": [3, 2], "rows": [a, b], "cursor": None} for a in lib for b in lib]
        if quick:
            frames = r.sample(frames, 14)
        for f1, f2 in itertools.product(frames, repeat=2):
            c2 = dict(f2, cursor=r.choice([None, [1, 1], [2, 0]]))
            mid = r.choice([[], [], [{"op": "clear"}], [{"op": "resize", "size": [3, 2]}]])
            yield "C-frame-pairs", cfg, [{"op": "draw", "frame": f1}, *mid, {"op": "draw", "frame": c2}]

    # E. near-equal AttrSpec objects (NEAR): every ordered pair (p, q) of them, at every colour depth, as
    #    "redrawn": the same text drawn with p, then with q (the row must not be skipped as unchanged)
    #    "one-cell": a row drawn with p, then its middle cell alone changes to q
    #    "adjacent": p and q on adjacent runs of both rows (bottom row: through the insert-mode trick), then swapped
    def near_history(kind, p, q):
        size = [3, 2]
        if kind == "redrawn":
            f1 = {"size": size, "rows": [[["a", p], ["b", p], [" ", p]], [["c", 0], ["d", 0], [" ", 0]]], "cursor": None}
            f2 = {"size": size, "rows": [[["a", q], ["b", q], [" ", q]], [["c", 0], ["d", 0], [" ", 0]]], "cursor": None}
        elif kind == "one-cell":
            f1 = {"size": size, "rows": [[["a", p], ["b", p], ["c", p]], [["d", p], [" ", p], [" ", p]]], "cursor": None}
            f2 = {"size": size, "rows": [[["a", p], ["b", q], ["c", p]], [["d", p], [" ", q], [" ", p]]], "cursor": None}
        else:
            f1 = {"size": size, "rows": [[["a", p], ["b", q], [" ", q]], [["c", q], ["d", p], ["e", q]]], "cursor": None}
            f2 = {"size": size, "rows": [[["a", q], ["b", p], [" ", p]], [["c", p], ["d", q], ["e", p]]], "cursor": None}
        return [{"op": "draw", "frame": f1}, {"op": "draw", "frame": f2}]

    e_cfgs = [(d, b, "utf-8") for d in DEPTHS for b in (True, False)]
    k = 0
    for p in NEAR_IDS:
        for q in NEAR_IDS:
            if p == q:
                continue
            for kind in ("redrawn", "one-cell", "adjacent") if p < q else ("redrawn", "one-cell"):  # "adjacent" swaps p and q itself
                for d_i, depth in enumerate(DEPTHS):
                    k += 1
                    for bce in ((True, False) if not quick else ((k + d_i) % 2 == 0,)):
                        yield "E-near-equal-attributes", (depth, bce, "utf-8"), near_history(kind, p, q)
                if not quick:
                    yield "E-near-equal-attributes", (2**24, True, "iso8859-1"), near_history(kind, p, q)

    # F. seeded random histories whose attributes all come from the near-equal set
    rf = rng(seed + 2)
    for i in range(1200 if quick else 12000):
        cfg = e_cfgs[i % len(e_cfgs)]
        yield "F-random-near-equal", cfg, random_history(rf, cfg[2], max_size=(4, 3), aids=list(NEAR_IDS))

    # D. seeded random histories up to 6x3, <= 3 draws, all configurations in turn
    n = 6000 if quick else 60000
    for i in range(n):
        cfg = all_cfgs[i % len(all_cfgs)]
        yield "D-random-histories", cfg, random_history(r, cfg[2])


# ======================================================================================================
# control characters (separate clause: the cell of the control character itself is not judged)

CONTROLS = ["\x00", "\x07", "\x08", "\n", "\r", "\x0e", "\x1b", "\x7f", "\x85", "\x9b"]


def control_class(ctl):
    o = ord(ctl)
    return "C0" if o < 0x20 else "DEL" if o == 0x7F else "C1"


def run_control_case(cfg, ctl, cols, pos, rows):
    """A canvas whose bottom/top row contains one control character at `pos`, padded to the width urwid
    itself assigns.  Oracle: nothing but that cell may differ from the canvas."""
    depth, _bce, enc = cfg
    try:
        b = ctl.encode(enc)
    except UnicodeEncodeError:
        return None
    w = urwid.str_util.calc_width(b, 0, len(b))
    body = ["a"] * pos + [ctl] + ["b"] * (cols - pos - w)
    if pos + w > cols:
        return None
    text = "".join(body).encode(enc)
    other = b"c" * cols
    s = Session(cfg, (cols, rows))
    try:
        canvas = TextCanvas([text] + [other] * (rows - 1), maxcol=cols)
        try:
            s.scr.draw_screen((cols, rows), canvas)
            s.pump()
        except TermError as e:
            return {"why": f"a control function reached the terminal: {e}", "sig": f"{ctl!r}:interp", "bytes": repr(s.last_new)}
        except Exception as e:  # noqa: BLE001
            return {"why": f"draw_screen raised {type(e).__name__}: {e}", "sig": f"{ctl!r}:raised"}
        snap = s.term.snapshot()
        if snap["scrolled"]:
            return {"why": "the terminal scrolled", "sig": f"{ctl!r}:scrolled"}
        want = [["a"] * pos + [None] * w + ["b"] * (cols - pos - w)] + [["c"] * cols] * (rows - 1)
        for y, (wr, gr) in enumerate(zip(want, snap["grid"])):
            for x, (wc, g) in enumerate(zip(wr, gr)):
                if wc is None:
                    continue
                if g.how in ("garbage", "broken") or g.ch != wc:
                    return {"why": f"cell (x={x}, y={y}) should show {wc!r}, terminal shows {g.show()}", "sig": f"{ctl!r}:shifted", "screen": [row_show(r) for r in snap["grid"]]}
        return {}
    finally:
        s.close()


# ======================================================================================================
# HTML back end


class _Frag(html.parser.HTMLParser):
    def __init__(self):
        super().__init__(convert_charrefs=True)
        self.chars = []  # (character, style of the enclosing span or None)
        self.stack = []
        self.tags = []

    def handle_starttag(self, tag, attrs):
        self.tags.append(tag)
        self.stack.append(dict(attrs).get("style") if tag == "span" else None)

    def handle_endtag(self, tag):
        if self.stack:
            self.stack.pop()

    def handle_data(self, data):
        style = next((s for s in reversed(self.stack) if s is not None), None)
        for c in data:
            self.chars.append((c, style))


def html_draw(frame, enc, colors):
    old = html_fragment.HtmlGenerator.fragments
    html_fragment.HtmlGenerator.fragments = []
    try:
        g = html_fragment.HtmlGenerator()
        g.set_terminal_properties(colors=colors)
        g.register_palette(_palette())
        g.draw_screen(tuple(frame["size"]), to_canvas(frame, enc))
        frags = html_fragment.HtmlGenerator.fragments
        if len(frags) != 1:
            raise AssertionError(f"{len(frags)} fragments appended by one draw_screen")
        return frags[0]
    finally:
        html_fragment.HtmlGenerator.fragments = old


def frame_text_rows(frame, enc):
    """the canvas text, row by row, as characters (DEC runs outside UTF-8 literally: see module docstring)"""
    out = []
    for row in frame["rows"]:
        out.append("".join(DEC[ch].decode() if (enc != "utf-8" and ch in DEC) else ch for ch, _ in row))
    return out


def judge_html(frame, enc, colors):
    """returns (text_verdict, cursor_verdict): None = held"""
    try:
        frag = html_draw(frame, enc, colors)
    except Exception as e:  # noqa: BLE001
        bad = {"why": f"draw_screen raised {type(e).__name__}: {e!r}", "sig": f"raised:{e!r}"}
        return bad, bad
    tv = cv = None
    if not (frag.startswith("<pre>") and frag.endswith("</pre>")):
        tv = {"why": "fragment is not one <pre> element", "sig": "shape", "fragment": frag}
    p = _Frag()
    p.feed(frag)
    p.close()
    got_rows = "".join(c for c, _ in p.chars).split("\n")
    want_rows = frame_text_rows(frame, enc)
    if tv is None and (got_rows[-1] != "" or got_rows[:-1] != want_rows):
        tv = {"why": f"fragment text rows {got_rows[:-1]!r} (+ tail {got_rows[-1]!r}), canvas rows {want_rows!r}", "sig": "text", "fragment": frag}
    if tv is None and set(p.tags) - {"pre", "span"}:
        tv = {"why": f"unexpected elements {sorted(set(p.tags) - {'pre', 'span'})}", "sig": "tags", "fragment": frag}
    # independent escape test: outside tags no raw '<' '>' and every '&' starts a character reference
    if tv is None:
        esc_rows = [html.escape(t, quote=False) for t in want_rows]
        import re

        raw_text = re.sub(r"<[^<>]*>", "", frag)
        norm = raw_text.replace("&quot;", '"').replace("&#x27;", "'").replace("&#39;", "'")
        if norm != "".join(t + "\n" for t in esc_rows):
            tv = {"why": f"escaped text {raw_text!r} is not the HTML-escaped canvas text", "sig": "escape", "fragment": frag}
    # cursor
    if frame["cursor"] is not None:
        try:
            base = html_draw(dict(frame, cursor=None), enc, colors)
        except Exception as e:  # noqa: BLE001
            return tv, {"why": f"draw_screen (no cursor) raised {type(e).__name__}: {e!r}", "sig": f"raised:{type(e).__name__}"}
        q = _Frag()
        q.feed(base)
        q.close()
        if len(q.chars) != len(p.chars):
            cv = {"why": "text with and without cursor differs", "sig": "cursor-text", "fragment": frag}
        else:
            diff = [i for i, (a, b) in enumerate(zip(p.chars, q.chars)) if a != b]
            cx, cy = frame["cursor"]
            # index of the character under the cursor in the flat character list
            idx = sum(len(t) + 1 for t in want_rows[:cy])
            col = 0
            under = None
            for ch, _aid in frame["rows"][cy]:
                w = ch_width(ch)
                if col <= cx < col + w:
                    under = (idx, idx + len(ch))
                    break
                col += w
                idx += len(ch)
            if len({i for i in diff}) and not all(under[0] <= i < under[1] for i in diff):
                cv = {"why": f"characters {diff} are highlighted, the cursor is on characters {under}", "sig": "cursor-wrong-cell", "fragment": frag}
            elif not diff:
                fgbg = p.chars[under[0]][1]
                cv = {"why": f"no character is highlighted (style under the cursor: {fgbg})", "sig": "cursor-none", "fragment": frag, "soft": True}
    else:
        # without a cursor: equal attributes => equal styles
        styles = {}
        flat = [(ch, aid) for row in frame["rows"] for ch, aid in row]
        it = iter(p.chars)
        for row in frame["rows"]:
            for ch, aid in row:
                for _ in ch:
                    c = next(it, None)
                    if c is None:
                        break
                    styles.setdefault(aid, set()).add(c[1])
            next(it, None)  # newline
        if any(len(s) > 1 for s in styles.values()) and flat:
            cv = {"why": f"one attribute drawn with several styles and no cursor: { {k: sorted(map(str, s)) for k, s in styles.items() if len(s) > 1} }", "sig": "highlight-without-cursor", "fragment": frag}
    return tv, cv


def gen_html(tier, seed):
    quick = tier == "quick"
    r = rng(seed + 1)
    alpha = [("a", 0), (" ", 1), ("<", 0), ("&", 3), (">", 1), ('"', 0), ("'", 5), ("中", 0), ("é", 6), ("─", 1), ("q", 2)]
    for enc, colors in [("utf-8", 16), ("iso8859-1", 256), ("utf-8", 1), ("euc-jp", 88), ("utf-8", 2**24)]:
        al = [[ch, aid] for ch, aid in alpha if encodable(ch, enc)]
        for cols, rows in [(1, 1), (2, 1), (3, 1), (2, 2)]:
            rws = list(all_rows(cols, al))
            cap = 150 if quick else 3000
            if len(rws) ** rows > cap:
                combos = [tuple(r.choice(rws) for _ in range(rows)) for _ in range(cap)]
            else:
                combos = list(itertools.product(rws, repeat=rows))
            for combo in combos:
                for cur in cursors(cols, rows, "all"):
                    yield enc, colors, {"size": [cols, rows], "rows": [list(map(list, x)) for x in combo], "cursor": cur}
        for _ in range(300 if quick else 6000):
            size = (r.randint(1, 6), r.randint(1, 3))
            f = random_frame(r, size, enc)
            for row in f["rows"]:
                for c in row:
                    if c[0] in ASCII and r.random() < 0.3:
                        c[0] = r.choice("<>&\"'")
            yield enc, colors, f


# ======================================================================================================


def _with_encoding(enc, fn):
    old = get_encoding()
    try:
        set_encoding(enc)
        CanvasCache.clear()
        return fn()
    finally:
        set_encoding(old)
        CanvasCache.clear()


def run(tier="quick", seed=0):
    t0 = time.time()
    bound = (
        "histories of <= 3 draws on screens <= 6x3 interleaved with clear() and resize; text: ASCII (incl. DEC-range letters), "
        "blanks, accented, double-width, DEC line drawing, combining; 10 attributes (None, undefined name, 4 palette names, "
        "4 AttrSpec); depths 1/16/88/256/2**24 x back_color_erase on/off x utf-8/iso8859-1/euc-jp; "
        f"{len(NEAR)} near-equal AttrSpec objects (default vs colour 0 / 1 as basic, high and true colour, fg and bg, one style as the only "
        "difference, default at every declared depth): every ordered pair as redrawn text, as a one-cell change and as adjacent runs "
        "on 3x2 at every depth, and in random histories <= 4x3"
    )
    paint = KCheck("C04/paint-every-cell", "after every draw the interpreted screen shows the text and attributes of the last canvas in every cell", False, bound)
    cursor = KCheck("C04/cursor", "cursor visible at the canvas cursor, hidden when the canvas has none, after every draw", False, bound)
    scroll = KCheck("C04/never-scrolls", "never scrolled; insert mode off and no unfinished/unknown sequence after a draw", False, bound)
    incr = KCheck("C04/incremental-equals-full-repaint", "terminal state after the history == state after one full repaint of the last canvas", False, bound)
    # triage: one check per class of control character (C0 / DEL / C1).  The three classes fail for
    # three different reasons (see the known findings) and the runner credits at most one known finding
    # per check name, so a single check could not report them separately.  Same cases, same oracle.
    ctl = {
        k: KCheck(f"C04/control-characters/{k}", f"a {k} control character in the canvas text never reaches the terminal as a control function; all other cells exact", True, f"{n} control characters x position x widths 2..4 x rows 1..2 x 3 encodings")
        for k, n in (("C0", 7), ("DEL", 1), ("C1", 2))
    }
    htext = KCheck("C04/html-text", "HtmlGenerator fragment parsed as HTML == canvas text row by row, escaped", False, "frames <= 6x3, HTML-special characters, 5 (encoding, depth) configurations")
    hcur = KCheck("C04/html-cursor", "at most one highlighted character and it is under the cursor; none without a cursor", False, htext.bound)

    old_enc = get_encoding()
    families = {}
    try:
        cur_enc = None
        for fam, cfg, ops in gen_histories(tier, seed):
            if not all(frame_ok_for(op["frame"], cfg[2]) for op in ops if op["op"] == "draw"):
                continue
            if cfg[2] != cur_enc:
                set_encoding(cfg[2])
                CanvasCache.clear()
                cur_enc = cfg[2]
            v = run_history(cfg, ops)
            families[fam] = families.get(fam, 0) + 1
            key = (cfg, repr(ops))
            sample = {"config": cfg_name(cfg), "ops": ops}
            ndraw = sum(1 for op in ops if op["op"] == "draw")
            for chk, name in ((paint, "paint"), (cursor, "cursor"), (scroll, "scroll"), (incr, "incr")):
                bad = v[name]
                detail = None
                if bad:
                    detail = {"config": cfg_name(cfg), "ops": ops, "family": fam, "bytes_per_draw": v["bytes"]} | {k: x for k, x in bad.items() if k != "sig"}
                nontrivial = len(ops) > 1 or name != "incr"
                chk.case(key, not bad, detail, nontrivial=nontrivial, sample=sample, sig=bad["sig"] if bad else None)

        # control characters
        for enc in ("utf-8", "iso8859-1", "euc-jp"):
            set_encoding(enc)
            CanvasCache.clear()
            cfg = (16, True, enc)
            for c in CONTROLS:
                for cols in (2, 3, 4):
                    for rows in (1, 2):
                        for pos in range(cols):
                            bad = run_control_case(cfg, c, cols, pos, rows)
                            if bad is None:
                                continue
                            # triage: flat fields that tell the defect classes apart for known-finding
                            # matching (class of the control, urwid's own column count for it, the
                            # encoding, and what went wrong: shifted / interp / scrolled / raised); the
                            # failures kept are grouped by (class, kind, encoding) so that a handful of
                            # controls of one class cannot use up the collector's room.
                            kind = bad["sig"].split(":")[-1] if bad else None
                            det = {
                                "config": cfg_name(cfg),
                                "control": repr(c),
                                "cols": cols,
                                "rows": rows,
                                "pos": pos,
                                "encoding": enc,
                                "control_class": control_class(c),
                                "width": urwid.str_util.calc_width(c.encode(enc), 0, len(c.encode(enc))),
                                "kind": kind,
                            } | {k: x for k, x in bad.items() if k != "sig"}
                            ctl[control_class(c)].case((enc, c, cols, rows, pos), not bad, det, sample={"control": repr(c), "cols": cols, "pos": pos}, sig=f"{control_class(c)}:{kind}:{enc}" if bad else None)

        # HTML
        cur_enc = None
        for enc, colors, frame in gen_html(tier, seed):
            if not frame_ok_for(frame, enc):
                continue
            if enc != cur_enc:
                set_encoding(enc)
                CanvasCache.clear()
                cur_enc = enc
            tv, cv = judge_html(frame, enc, colors)
            key = (enc, colors, repr(frame))
            base = {"encoding": enc, "colors": colors, "frame": frame}
            htext.case(key, not tv, (base | {k: x for k, x in tv.items() if k != "sig"}) if tv else None, sample=base, sig=tv["sig"] if tv else None)
            soft = bool(cv and cv.get("soft"))
            hcur.case(key, not cv or soft, (base | {k: x for k, x in cv.items() if k != "sig"}) if cv else None, nontrivial=frame["cursor"] is not None and not soft, sample=base, sig=cv["sig"] if cv and not soft else None)
    finally:
        set_encoding(old_enc)
        CanvasCache.clear()
        _FULL_CACHE.clear()
    checks = [c.result() for c in (paint, cursor, scroll, incr, *ctl.values(), htext, hcur)]
    return {"checks": checks, "bound": bound, "families": families, "wall_s": round(time.time() - t0, 1)}


def replay(check_name, case):
    if check_name in ("C04/html-text", "C04/html-cursor"):
        enc = case["encoding"]
        tv, cv = _with_encoding(enc, lambda: judge_html(case["frame"], enc, case["colors"]))
        bad = tv if check_name.endswith("text") else (cv if cv and not cv.get("soft") else None)
        return {"outcome": "confirmed" if bad else "not-reproduced", "detail": bad or {}}
    c = case["config"]
    cfg = (c["depth"], c["back_color_erase"], c["encoding"])
    if check_name.startswith("C04/control-characters"):
        import ast

        bad = _with_encoding(cfg[2], lambda: run_control_case(cfg, ast.literal_eval(case["control"]), case["cols"], case["pos"], case["rows"]))
        return {"outcome": "confirmed" if bad else "not-reproduced", "detail": bad or {}}
    name = {"C04/paint-every-cell": "paint", "C04/cursor": "cursor", "C04/never-scrolls": "scroll", "C04/incremental-equals-full-repaint": "incr"}[check_name]
    _FULL_CACHE.clear()
    v = _with_encoding(cfg[2], lambda: run_history(cfg, case["ops"]))
    bad = v[name]
    return {"outcome": "confirmed" if bad else "not-reproduced", "detail": (bad or {}) | {"bytes_per_draw": v["bytes"]}}
