"""C19 bounded stand-in: "containers partition the available space exactly and proportionally".

The real Columns / Pile / Padding / Filler / Overlay / GridFlow code is run with small stub children
(urwid.Widget subclasses with chosen sizing / rows / pack that log every size they are handed and paint
themselves with one letter) over exhaustively enumerated small option lists and sizes, plus seeded
random configurations beyond the exhaustive bounds.  Every result is judged by the plain-Python
reference in spec/c19_ref.py, which is written from the property statement and never calls urwid.

Checks (one per clause of the statement, so that a known finding can be listed precisely):
  C19/int-scale, C19/calc-left-right, C19/calc-top-bottom      the arithmetic helpers
  C19/columns-widths          clauses (a)-(e): ints >= 0, own size or nothing, focus kept, never exceed, exact fill
  C19/columns-proportional    clause (f): weighted columns share what remains proportionally to within one column
  C19/columns-children        get_column_sizes()/render(): what the children are handed and where they land
  C19/pile-rows               box Pile: ints >= 0, own rows, weighted rows fill the remainder exactly
  C19/pile-proportional       the Pile analogue of (f)
  C19/pile-fits-available     literal "the same way": rows never exceed the available rows, focus item stays visible
  C19/pile-children           get_rows_sizes()/render(): what the children are handed and where they land
  C19/pile-packed-fixed-child a ('pack', FIXED-only widget) item in a box Pile
  C19/zero-amounts            zero weights / zero given sizes (outside the statement, in the quantifier): weaker demands  [INFORMATIONAL]
  C19/padding-values, C19/filler-values, C19/overlay-values, C19/overlay-render   the decoration widgets through their public methods + render
  C19/padding-pack-min-width  Padding(width='pack', min_width=m): documented minimum honoured  [INFORMATIONAL: a reading, see below]
  C19/gridflow-layout         every cell at the configured cell width, reading order
"""
from __future__ import annotations

import itertools
import multiprocessing
import os
import time
import warnings
from fractions import Fraction

import urwid
from urwid import Sizing
from urwid.canvas import CanvasCache, SolidCanvas

from bounded.common import rng
from spec import c19_ref as ref

# ------------------------------------------------------------------------------------------------
# stub children
# ------------------------------------------------------------------------------------------------
LOG: list = []  # (op, letter, size) for every call a stub receives
NEG: list = []  # every negative / non-int dimension a stub was handed


class NegativeSize(Exception):
    pass


def _seen(op, ch, size):
    LOG.append((op, ch, tuple(size)))
    for x in size:
        if type(x) is not int or x < 0:
            NEG.append((op, ch, tuple(size)))
            raise NegativeSize(f"child {ch!r} handed {op}{tuple(size)!r}")


class Box(urwid.Widget):
    _sizing = frozenset([Sizing.BOX])
    no_cache = ["render", "rows"]

    def __init__(self, ch):
        super().__init__()
        self.ch = ch

    def render(self, size, focus=False):
        _seen("render", self.ch, size)
        c, r = size
        return SolidCanvas(self.ch, c, r)


class Flow(urwid.Widget):
    """rows: constant `rows`, or ceil(area / width) when `area` is given (so a wrong width shows);
    pack((c,)) narrows to `pref` columns when given."""

    _sizing = frozenset([Sizing.FLOW])
    no_cache = ["render", "rows"]

    def __init__(self, ch, rows=1, area=None, pref=None):
        super().__init__()
        self.ch, self.nrows, self.area, self.pref = ch, rows, area, pref

    def rows_at(self, c):
        if self.area is None:
            return self.nrows
        return max(1, -(-self.area // max(c, 1)))

    def rows(self, size, focus=False):
        _seen("rows", self.ch, size)
        return self.rows_at(size[0])

    def pack(self, size=(), focus=False):
        _seen("pack", self.ch, size)
        c = size[0]
        if self.pref is not None:
            c = min(c, self.pref)
        return (c, self.rows_at(c))

    def render(self, size, focus=False):
        _seen("render", self.ch, size)
        return SolidCanvas(self.ch, size[0], self.rows_at(size[0]))


class Fixed(urwid.Widget):
    _sizing = frozenset([Sizing.FIXED])
    no_cache = ["render", "rows"]

    def __init__(self, ch, c, r):
        super().__init__()
        self.ch, self.c, self.r = ch, c, r

    def pack(self, size=(), focus=False):
        _seen("pack", self.ch, size)
        return (self.c, self.r)

    def render(self, size, focus=False):
        _seen("render", self.ch, size)
        return SolidCanvas(self.ch, self.c, self.r)


class FixedFlow(urwid.Widget):
    """Supports FIXED (pref x rows) and FLOW (any width, constant rows; packs to min(width, pref))."""

    _sizing = frozenset([Sizing.FIXED, Sizing.FLOW])
    no_cache = ["render", "rows"]

    def __init__(self, ch, pref, rows=1):
        super().__init__()
        self.ch, self.pref, self.nrows = ch, pref, rows

    def rows(self, size, focus=False):
        _seen("rows", self.ch, size)
        return self.nrows

    def pack(self, size=(), focus=False):
        _seen("pack", self.ch, size)
        if not size:
            return (self.pref, self.nrows)
        return (min(size[0], self.pref), self.nrows)

    def render(self, size, focus=False):
        _seen("render", self.ch, size)
        return SolidCanvas(self.ch, size[0] if size else self.pref, self.nrows)


LETTERS = "abcdefghijklmnopqrstuvwxyz"


def canvas_rows(canv):
    return [t.decode("ascii", "replace") for t in canv.text]


def find_box(rows, ch):
    """Bounding box (x, y, w, h, solid) of letter ch in the decoded canvas, or None."""
    ys = [y for y, line in enumerate(rows) if ch in line]
    if not ys:
        return None
    x0 = min(line.index(ch) for line in rows if ch in line)
    x1 = max(line.rindex(ch) for line in rows if ch in line)
    y0, y1 = ys[0], ys[-1]
    solid = all(rows[y][x0 : x1 + 1] == ch * (x1 - x0 + 1) for y in range(y0, y1 + 1))
    return (x0, y0, x1 - x0 + 1, y1 - y0 + 1, solid)


# ------------------------------------------------------------------------------------------------
# mergeable collector (same result() shape as bounded.common.Check; keys are distinct by construction
# because every configuration is enumerated exactly once, so counts replace the key set)
# ------------------------------------------------------------------------------------------------
class Tally:
    KEEP = 20

    def __init__(self):
        self.evaluations = 0
        self.nontrivial = 0
        self.failure_count = 0
        self.failures = []  # (rank, detail): the KEEP smallest by rank
        self.samples = []

    def case(self, ok, detail=None, nontrivial=True, sample=None, rank=()):
        self.evaluations += 1
        if nontrivial:
            self.nontrivial += 1
        if sample is not None and len(self.samples) < 3:
            self.samples.append(sample)
        if not ok:
            self.failure_count += 1
            self.failures.append((tuple(rank), self.failure_count, detail() if callable(detail) else detail))
            if len(self.failures) > 4 * self.KEEP:
                self._trim()

    def _trim(self):
        self.failures.sort(key=lambda t: (t[0], t[1]))
        del self.failures[self.KEEP :]

    def merge(self, other):
        self.evaluations += other.evaluations
        self.nontrivial += other.nontrivial
        base = self.failure_count
        self.failure_count += other.failure_count
        self.failures.extend((r, base + k, d) for r, k, d in other.failures)
        self._trim()
        for s in other.samples:
            if len(self.samples) < 3:
                self.samples.append(s)


def _result(name, rule, exhaustive, bound, tally, wall):
    tally._trim()
    return {
        "name": name,
        "rule": rule,
        "bound": bound,
        "exhaustive": exhaustive,
        "evaluations": tally.evaluations,
        "distinct_nontrivial": tally.nontrivial,
        "failures": [d for _r, _k, d in tally.failures],
        "failure_count": tally.failure_count,
        "samples": tally.samples,
        "wall_s": round(wall, 2),
    }


def _raised(e):
    return [("raised", f"raised {type(e).__name__}: {e}")]


def _why(bad):
    return "; ".join(f"[{c}] {w}" for c, w in bad)


# ------------------------------------------------------------------------------------------------
# arithmetic helpers
# ------------------------------------------------------------------------------------------------
ALIGN_H = {"left": "left", "center": "center", "right": "right"}
ALIGN_V = {"left": "top", "center": "middle", "right": "bottom", "top": "top", "middle": "middle", "bottom": "bottom"}


def eval_calc(case):
    """case: fn ('lr'|'tb'), avail, align (name or int pct), kind, amount, min, lead, trail."""
    from urwid.widget.filler import calculate_top_bottom_filler
    from urwid.widget.padding import calculate_left_right_padding

    al = case["align"]
    names = ALIGN_H if case["fn"] == "lr" else ALIGN_V
    a_type, a_amt = (names[al], 0) if isinstance(al, str) else ("relative", al)
    pct = ref.align_pct(al, al)
    fn = calculate_left_right_padding if case["fn"] == "lr" else calculate_top_bottom_filler
    try:
        a, b = fn(case["avail"], a_type, a_amt, case["kind"], case["amount"], case["min"], case["lead"], case["trail"])
    except Exception as e:  # noqa: BLE001
        return _raised(e), None
    q = ref.requested(case["avail"], case["kind"], case["amount"], case["min"], case["lead"], case["trail"])
    return ref.judge_margins(case["avail"], pct, q, case["lead"], case["trail"], a, b, clip=case["kind"] == "clip"), [a, b]


def _calc_task(args):
    fn, avails, aligns, sizes, margins = args
    t = Tally()
    for avail in avails:
        for al in aligns:
            for kind, amount, mn in sizes:
                for lead, trail in margins:
                    case = {"kind_": "calc", "fn": fn, "avail": avail, "align": al, "kind": kind, "amount": amount, "min": mn, "lead": lead, "trail": trail}
                    bad, got = eval_calc(case)
                    t.case(not bad, lambda: case | {"got": got, "why": _why(bad)}, True, case if avail == 7 and amount == 3 else None, rank=(avail, amount, lead + trail))
    return {"calc-left-right" if fn == "lr" else "calc-top-bottom": t}


def eval_int_scale(case):
    from urwid.util import int_scale

    v, r, o = case["val"], case["val_range"], case["out_range"]
    try:
        got = int_scale(v, r, o)
    except Exception as e:  # noqa: BLE001
        return _raised(e), None
    want = (Fraction(v * (o - 1), r - 1) + Fraction(1, 2)).__floor__()
    bad = []
    if not ref.is_int(got) or got != want:
        bad.append(("round-half-up", f"int_scale({v},{r},{o}) = {got!r}, round-half-up of {Fraction(v * (o - 1), r - 1)} is {want}"))
    elif not 0 <= got <= o - 1:
        bad.append(("range", f"{got} outside [0,{o - 1}]"))
    return bad, got


def _int_scale_task(args):
    (rmax, omax) = args
    t = Tally()
    for r in range(2, rmax + 1):
        for o in range(1, omax + 1):
            for v in range(r):
                case = {"kind_": "int_scale", "val": v, "val_range": r, "out_range": o}
                bad, got = eval_int_scale(case)
                t.case(not bad, lambda: case | {"got": got, "why": _why(bad)}, True, case if (v, r, o) == (1, 3, 4) else None, rank=(r, o, v))
    return {"int-scale": t}


# ------------------------------------------------------------------------------------------------
# Columns
# ------------------------------------------------------------------------------------------------
# column spec: [kind, amount] with kind in given / weight / packF (FIXED child of that width) /
# packL (FLOW child that packs to min(amount, available)) / packB (child supporting FIXED and FLOW)
def _base(specs):
    return [("pack" if k.startswith("pack") else k, a) for k, a in specs]


def _own(specs, maxcol):
    out = []
    for k, a in specs:
        if k == "given" or k == "packF":
            out.append(a)
        elif k in ("packL", "packB"):
            out.append(min(a, maxcol))
        else:
            out.append(None)
    return out


def build_columns(specs, d, m, focus=0):
    items = []
    for i, (k, a) in enumerate(specs):
        ch = LETTERS[i]
        if k == "given":
            items.append((a, Box(ch)))
        elif k == "weight":
            items.append(("weight", a, Box(ch)))
        elif k == "packF":
            items.append(("pack", Fixed(ch, a, 1)))
        elif k == "packL":
            items.append(("pack", Flow(ch, rows=1, pref=a)))
        elif k == "packB":
            items.append(("pack", FixedFlow(ch, a)))
        else:
            raise ValueError(k)
    return urwid.Columns(items, dividechars=d, focus_column=focus, min_width=m)


def _cols_repro(specs, d, m, f, mc):
    def one(k, a):
        if k == "given":
            return f"({a}, urwid.SolidFill())"
        if k == "weight":
            return f"('weight', {a}, urwid.SolidFill())"
        return f"('pack', urwid.Text('x' * {a}))"

    return f"urwid.Columns([{', '.join(one(k, a) for k, a in specs)}], dividechars={d}, focus_column={f}, min_width={m}).column_widths(({mc},))"


def eval_columns(case):
    """Fresh instance; clauses (a)-(e)."""
    specs, d, m, f, mc = case["specs"], case["dividechars"], case["min_width"], case["focus"], case["maxcol"]
    try:
        widths = list(build_columns(specs, d, m, f).column_widths((mc,), True))
    except Exception as e:  # noqa: BLE001
        return _raised(e), None
    return ref.judge_columns(_base(specs), _own(specs, mc), d, m, f, mc, widths), widths


def eval_columns_prop(case):
    specs, d, m, f, mc = case["specs"], case["dividechars"], case["min_width"], case["focus"], case["maxcol"]
    try:
        widths = list(build_columns(specs, d, m, f).column_widths((mc,), True))
    except Exception as e:  # noqa: BLE001
        return _raised(e), None
    app, ok, dev, ideals, wv = ref.columns_proportional(_base(specs), d, m, mc, widths)
    if app and not ok:
        return [("proportional", f"weighted columns {wv} got {[widths[i] for i in wv]}, exact shares {[round(float(x), 2) for x in ideals]}: off by {float(dev):.2f} > 1")], widths
    return [], widths


def _columns_loop(T, specs, ds, ms, maxcols, focuses=None, want_prop=True, covered=None):
    """One instance per (specs, d, m), re-used over focus positions and widths (as an application
    does); a failure is re-evaluated on a fresh instance and both results are recorded."""
    n = len(specs)
    base = _base(specs)
    wsum = sum(a for k, a in specs if k == "weight")
    for d in ds:
        for m in ms:
            cols = build_columns(specs, d, m)
            for f in focuses if focuses is not None else range(n):
                cols.focus_position = f
                for mc in maxcols:
                    if covered is not None and mc <= covered[0] and m in covered[1]:
                        continue  # this very case is enumerated by _columns_task
                    try:
                        widths = list(cols.column_widths((mc,), True))
                        bad = ref.judge_columns(base, _own(specs, mc), d, m, f, mc, widths)
                    except Exception as e:  # noqa: BLE001
                        widths, bad = None, _raised(e)
                    case = {"kind_": "columns", "specs": [list(s) for s in specs], "dividechars": d, "min_width": m, "focus": f, "maxcol": mc}

                    def detail(case=case, bad=bad, widths=widths):
                        fb, fw = eval_columns(case)
                        return case | {"widths": widths, "why": _why(bad), "fresh_instance": {"widths": fw, "why": _why(fb)}, "repro": _cols_repro(*[case[k] for k in ("specs", "dividechars", "min_width", "focus", "maxcol")])}

                    T["columns-widths"].case(not bad, detail, True, case if mc == 9 and n == 3 else None, rank=(n, mc, d + m))
                    if want_prop and widths is not None:
                        app, ok, dev, ideals, wv = ref.columns_proportional(base, d, m, mc, widths)

                        def pdetail(case=case, widths=widths, dev=dev, ideals=ideals, wv=wv):
                            return case | {
                                "widths": widths,
                                "weighted_shown": wv,
                                "exact_shares": [round(float(x), 3) for x in ideals],
                                "deviation": round(float(dev), 3),
                                # classification aids for known findings (see ref.stepwise_within_half)
                                "weighted_count": len(wv),
                                "stepwise_within_half": ref.columns_stepwise(base, case["dividechars"], case["min_width"], case["maxcol"], widths),
                                "why": f"weighted columns {wv} got {[widths[i] for i in wv]}, exact shares {[round(float(x), 2) for x in ideals]}: off by {float(dev):.2f} > 1 column (min_width {case['min_width']} does not intervene: every share >= it)",
                                "repro": _cols_repro(*[case[k] for k in ("specs", "dividechars", "min_width", "focus", "maxcol")]),
                            }

                        T["columns-proportional"].case(ok, pdetail, app, case if app and mc == 11 else None, rank=(n, mc, wsum, d + m))


def _columns_task(args):
    spec_lists, ds, ms, maxcols = args
    T = {"columns-widths": Tally(), "columns-proportional": Tally()}
    for specs in spec_lists:
        _columns_loop(T, specs, ds, ms, maxcols)
    CanvasCache.clear()
    return T


def _columns_weights_task(args):
    """Weighted-only columns for clause (f): weights are enumerated as non-decreasing tuples (the
    allocation sorts by weight, and the clause is symmetric under permutation)."""
    weight_lists, ds, ms, maxcols, covered = args
    T = {"columns-widths": Tally(), "columns-proportional": Tally()}
    for ws in weight_lists:
        _columns_loop(T, [("weight", w) for w in ws], ds, ms, maxcols, focuses=(0,), covered=covered.get(ws))
    CanvasCache.clear()
    return T


def _columns_random_task(args):
    seed, count, nmax, amax, wmax, mcmax = args
    r = rng(seed)
    T = {"columns-widths": Tally(), "columns-proportional": Tally()}
    for _ in range(count):
        n = r.randint(1, nmax)
        specs = []
        for _i in range(n):
            k = r.choice(["given", "weight", "weight", "packF", "packL", "packB"])
            specs.append((k, r.randint(1, wmax if k == "weight" else amax)))
        _columns_loop(T, specs, (r.randint(0, 3),), (r.randint(1, 4),), sorted({r.randint(0, mcmax) for _j in range(4)}), focuses=(r.randrange(n),))
    CanvasCache.clear()
    return T


# -- what the children of a Columns are handed ---------------------------------------------------
# child spec: [kind, amount, widget] with (given|weight, n, 'flow'|'box') or (pack, n, 'fixed'|'flow')
def build_columns_children(specs, d, m, focus):
    items = []
    boxes = []
    for i, (k, a, wk) in enumerate(specs):
        ch = LETTERS[i]
        if k == "pack":
            items.append(("pack", Fixed(ch, a, 2) if wk == "fixed" else Flow(ch, rows=1 + i % 2, pref=a)))
        else:
            w = Box(ch) if wk == "box" else Flow(ch, rows=1 + i % 2)
            items.append((a, w) if k == "given" else ("weight", a, w))
            if wk == "box":
                boxes.append(i)
    return urwid.Columns(items, dividechars=d, focus_column=focus, min_width=m, box_columns=boxes)


def eval_columns_children(case):
    specs, d, m, f = case["specs"], case["dividechars"], case["min_width"], case["focus"]
    size = tuple(case["size"])
    mc = size[0]
    n = len(specs)
    bad = []
    obs = {}
    del LOG[:], NEG[:]
    try:
        cols = build_columns_children(specs, d, m, f)
        widths, heights, args = cols.get_column_sizes(size, True)
        obs = {"widths": list(widths), "heights": list(heights), "size_args": [list(a) for a in args]}
        own = [a if k == "given" else (a if wk == "fixed" else min(a, mc)) if k == "pack" else None for k, a, wk in specs]
        bad += ref.judge_columns([(k, a) for k, a, _w in specs], own, d, m, f, mc, list(widths))
        if not (len(widths) == len(heights) == len(args)):
            bad.append(("shape", "widths/heights/size-args differ in length"))
        box_h = set()
        for i, (w, arg) in enumerate(zip(widths, args)):
            k, _a, wk = specs[i]
            if any((type(x) is not int) or x < 0 for x in arg):
                bad.append(("non-negative", f"column {i} would be handed {arg!r}"))
            if wk == "fixed":
                want_len = 0
            elif wk == "flow":
                want_len = 1
            else:
                want_len = 2
            if len(arg) != want_len:
                bad.append(("size-kind", f"column {i} ({wk} child) would be handed {arg!r}"))
            elif want_len and arg[0] != w:
                bad.append(("size-width", f"column {i} is {w} wide but its child would be handed {arg!r}"))
            if want_len == 2:
                box_h.add(arg[1])
                if len(size) == 2 and arg[1] != size[1]:
                    bad.append(("size-height", f"box child {i} handed {arg!r} in {size!r}"))
        if len(box_h) > 1:
            bad.append(("size-height", f"box children handed different heights {sorted(box_h)}"))
        if mc >= 1 and not bad:
            del LOG[:]
            CanvasCache.clear()
            canv = cols.render(size, True)
            rows = canvas_rows(canv)
            obs["canvas"] = rows
            rendered = {ch: sz for op, ch, sz in LOG if op == "render"}
            if canv.cols() != mc:
                bad.append(("canvas", f"canvas is {canv.cols()} columns for {size!r}"))
            x = 0
            vis = [i for i in range(len(widths)) if widths[i] > 0]
            for i in range(n):
                ch = LETTERS[i]
                if i not in vis:
                    if ch in rendered:
                        bad.append(("hidden-rendered", f"column {i} has no width but its child was rendered at {rendered[ch]!r}"))
                    continue
                if rendered.get(ch) != tuple(args[i]):
                    bad.append(("child-size", f"column {i}: child rendered at {rendered.get(ch)!r}, get_column_sizes says {args[i]!r}"))
                if rows:
                    box = find_box(rows[:1], ch)
                    if box is None or box[0] != x or box[2] != widths[i] or not box[4]:
                        bad.append(("position", f"column {i} should occupy columns {x}..{x + widths[i] - 1}, found {box!r} in {rows[0]!r}"))
                x += widths[i] + d
        if NEG:
            bad.append(("non-negative", f"child handed {NEG[0]!r}"))
    except Exception as e:  # noqa: BLE001
        bad += _raised(e)
    finally:
        CanvasCache.clear()
    return bad, obs


def _columns_children_task(args):
    spec_lists, ds, ms, sizes = args
    t = Tally()
    for specs in spec_lists:
        for d in ds:
            for m in ms:
                for f in range(len(specs)):
                    for size in sizes:
                        if len(size) == 2 and not all(wk == "box" for _k, _a, wk in specs):
                            continue  # a Columns is a box widget only when its children are
                        case = {"kind_": "columns_children", "specs": [list(s) for s in specs], "dividechars": d, "min_width": m, "focus": f, "size": list(size)}
                        bad, obs = eval_columns_children(case)
                        t.case(not bad, lambda: case | obs | {"why": _why(bad)}, True, case if size == (7,) else None, rank=(len(specs), size[0], d + m))
    return {"columns-children": t}


# ------------------------------------------------------------------------------------------------
# Pile (box sized)
# ------------------------------------------------------------------------------------------------
# item spec: [kind, amount]: given (Box child of n rows) / weight (Box child) / packL (FLOW child of n rows)
# / packF (FIXED-only child 3 x n)
PILE_COLS = 5


def build_pile(specs, focus=0):
    items = []
    for i, (k, a) in enumerate(specs):
        ch = LETTERS[i]
        if k == "given":
            items.append((a, Box(ch)))
        elif k == "weight":
            items.append(("weight", a, Box(ch)))
        elif k == "packL":
            items.append(("pack", Flow(ch, rows=a)))
        elif k == "packF":
            # ORACLE CORRECTION (triage): the fixed child used to be 3 columns wide in a 5-column Pile.
            # Pile.render() does not pad a fixed child that packs narrower than the Pile, so every such
            # case ended in urwid's own "rendered (3 x r) canvas when passed size (5, r)" WidgetError -
            # the canvas-size defect of DESIGN section 7-b, which is C01's clause ("the canvas has the
            # requested size"), not C19's (how the rows are divided and what sizes the children are
            # handed).  A fixed child exactly as wide as the Pile keeps every C19 clause of this check
            # (rows = what pack(()) reports, child handed (), painted at the right rows) judgeable.
            items.append(("pack", Fixed(ch, PILE_COLS, a)))
        else:
            raise ValueError(k)
    return urwid.Pile(items, focus_item=focus)


def _pile_own(specs):
    return [a if k != "weight" else None for k, a in specs]


def _pile_repro(specs, f, mr):
    def one(k, a):
        if k == "given":
            return f"({a}, urwid.SolidFill())"
        if k == "weight":
            return f"('weight', {a}, urwid.SolidFill())"
        if k == "packL":
            return "('pack', urwid.Text(" + repr("\\n".join("x" * a)).replace("\\\\", "\\") + "))"
        return "('pack', urwid.BigText('1', urwid.Thin3x3Font()))"

    return f"urwid.Pile([{', '.join(one(k, a) for k, a in specs)}], focus_item={f}).get_item_rows(({PILE_COLS}, {mr}), True)"


def eval_pile(case, clause="rows"):
    """clause: rows | proportional | fits | children  (fresh instance)."""
    specs, f, mr = case["specs"], case["focus"], case["maxrow"]
    base = _base(specs)
    own = _pile_own(specs)
    bad = []
    obs = {}
    del LOG[:], NEG[:]
    try:
        pile = build_pile(specs, f)
        rows = list(pile.get_item_rows((PILE_COLS, mr), True))
        obs["rows"] = rows
        if clause == "rows":
            bad += ref.judge_pile_rows(base, own, mr, rows)
        elif clause == "proportional":
            app, ok, dev, ideals, wv = ref.pile_proportional(base, own, mr, rows)
            if app and not ok:
                bad.append(("proportional", f"weighted items {wv} got {[rows[i] for i in wv]}, exact shares {[round(float(x), 2) for x in ideals]}: off by {float(dev):.2f} > 1 row"))
        elif clause == "fits":
            if sum(rows) > mr:
                bad.append(("never-exceed", f"rows {rows} add up to {sum(rows)} > {mr} available"))
            if mr >= 1:
                CanvasCache.clear()
                canv = pile.render((PILE_COLS, mr), True)
                lines = canvas_rows(canv)
                obs["canvas"] = lines
                k, a = specs[f]
                # a weighted Pile item has no size of its own (no min height), so "alone fits" is
                # only defined for given / packed focus items
                f_own = 0 if k == "weight" else a
                if 1 <= f_own <= mr and find_box(lines, LETTERS[f]) is None:
                    bad.append(("focus-visible", f"focus item {f} ({f_own} rows) fits alone in {mr} rows but nothing of it is shown: {lines!r}"))
        elif clause == "children":
            widths, heights, args = pile.get_rows_sizes((PILE_COLS, mr), True)
            obs.update(heights=list(heights), size_args=[list(a) for a in args])
            if list(heights) != rows:
                bad.append(("heights", f"get_rows_sizes heights {list(heights)} != get_item_rows {rows}"))
            for i, ((k, a), arg) in enumerate(zip(specs, args)):
                want = (PILE_COLS,) if k == "packL" else () if k == "packF" else (PILE_COLS, rows[i])
                if tuple(arg) != want:
                    bad.append(("child-size", f"item {i} ({k}) would be handed {arg!r}, expected {want!r}"))
                if any((type(x) is not int) or x < 0 for x in arg):
                    bad.append(("non-negative", f"item {i} would be handed {arg!r}"))
            if mr >= 1 and not bad:
                del LOG[:]
                CanvasCache.clear()
                canv = pile.render((PILE_COLS, mr), True)
                lines = canvas_rows(canv)
                obs["canvas"] = lines
                rendered = {ch: sz for op, ch, sz in LOG if op == "render"}
                if canv.rows() != mr or canv.cols() != PILE_COLS:
                    bad.append(("canvas", f"canvas {canv.cols()}x{canv.rows()} for {(PILE_COLS, mr)!r}"))
                y = 0
                for i, (k, a) in enumerate(specs):
                    ch = LETTERS[i]
                    if rows[i] <= 0:
                        if ch in rendered:
                            bad.append(("hidden-rendered", f"item {i} has no rows but was rendered at {rendered[ch]!r}"))
                        continue
                    if rendered.get(ch) != tuple(args[i]):
                        bad.append(("child-size", f"item {i}: child rendered at {rendered.get(ch)!r}, get_rows_sizes says {args[i]!r}"))
                    if sum(rows) <= mr:
                        box = find_box(lines, ch)
                        if box is None or box[1] != y or box[3] != rows[i] or not box[4]:
                            bad.append(("position", f"item {i} should occupy rows {y}..{y + rows[i] - 1}, found {box!r}"))
                    y += rows[i]
        if NEG:
            bad.append(("non-negative", f"child handed {NEG[0]!r}"))
    except Exception as e:  # noqa: BLE001
        bad += _raised(e)
    finally:
        CanvasCache.clear()
    return bad, obs


def _pile_case(specs, f, mr):
    return {"kind_": "pile", "specs": [list(s) for s in specs], "focus": f, "maxrow": mr, "maxcol": PILE_COLS}


def _pile_task(args):
    spec_lists, maxrows, render_upto, render_n = args
    T = {k: Tally() for k in ("pile-rows", "pile-proportional", "pile-fits-available", "pile-children")}
    for specs in spec_lists:
        n = len(specs)
        base = _base(specs)
        own = _pile_own(specs)
        wsum = sum(a for k, a in specs if k == "weight")
        pile = build_pile(specs)
        for f in range(n):
            pile.focus_position = f
            for mr in maxrows:
                case = _pile_case(specs, f, mr)
                try:
                    rows = list(pile.get_item_rows((PILE_COLS, mr), True))
                    bad = ref.judge_pile_rows(base, own, mr, rows)
                except Exception as e:  # noqa: BLE001
                    rows, bad = None, _raised(e)

                def detail(case=case, bad=bad, rows=rows, clause="rows"):
                    fb, fo = eval_pile(case, clause)
                    return case | {"rows": rows, "why": _why(bad) or _why(fb), "fresh_instance": fo | {"why": _why(fb)}, "repro": _pile_repro(case["specs"], case["focus"], case["maxrow"])}

                T["pile-rows"].case(not bad, detail, True, case if mr == 9 and n == 3 else None, rank=(n, mr))
                if rows is None:
                    continue
                if f == 0:
                    app, ok, dev, ideals, wv = ref.pile_proportional(base, own, mr, rows)
                    T["pile-proportional"].case(ok, lambda: detail(clause="proportional") | {"deviation": round(float(dev), 3), "exact_shares": [round(float(x), 3) for x in ideals], "weighted_count": len(wv), "stepwise_within_half": ref.pile_stepwise(base, own, mr, rows)}, app, case if app and mr == 11 else None, rank=(n, mr, wsum))
                if mr <= render_upto and n <= render_n:
                    fb, _fo = eval_pile(case, "fits")
                    T["pile-fits-available"].case(not fb, lambda: detail(clause="fits") | {"fixed_rows": sum(own[i] or 0 for i in range(n))}, sum(own[i] or 0 for i in range(n)) > mr, case if mr == 3 else None, rank=(n, mr, sum(a for _k, a in specs)))
                    cb, _co = eval_pile(case, "children")
                    T["pile-children"].case(not cb, lambda: detail(clause="children"), True, case if mr == 6 else None, rank=(n, mr))
    CanvasCache.clear()
    return T


def _pile_weights_task(args):
    weight_lists, maxrows, covered = args
    T = {k: Tally() for k in ("pile-rows", "pile-proportional")}
    for ws in weight_lists:
        specs = [("weight", w) for w in ws]
        n = len(specs)
        pile = build_pile(specs)
        own = [None] * n
        for mr in maxrows:
            if mr <= covered.get(ws, -1):
                continue  # this very case is enumerated by _pile_task
            case = _pile_case(specs, 0, mr)
            try:
                rows = list(pile.get_item_rows((PILE_COLS, mr), True))
                bad = ref.judge_pile_rows(specs, own, mr, rows)
            except Exception as e:  # noqa: BLE001
                rows, bad = None, _raised(e)
            T["pile-rows"].case(not bad, lambda: case | {"rows": rows, "why": _why(bad), "repro": _pile_repro(specs, 0, mr)}, True, None, rank=(n, mr))
            if rows is None:
                continue
            app, ok, dev, ideals, wv = ref.pile_proportional(specs, own, mr, rows)
            T["pile-proportional"].case(
                ok,
                lambda: case | {"rows": rows, "deviation": round(float(dev), 3), "exact_shares": [round(float(x), 3) for x in ideals], "weighted_count": len(wv), "stepwise_within_half": ref.pile_stepwise(specs, own, mr, rows), "why": f"weighted items got {rows}, exact shares {[round(float(x), 2) for x in ideals]}: off by {float(dev):.2f} > 1 row", "repro": _pile_repro(specs, 0, mr)},
                app,
                case if app and mr == 11 else None,
                rank=(n, mr, sum(ws)),
            )
    CanvasCache.clear()
    return T


def _pile_fixed_task(args):
    (spec_lists, maxrows) = args
    t = Tally()
    for specs in spec_lists:
        for mr in maxrows:
            case = _pile_case(specs, 0, mr)
            bad, obs = eval_pile(case, "rows")
            if not bad:
                bad, obs = eval_pile(case, "children")
            t.case(not bad, lambda: case | obs | {"why": _why(bad), "repro": _pile_repro(specs, 0, mr)}, True, case if mr == 6 else None, rank=(len(specs), mr))
    return {"pile-packed-fixed-child": t}


# ------------------------------------------------------------------------------------------------
# zero weights / zero given sizes (in the quantifier, outside the statement's "given (>= 1) ...
# positively weighted"): only the unconditional demands are made - no exception, integers >= 0,
# a given column gets its own size or nothing, never more than the available space.  A configuration
# whose weights are all zero has nothing to share the space and is not judged (urwid raises
# PileError for the Pile and ZeroDivisionError for Columns there).
# ------------------------------------------------------------------------------------------------
def eval_zero(case):
    specs, d, m, f, avail = case["specs"], case["dividechars"], case["min_width"], case["focus"], case["avail"]
    bad = []
    obs = {}
    try:
        if case["container"] == "columns":
            widths = list(build_columns(specs, d, m, f).column_widths((avail,), True))
            obs["widths"] = widths
            n = len(specs)
            if len(widths) > n or not all(ref.is_int(w) for w in widths):
                return [("integers", f"{widths!r}")], obs
            ws = widths + [0] * (n - len(widths))
            if any(w < 0 for w in ws):
                bad.append(("non-negative", f"{ws}"))
            for i, (k, a) in enumerate(specs):
                if k == "given" and ws[i] not in (0, a):
                    bad.append(("own-size-or-nothing", f"given column {i} of {a} got {ws[i]}"))
            vis = [w for w in ws if w > 0]
            if sum(vis) + d * max(len(vis) - 1, 0) > avail:
                bad.append(("never-exceed", f"{ws} with {d} dividers > {avail}"))
        else:
            rows = list(build_pile(specs, f).get_item_rows((PILE_COLS, avail), True))
            obs["rows"] = rows
            bad += ref.judge_pile_rows(_base(specs), _pile_own(specs), avail, rows)
    except Exception as e:  # noqa: BLE001
        bad += _raised(e)
    finally:
        CanvasCache.clear()
    return bad, obs


def _zero_task(args):
    spec_lists, ds, ms, avails = args
    t = Tally()
    for container in ("columns", "pile"):
        for specs in spec_lists:
            if not any(a == 0 for _k, a in specs) or (container == "pile" and any(k == "packF" for k, _a in specs)):
                continue
            weights = [a for k, a in specs if k == "weight"]
            judged = any(weights) if container == "pile" or weights else True
            for d in ds if container == "columns" else (0,):
                for m in ms if container == "columns" else (1,):
                    for f in range(len(specs)):
                        for avail in avails:
                            case = {"kind_": "zero", "container": container, "specs": [list(s) for s in specs], "dividechars": d, "min_width": m, "focus": f, "avail": avail}
                            if not judged:
                                t.case(True, None, False)
                                continue
                            bad, obs = eval_zero(case)
                            t.case(not bad, lambda: case | obs | {"why": _why(bad)}, True, case if avail == 5 else None, rank=(len(specs), avail, d + m))
    return {"zero-amounts": t}


# ------------------------------------------------------------------------------------------------
# Padding / Filler / Overlay through their public methods
# ------------------------------------------------------------------------------------------------
def _al(al, names):
    return names[al] if isinstance(al, str) else ("relative", al)


def eval_padding(case):
    """case: align, width (int | 'pack' | 'clip' | ['relative', p]), min, left, right, child
    ('flow' | 'box' | 'fixed' | 'flowpref'), child_w, size (list)."""
    al, width, mn, L, R = case["align"], case["width"], case["min"], case["left"], case["right"]
    size = tuple(case["size"])
    child_kind, cw = case["child"], case["child_w"]
    bad = []
    obs = {}
    del LOG[:], NEG[:]
    try:
        if child_kind == "box":
            child = Box("T")
        elif child_kind == "flow":
            child = Flow("T", area=12)
        elif child_kind == "flowpref":
            child = Flow("T", area=cw, pref=cw)
        else:
            child = Fixed("T", cw, 2)
        wopt = tuple(width) if isinstance(width, list) else width
        pad = urwid.Padding(child, _al(al, ALIGN_H), wopt, mn, L, R)
        l, r = pad.padding_values(size, True)
        obs["padding_values"] = [l, r]
        pct = ref.align_pct(al, al)
        clip = width == "clip"
        if size:
            M = size[0]
            if width == "pack":
                # the child packs into what is left beside the margins; READING: min_width is only
                # judged with relative widths here (see C19/padding-pack-min-width)
                q = min(cw, max(M - L - R, mn or 0)) if child_kind == "flowpref" else cw
            elif clip:
                q = cw
            elif isinstance(width, int):
                q = width
            else:
                q = ref.requested(M, "relative", width[1], mn, L, R)
        else:
            # fixed: the Padding chooses its own size, so everything fits by construction
            q = width if isinstance(width, int) else cw
            M = l + r + q
            if l < L or r < R:
                bad.append(("fixed-margins", f"fixed render: margins ({l}, {r}) below ({L}, {R})"))
        obs["requested"] = q
        bad += ref.judge_margins(M, pct, q, L, R, l, r, clip=clip)
        if not bad and (not size or M >= 1):
            del LOG[:]
            CanvasCache.clear()
            canv = pad.render(size, True)
            rows = canvas_rows(canv)
            obs["canvas"] = rows[:2]
            rendered = [sz for op, _ch, sz in LOG if op == "render"]
            want_size = () if (clip or (not size and child_kind == "fixed")) else ((M - l - r,) + size[1:] if size else (q,))
            if rendered != [want_size]:
                bad.append(("child-size", f"child rendered at {rendered!r}, margins ({l}, {r}) in {size!r} leave {want_size!r}"))
            if canv.cols() != M:
                bad.append(("canvas", f"canvas is {canv.cols()} columns, expected {M}"))
            shown = max(0, min(M, l + (q if clip else M - l - r)) - max(l, 0))
            if rows and shown > 0:
                box = find_box(rows[:1], "T")
                if box is None or box[0] != max(l, 0) or box[2] != shown:
                    bad.append(("position", f"child should occupy columns {max(l, 0)}..{max(l, 0) + shown - 1}, found {box!r} in {rows[0]!r}"))
        if NEG:
            bad.append(("non-negative", f"child handed {NEG[0]!r}"))
    except Exception as e:  # noqa: BLE001
        bad += _raised(e)
    finally:
        CanvasCache.clear()
    return bad, obs


def _padding_configs(tier):
    quick = tier == "quick"
    aligns = ["left", "center", "right", 0, 30, 100] if quick else ["left", "center", "right", *range(0, 101, 10)]
    margins = [(a, b) for a in range(3 if quick else 4) for b in range(3 if quick else 4)]
    sizes = []
    for g in (0, 1, 3, 6) if quick else range(0, 8):
        sizes += [(g, None, "flow", 0), (g, None, "box", 0)]
    for cw in (3,) if quick else (1, 3, 6):
        sizes += [("pack", None, "flowpref", cw), ("pack", None, "fixed", cw)]
    for p in (0, 30, 50, 100, 150) if quick else (*range(0, 101, 10), 150):
        for mn in (None, 2, 5) if quick else (None, 0, 2, 5, 30):
            sizes += [(["relative", p], mn, "flow", 0), (["relative", p], mn, "box", 0)]
    for cw in (2, 5) if quick else (1, 2, 5, 9):
        sizes.append(("clip", None, "fixed", cw))
    maxcols = range(0, 11) if quick else range(0, 25)
    return aligns, margins, sizes, maxcols


def _padding_task(args):
    aligns, margins, sizes, maxcols = args
    t = Tally()
    for al in aligns:
        for width, mn, child, cw in sizes:
            for L, R in margins:
                szs = []
                if child == "fixed" and width == "pack":
                    szs = [()]
                elif child == "box":
                    szs = [(M, 2) for M in maxcols]
                else:
                    szs = [(M,) for M in maxcols]
                    if isinstance(width, int) and width >= 1 and child == "flow":
                        szs.append(())
                for size in szs:
                    case = {"kind_": "padding", "align": al, "width": width, "min": mn, "left": L, "right": R, "child": child, "child_w": cw, "size": list(size)}
                    bad, obs = eval_padding(case)
                    t.case(not bad, lambda: case | obs | {"why": _why(bad)}, True, case if size == (9,) and L == 1 else None, rank=(size[0] if size else 0, L + R))
    return {"padding-values": t}


def eval_padding_pack_min(case):
    """Padding(width='pack', min_width=m): 'min_width: the minimum number of columns for
    self.original_widget' - the child packs to cw < m, so m columns are requested."""
    al, mn, L, R, cw, M = case["align"], case["min"], case["left"], case["right"], case["child_w"], case["maxcol"]
    bad = []
    obs = {}
    try:
        pad = urwid.Padding(Flow("T", area=cw, pref=cw), _al(al, ALIGN_H), "pack", mn, L, R)
        l, r = pad.padding_values((M,), True)
        obs["padding_values"] = [l, r]
        q = max(min(cw, max(M - L - R, mn)), mn)
        obs["requested"] = q
        bad += ref.judge_margins(M, ref.align_pct(al, al), q, L, R, l, r)
    except Exception as e:  # noqa: BLE001
        bad += _raised(e)
    finally:
        CanvasCache.clear()
    return bad, obs


def _padding_pack_min_task(args):
    aligns, margins, maxcols = args
    t = Tally()
    for al in aligns:
        for L, R in margins:
            for cw in (1, 3):
                for mn in (2, 5):
                    for M in maxcols:
                        case = {"kind_": "padding_pack_min", "align": al, "min": mn, "left": L, "right": R, "child_w": cw, "maxcol": M}
                        bad, obs = eval_padding_pack_min(case)
                        t.case(not bad, lambda: case | obs | {"why": _why(bad)}, mn > cw, case if M == 9 else None, rank=(M, L + R, mn))
    return {"padding-pack-min-width": t}


def eval_filler(case):
    """case: valign, height (int | 'pack' | ['relative', p]), min, top, bottom, child_area, size."""
    al, height, mn, T_, B_ = case["valign"], case["height"], case["min"], case["top"], case["bottom"]
    size = tuple(case["size"])
    bad = []
    obs = {}
    del LOG[:], NEG[:]
    try:
        flow = height == "pack"
        child = Flow("T", area=case["child_area"]) if flow else Box("T")
        hopt = tuple(height) if isinstance(height, list) else height
        fil = urwid.Filler(child, _al(al, ALIGN_V), hopt, mn, T_, B_)
        maxcol = size[0]
        child_rows = child.rows_at(maxcol) if flow else None
        t, b = fil.filler_values(size, True)
        obs["filler_values"] = [t, b]
        if len(size) == 2:
            N = size[1]
        else:
            # flow: the Filler is as tall as child + fixed margins
            N = (child_rows if flow else height) + T_ + B_
        if flow:
            q = child_rows
        elif isinstance(height, int):
            q = height
        else:
            # Filler documents that min_height is used with relative heights only
            q = ref.requested(N, "relative", height[1], mn, T_, B_)
        obs["requested"] = q
        bad += ref.judge_margins(N, ref.align_pct(al, al), q, T_, B_, t, b)
        if not bad and N >= 1 and maxcol >= 1:
            del LOG[:]
            CanvasCache.clear()
            canv = fil.render(size, True)
            rows = canvas_rows(canv)
            obs["canvas"] = [x[:1] for x in rows]
            rendered = [sz for op, _ch, sz in LOG if op == "render"]
            want = (maxcol,) if flow else (maxcol, N - t - b)
            if rendered != [want]:
                bad.append(("child-size", f"child rendered at {rendered!r}, margins ({t}, {b}) in {size!r} leave {want!r}"))
            if canv.rows() != N:
                bad.append(("canvas", f"canvas is {canv.rows()} rows, expected {N}"))
            shown = min(q if flow else N - t - b, N - t)
            if shown > 0:
                box = find_box(rows, "T")
                if box is None or box[1] != t or box[3] != shown:
                    bad.append(("position", f"child should occupy rows {t}..{t + shown - 1}, found {box!r}"))
        if NEG:
            bad.append(("non-negative", f"child handed {NEG[0]!r}"))
    except Exception as e:  # noqa: BLE001
        bad += _raised(e)
    finally:
        CanvasCache.clear()
    return bad, obs


def _filler_task(args):
    aligns, margins, heights, maxrows = args
    t = Tally()
    for al in aligns:
        for height, mn, area in heights:
            for T_, B_ in margins:
                szs = [(4, N) for N in maxrows]
                if height == "pack" or isinstance(height, int):
                    szs.append((4,))
                for size in szs:
                    case = {"kind_": "filler", "valign": al, "height": height, "min": mn, "top": T_, "bottom": B_, "child_area": area, "size": list(size)}
                    bad, obs = eval_filler(case)
                    t.case(not bad, lambda: case | obs | {"why": _why(bad)}, True, case if size == (4, 9) and T_ == 1 else None, rank=(size[-1] if len(size) == 2 else 0, T_ + B_))
    return {"filler-values": t}


def eval_overlay(case):
    """case: align, width (int|'pack'|['relative',p]), min_width, left, right, valign, height
    (int|'pack'|['relative',p]), min_height, top, bottom, fixed [c, r] (for width='pack'),
    area (flow child, height='pack'), size [M, N]."""
    M, N = case["size"]
    width, height = case["width"], case["height"]
    L, R, T_, B_ = case["left"], case["right"], case["top"], case["bottom"]
    bad = []
    obs = {}
    del LOG[:], NEG[:]
    try:
        if width == "pack":
            child, kind = Fixed("T", *case["fixed"]), "fixed"
        elif height == "pack":
            child, kind = Flow("T", area=case["area"]), "flow"
        else:
            child, kind = Box("T"), "box"
        wopt = tuple(width) if isinstance(width, list) else width
        hopt = tuple(height) if isinstance(height, list) else height
        ov = urwid.Overlay(child, Box("."), _al(case["align"], ALIGN_H), wopt, _al(case["valign"], ALIGN_V), hopt, case["min_width"], case["min_height"], L, R, T_, B_)
        l, r, t, b = ov.calculate_padding_filler((M, N), True)
        tsize = ov.top_w_size((M, N), l, r, t, b)
        obs.update(padding_filler=[l, r, t, b], top_w_size=list(tsize))
        if any((type(x) is not int) or x < 0 for x in tsize):
            bad.append(("non-negative", f"top widget would be handed {tsize!r}"))
        if len(tsize) != {"fixed": 0, "flow": 1, "box": 2}[kind]:
            bad.append(("size-kind", f"{kind} top widget would be handed {tsize!r}"))
        if not bad:
            # the child's actual extent
            if kind == "fixed":
                cw, chh = case["fixed"]
                qw, qh = cw, chh
            else:
                cw = tsize[0]
                qw = width if isinstance(width, int) else ref.requested(M, "relative", width[1], case["min_width"], L, R)
                if kind == "flow":
                    chh = child.rows_at(cw)
                    qh = chh
                else:
                    chh = tsize[1]
                    # min_height is documented for non-fixed heights only
                    qh = height if isinstance(height, int) else ref.requested(N, "relative", height[1], case["min_height"], T_, B_)
            obs.update(child_extent=[cw, chh], requested=[qw, qh])
            if l + cw + r != M:
                bad.append(("fill-exactly", f"columns: {l} + {cw} + {r} != {M}"))
            if t + chh + b != N:
                bad.append(("fill-exactly", f"rows: {t} + {chh} + {b} != {N}"))
            hb = ref.judge_margins(M, ref.align_pct(case["align"], case["align"]), qw, L, R, l, r, clip=kind == "fixed")
            # a fixed or flow top widget cannot be given fewer rows than it has: it is clipped
            vb = ref.judge_margins(N, ref.align_pct(case["valign"], case["valign"]), qh, T_, B_, t, b, clip=kind != "box")
            bad += [("h-" + c, w) for c, w in hb] + [("v-" + c, w) for c, w in vb]
        if NEG:
            bad.append(("non-negative", f"child handed {NEG[0]!r}"))
    except Exception as e:  # noqa: BLE001
        bad += _raised(e)
    rbad = []
    try:
        if not bad and M >= 1 and N >= 1:
            del LOG[:], NEG[:]
            CanvasCache.clear()
            canv = ov.render((M, N), True)
            rows = canvas_rows(canv)
            obs["canvas"] = rows
            rendered = [sz for op, ch, sz in LOG if op == "render" and ch == "T"]
            # ORACLE CORRECTION (triage): a top widget whose size has a zero dimension shows nothing, and
            # the statement does not say that an invisible child must be rendered (Columns and Pile do
            # not render their hidden children either, and the checks above demand exactly that) - so
            # "not rendered at all" is accepted there; if it is rendered, it must still be at top_w_size.
            if rendered != [tuple(tsize)] and not (0 in tsize and rendered == []):
                rbad.append(("child-size", f"top widget rendered at {rendered!r}, top_w_size says {tsize!r}"))
            if canv.cols() != M or canv.rows() != N:
                rbad.append(("canvas", f"canvas {canv.cols()}x{canv.rows()} for {(M, N)!r}"))
            x0, x1 = max(l, 0), min(l + cw, M)
            y0, y1 = max(t, 0), min(t + chh, N)
            box = find_box(rows, "T")
            if x1 > x0 and y1 > y0:
                if box is None or box[:4] != (x0, y0, x1 - x0, y1 - y0) or not box[4]:
                    rbad.append(("position", f"top widget should cover columns {x0}..{x1 - 1}, rows {y0}..{y1 - 1}; found {box!r}"))
            elif box is not None:
                rbad.append(("position", f"top widget has no visible extent but appears at {box!r}"))
            if NEG:
                rbad.append(("non-negative", f"child handed {NEG[0]!r}"))
    except Exception as e:  # noqa: BLE001
        rbad += _raised(e)
    finally:
        CanvasCache.clear()
    obs["render_why"] = _why(rbad)
    return bad, obs, rbad


def _overlay_axis(tier):
    quick = tier == "quick"
    aligns = ["left", "center", "right", 30] if quick else ["left", "center", "right", 0, 20, 50, 70, 100]
    margins = [(0, 0), (2, 0), (0, 1), (2, 1)] if quick else [(a, b) for a in range(3) for b in range(3)]
    sizes = [(g, None) for g in ((1, 2, 5) if quick else range(1, 8))]
    sizes += [(["relative", p], mn) for p in ((30, 100) if quick else (10, 30, 50, 80, 100)) for mn in ((None, 4) if quick else (None, 2, 4, 9))]
    return aligns, margins, sizes


def _overlay_task(args):
    tier, which, aligns = args
    _all, margins, sizes = _overlay_axis(tier)
    quick = tier == "quick"
    avail = range(0, 8) if quick else range(0, 17)
    other_n, other_m = ((1, 5), (2, 6)) if quick else ((1, 4, 7), (2, 5, 8))
    t = Tally()
    tr = Tally()

    def go(case):
        bad, obs, rbad = eval_overlay(case)
        rank = (case["size"][0] + case["size"][1], case["left"] + case["right"] + case["top"] + case["bottom"])
        t.case(not bad, lambda: case | obs | {"why": _why(bad)}, True, case if case["size"][0] == 5 else None, rank=rank)
        if not bad and min(case["size"]) >= 1:
            tr.case(not rbad, lambda: case | obs | {"why": _why(rbad)}, True, case if case["size"][0] == 5 else None, rank=rank)

    base = {"kind_": "overlay", "align": "center", "width": 3, "min_width": None, "left": 0, "right": 0, "valign": "middle", "height": 2, "min_height": None, "top": 0, "bottom": 0, "fixed": [3, 2], "area": 6}
    if which == "h":
        # horizontal axis in full, a few vertical settings
        for al in aligns:
            for (L, R) in margins:
                for width, mn in [*sizes, ("pack", None)]:
                    for height in (2, "pack", ["relative", 50]):
                        for fixed in ([3, 2], [6, 1]) if width == "pack" else ([3, 2],):
                            if width == "pack" and height != 2:
                                continue
                            for M in avail:
                                for N in other_n:
                                    go(base | {"align": al, "left": L, "right": R, "width": width, "min_width": mn, "height": height, "fixed": fixed, "size": [M, N]})
    else:
        for al in aligns:
            for (T_, B_) in margins:
                for height, mn in [*sizes, ("pack", None)]:
                    for width in (3, ["relative", 60], "pack"):
                        for area in (6, 13) if height == "pack" else (6,):
                            if width == "pack" and height != "pack" and not isinstance(height, int):
                                continue
                            for N in avail:
                                for M in other_m:
                                    go(base | {"valign": al, "top": T_, "bottom": B_, "height": height, "min_height": mn, "width": width, "area": area, "fixed": [3, 2] if height != "pack" else [4, 3], "size": [M, N]})
    return {"overlay-values": t, "overlay-render": tr}


# ------------------------------------------------------------------------------------------------
# GridFlow
# ------------------------------------------------------------------------------------------------
def eval_gridflow(case, gf=None):
    n, cwid, hs, vs, al, focus = case["cells"], case["cell_width"], case["h_sep"], case["v_sep"], case["align"], case["focus"]
    size = tuple(case["size"])
    bad = []
    obs = {}
    del LOG[:], NEG[:]
    try:
        cell_rows = [1 + (i % 2) for i in range(n)]
        if gf is None:
            gf = urwid.GridFlow([Flow(LETTERS[i], rows=cell_rows[i]) for i in range(n)], cwid, hs, vs, _al(al, ALIGN_H), focus=focus)
        maxcol = size[0] if size else n * cwid + (n - 1) * hs
        CanvasCache.clear()
        canv = gf.render(size, True)
        rows = canvas_rows(canv)
        obs["canvas"] = rows
        lines, total = ref.grid_layout(n, cell_rows, cwid, hs, vs, maxcol)
        if canv.cols() != maxcol or canv.rows() != total:
            bad.append(("canvas", f"canvas {canv.cols()}x{canv.rows()}, expected {maxcol}x{total}"))
        pct = ref.align_pct(al, al)
        rendered = {}
        for op, ch, sz in LOG:
            if op == "render":
                rendered.setdefault(ch, set()).add(sz)
        for y, spare, cells in lines:
            first = find_box(rows, LETTERS[cells[0][0]])
            if first is None:
                bad.append(("shown", f"cell {cells[0][0]} is not shown"))
                continue
            x0 = first[0]
            if abs(100 * x0 - pct * spare) >= 100:
                bad.append(("alignment", f"line at row {y} leaves {spare} spare columns at {pct}% but starts at column {x0}"))
            for i, relx, w, h in cells:
                ch = LETTERS[i]
                box = find_box(rows, ch)
                if box is None:
                    bad.append(("shown", f"cell {i} is not shown"))
                elif box != (x0 + relx, y, w, h, True):
                    bad.append(("cell-geometry", f"cell {i} should be {w}x{h} at column {x0 + relx}, row {y}; found x={box[0]} y={box[1]} {box[2]}x{box[3]}"))
                if rendered.get(ch) != {(w,)}:
                    bad.append(("cell-width", f"cell {i} rendered at {sorted(rendered.get(ch, []))!r}, expected only {(w,)!r}"))
        if NEG:
            bad.append(("non-negative", f"child handed {NEG[0]!r}"))
    except Exception as e:  # noqa: BLE001
        bad += _raised(e)
    finally:
        CanvasCache.clear()
    return bad, obs


def _gridflow_task(args):
    ns, cws, hss, vss, aligns, maxcols = args
    t = Tally()
    for n in ns:
        for cwid in cws:
            for hs in hss:
                for vs in vss:
                    for al in aligns:
                        for focus in sorted({0, n - 1}):
                            gf = None
                            for size in [(), *[(mc,) for mc in maxcols]]:
                                case = {"kind_": "gridflow", "cells": n, "cell_width": cwid, "h_sep": hs, "v_sep": vs, "align": al, "focus": focus, "size": list(size)}
                                # one instance over all widths (its display widget is cached per width) ...
                                if gf is None:
                                    gf = urwid.GridFlow([Flow(LETTERS[i], rows=1 + (i % 2)) for i in range(n)], cwid, hs, vs, _al(al, ALIGN_H), focus=focus)
                                bad, obs = eval_gridflow(case, gf)

                                def detail(case=case, bad=bad, obs=obs):
                                    fb, fo = eval_gridflow(case)  # ... and a fresh one for the record
                                    return case | obs | {"why": _why(bad), "fresh_instance": {"why": _why(fb)}}

                                t.case(not bad, detail, True, case if size == (9,) and n == 3 else None, rank=(n, size[0] if size else 0, cwid))
    return {"gridflow-layout": t}


# ------------------------------------------------------------------------------------------------
# plan / run / replay
# ------------------------------------------------------------------------------------------------
RULES = {
    "int-scale": "util.int_scale(v, R, O) is round-half-up of v*(O-1)/(R-1), an int in [0, O-1]",
    "calc-left-right": "calculate_left_right_padding: non-negative ints (clip: l + width + r == maxcol, clipped only when too wide), child == requested when it fits beside the fixed margins (then margins >= fixed margins and spare split by the alignment % to within one), else child == min(requested, maxcol)",
    "calc-top-bottom": "calculate_top_bottom_filler: same clauses vertically",
    "columns-widths": "Columns.column_widths (given/pack/weight >= 1, min_width >= 1): ints >= 0; given/pack column gets its own size or 0; focus column shown when it alone fits; visible widths + dividers between visible columns <= maxcol, == maxcol when a weighted column is shown",
    "columns-proportional": "weighted columns that are shown share what remains in proportion to their weights: |width - remains*w/W| <= 1, unless some exact share is below min_width",
    "columns-children": "get_column_sizes()/render(): widths as above; flow child handed (width,), box child (width, height), fixed pack child (); no negative number; only visible columns rendered, at those sizes, left to right with dividechars blanks between them",
    "pile-rows": "box Pile.get_item_rows: ints >= 0; given/pack items get their own rows; weighted rows fill what the fixed rows leave exactly (nothing when they leave nothing)",
    "pile-proportional": "weighted Pile items share what remains in proportion to their weights: |rows - remains*w/W| <= 1",
    "pile-fits-available": "literal 'divides its rows the same way': rows never add up to more than the available rows, and the focus item is shown in the rendered Pile whenever it alone fits",
    "pile-children": "get_rows_sizes()/render(): heights == get_item_rows; given/weight child handed (maxcol, rows), flow pack child (maxcol,); items with rows rendered at those sizes top to bottom; canvas is maxrow rows",
    "pile-packed-fixed-child": "a ('pack', FIXED-only widget) item in a box Pile takes the rows its pack(()) reports (clauses of pile-rows and pile-children)",
    "zero-amounts": "zero weights / zero given sizes: no exception, ints >= 0, given column own size or 0, never more than available (Pile: pile-rows clauses); all-zero weights not judged",
    "padding-values": "Padding.padding_values + render for given/pack/relative/clip widths: clauses of calc-left-right with the requested width taken from the options and the child's pack; child rendered at exactly (maxcol - l - r, ...) and painted at column l",
    "padding-pack-min-width": "Padding(width='pack', min_width=m) with a child that packs narrower than m: the child gets m columns (documented minimum) when they fit",
    "filler-values": "Filler.filler_values + render for given/pack/relative heights, box and flow sized: clauses of calc-top-bottom; child rendered at exactly (maxcol, maxrow - t - b) and painted at row t",
    "overlay-values": "Overlay.calculate_padding_filler + top_w_size: no negative dimension; l + child width + r == maxcol and t + child rows + b == maxrow with the child's real extent (a flow child's rows at the width it is handed); requested size / alignment clauses per axis (a fixed or flow child is clipped, never both clipped and padded)",
    "overlay-render": "Overlay.render for the configurations whose values pass: no exception, top widget rendered once at top_w_size, canvas maxcol x maxrow, top widget painted exactly where the margins say",
    "gridflow-layout": "GridFlow.render: every cell rendered at (min(cell_width, maxcol),) only, cells in reading order, as many per line as fit, h_sep blank columns / v_sep blank rows between, each line placed by the alignment % to within one, canvas exactly maxcol x needed rows",
}


# Checks that watch a *reading* beyond the property statement: reported as observations, never as
# violations (triage).
INFORMATIONAL = {
    "C19/zero-amounts": (
        "zero weights / zero given sizes are outside the statement, which speaks of 'given (>= 1), packed and "
        "positively weighted children' (DESIGN section 6 C19: 'Not decided: zero weights / zero given sizes'); "
        "observed: Columns.column_widths raises ZeroDivisionError when the only weighted columns that fit have "
        "weight 0, e.g. Columns([('weight', 0, w), ('weight', 2, w)], dividechars=1).column_widths((2,))"
    ),
    "C19/padding-pack-min-width": (
        "the statement says 'the requested size' without defining it for width='pack' together with min_width, "
        "and DESIGN section 6 raises only relative widths to min_width; urwid uses min_width in pack mode as the "
        "least width *offered* to the child for packing (padding_values: max(maxcol - left - right, min_width)), "
        "not as a least width of the child - although Padding.pack(()) reports max(packed, min_width): "
        "Padding(Text('x'), 'right', 'pack', min_width=5): pack(()) == (5, 1) but padding_values((10,)) == (9, 0)"
    ),
}


def _multisets(values, n):
    return list(itertools.combinations_with_replacement(values, n))


def _chunks(lst, k):
    lst = list(lst)
    size = max(1, -(-len(lst) // k))
    return [lst[i : i + size] for i in range(0, len(lst), size)]


def _plan(tier, seed):
    quick = tier == "quick"
    tasks = []
    B = {}
    # arithmetic helpers
    tasks.append((_int_scale_task, (12, 12) if quick else (40, 40)))
    B["int-scale"] = f"val_range 2..{12 if quick else 40}, out_range 1..{12 if quick else 40}, every val in range"
    av = range(0, 13) if quick else range(0, 25)
    aligns = ["left", "center", "right", *range(0, 101, 10)]
    amax = 14 if quick else 27
    sizes = [("given", g, None) for g in range(0, amax)]
    sizes += [("relative", p, mn) for p in (*range(0, 101, 10), 150) for mn in ((None, 0, 3, 20) if quick else (None, 0, 1, 3, 8, 30))]
    mg = 3 if quick else 4
    margins = [(a, b) for a in range(mg) for b in range(mg)]
    for fn in ("lr", "tb"):
        sz = sizes + ([("clip", g, None) for g in range(0, amax)] if fn == "lr" else [])
        for ch in _chunks(list(av), 4 if quick else 16):
            tasks.append((_calc_task, (fn, ch, aligns, sz, margins)))
    B["calc-left-right"] = B["calc-top-bottom"] = f"available 0..{av[-1]}, aligns left/center/right + relative 0..100 step 10, given (and clip) sizes 0..{amax - 1}, relative 0..100 step 10 and 150 with min None/0/3/20{'' if quick else '/1/8/30'}, fixed margins 0..{mg - 1} each"

    # Columns
    if quick:
        opts = [("given", 1), ("given", 3), ("packF", 2), ("packL", 3), ("weight", 1), ("weight", 2), ("weight", 3)]
        nmax, ds, ms, mcs = 3, (0, 1, 2), (1, 2), range(0, 15)
    else:
        opts = [("given", g) for g in (1, 2, 3, 4, 6)] + [("packF", 1), ("packF", 3), ("packF", 5), ("packL", 2), ("packL", 6), ("packB", 4)] + [("weight", w) for w in (1, 2, 3, 4, 6)]
        nmax, ds, ms, mcs = 4, (0, 1, 2), (1, 2, 3), range(0, 25)
    lists = [l for n in range(1, min(nmax, 3) + 1) for l in itertools.product(opts, repeat=n)]
    for ch in _chunks(lists, 8 if quick else 48):
        tasks.append((_columns_task, (ch, ds, ms, mcs)))
    opts4 = [("given", 1), ("given", 3), ("given", 6), ("packF", 2), ("packL", 4), ("packB", 3), ("weight", 1), ("weight", 2), ("weight", 3), ("weight", 5)]
    if nmax >= 4:
        for ch in _chunks(list(itertools.product(opts4, repeat=4)), 160):
            tasks.append((_columns_task, (ch, (0, 1), (1, 2), mcs)))
    B["columns-widths"] = (
        f"every ordered list of 1..3 columns over {len(opts)} options {opts}, dividechars {list(ds)}, min_width {list(ms)}, every focus position, maxcol 0..{mcs[-1]}; "
        + (f"every ordered list of 4 columns over {opts4}, dividechars 0..1, min_width 1..2; " if nmax >= 4 else "")
        + "+ weighted-only lists of the proportional check; + seeded random lists (see there)"
    )
    wvals = (1, 2, 3, 5, 9) if quick else tuple(range(1, 10))
    wn = 6
    wlists = [l for n in range(2, wn + 1) for l in _multisets(wvals, n)]
    wmc = range(0, 31) if quick else range(0, 41)
    wds, wms = ((0,), (1, 2)) if quick else ((0, 1), (1, 2, 3))
    # lists already enumerated above (same dividechars / min_width / focus 0) are not counted twice
    w3 = {a for k, a in opts if k == "weight"}
    w4 = {a for k, a in opts4 if k == "weight"} if nmax >= 4 else set()
    covered = {l: (mcs[-1], tuple(ms)) for l in wlists if len(l) <= 3 and set(l) <= w3}
    covered.update({l: (mcs[-1], (1, 2)) for l in wlists if len(l) == 4 and set(l) <= w4})
    for ch in _chunks(wlists, 4 if quick else 32):
        tasks.append((_columns_weights_task, (ch, wds, wms, wmc, {l: covered[l] for l in ch if l in covered})))
    rc = (8, 250, 7, 12, 20, 60) if quick else (32, 2500, 8, 15, 30, 120)
    for k in range(rc[0]):
        tasks.append((_columns_random_task, (seed * 1000 + k, *rc[1:])))
    B["columns-proportional"] = (
        f"the lists of columns-widths, plus every multiset of 2..{wn} weights from {list(wvals)} (weighted-only, dividechars {list(wds)}, min_width {list(wms)}, maxcol 0..{wmc[-1]}), "
        f"plus {rc[0] * rc[1]} seeded random lists of 1..{rc[2]} columns (amounts <= {rc[3]}, weights <= {rc[4]}, 4 widths <= {rc[5]} each, dividechars <= 3, min_width <= 4); judged where >= 2 weighted columns are shown and no exact share is below min_width"
    )
    copts = [("given", 2, "flow"), ("given", 3, "box"), ("pack", 2, "fixed"), ("pack", 3, "flow"), ("weight", 1, "flow"), ("weight", 2, "box")]
    if not quick:
        copts += [("given", 5, "flow"), ("weight", 3, "flow"), ("pack", 4, "fixed")]
    csizes = [(mc,) for mc in (range(0, 11) if quick else range(0, 17))] + [(mc, 3) for mc in (range(0, 11, 2) if quick else range(0, 17))]
    for n in range(1, 4):
        cdm = ((1,), (1,)) if quick and n == 3 else ((0, 1), (1, 2))
        for ch in _chunks(list(itertools.product(copts, repeat=n)), (1, 1, 8)[n - 1] if quick else (1, 4, 48)[n - 1]):
            tasks.append((_columns_children_task, (ch, *cdm, csizes)))
    B["columns-children"] = f"every ordered list of 1..3 columns over {copts}, dividechars 0..1, min_width 1..2{' (1 and 1 for 3 columns)' if quick else ''}, every focus, sizes (c,) and - for all-box lists - (c,3), c up to {csizes[-1][0]}"

    # Pile
    popts = [("given", 1), ("given", 2), ("given", 4), ("packL", 1), ("packL", 3), ("weight", 1), ("weight", 2), ("weight", 3)]
    if not quick:
        popts += [("given", 6), ("weight", 5), ("packL", 2)]
    pn = 3 if quick else 4
    plists = [l for n in range(1, pn + 1) for l in itertools.product(popts, repeat=n) if any(k == "weight" for k, _a in l)]
    pmr = range(0, 13) if quick else range(0, 25)
    for ch in _chunks(plists, 8 if quick else 64):
        tasks.append((_pile_task, (ch, pmr, 6 if quick else 12, 3)))
    B["pile-rows"] = f"every ordered list of 1..{pn} items over {popts} with at least one weighted item, every focus, maxrow 0..{pmr[-1]} (maxcol {PILE_COLS}); + the weighted-only lists of pile-proportional"
    B["pile-fits-available"] = B["pile-children"] = f"the same lists up to 3 items, maxrow 0..{6 if quick else 12}; pile-fits counts as non-trivial the cases whose fixed rows overflow"
    pw_ordered = [l for n in range(2, 5 if quick else 6) for l in itertools.product((1, 2, 3, 5, 9) if quick else (1, 2, 3, 4, 5, 7, 9), repeat=n)]
    pw_sorted = [l for n in range(5 if quick else 6, 7) for ms_ in _multisets(wvals, n) for l in {ms_, ms_[::-1]}]
    pw3 = {a for k, a in popts if k == "weight"}
    pcovered = {l: pmr[-1] for l in pw_ordered if len(l) <= pn and set(l) <= pw3}  # already in pile-rows' lists
    pwmr = range(0, 31) if quick else range(0, 41)
    for ch in _chunks(pw_ordered + pw_sorted, 4 if quick else 32):
        tasks.append((_pile_weights_task, (ch, pwmr, {l: pcovered[l] for l in ch if l in pcovered})))
    B["pile-proportional"] = f"the lists of pile-rows, plus weighted-only piles: every ordered tuple of 2..{4 if quick else 5} weights from {[1, 2, 3, 5, 9] if quick else [1, 2, 3, 4, 5, 7, 9]} and every ascending/descending multiset of {5 if quick else 6}..6 weights from {list(wvals)}, maxrow 0..{pwmr[-1]}"
    pf = [l for n in range(1, 4) for l in itertools.product([("packF", 1), ("packF", 3), ("weight", 1), ("weight", 2), ("given", 2)], repeat=n) if any(k == "weight" for k, _a in l) and any(k == "packF" for k, _a in l)]
    tasks.append((_pile_fixed_task, (pf, range(0, 9))))
    B["pile-packed-fixed-child"] = "every ordered list of 1..3 items over packF 1/3 rows, weight 1/2, given 2 containing a packed fixed child and a weighted item; maxrow 0..8"

    # zero amounts
    zopts = [("given", 0), ("given", 2), ("weight", 0), ("weight", 2), ("packF", 0)]
    zlists = [l for n in range(1, 4) for l in itertools.product(zopts[:4], repeat=n)] + [l for n in range(1, 3) for l in itertools.product(zopts, repeat=n) if ("packF", 0) in l]
    for ch in _chunks(zlists, 4):
        tasks.append((_zero_task, (ch, (0, 1), (1, 2), range(0, 9 if quick else 13))))
    B["zero-amounts"] = f"Columns and box Pile, every ordered list of 1..3 items over given 0/2, weight 0/2 (and packed fixed child of width 0 for Columns, 1..2 items) containing a zero; dividechars 0..1, min_width 1..2, every focus, available 0..{8 if quick else 12}"

    # decorations
    paligns, pmargins, psizes, pmaxcols = _padding_configs(tier)
    for ch in _chunks(paligns, len(paligns)):
        tasks.append((_padding_task, (ch, pmargins, psizes, pmaxcols)))
    B["padding-values"] = f"aligns {paligns}; widths given/pack/relative/clip x children {[(w, m, c, cw) for w, m, c, cw in psizes][:6]}... ({len(psizes)} width/min/child settings); left,right 0..{2 if quick else 3}; maxcol 0..{pmaxcols[-1]} as (c,), (c,2) for box children, () for fixed"
    tasks.append((_padding_pack_min_task, (["left", "center", "right", 30], [(0, 0), (1, 0), (1, 2)], range(0, 13 if quick else 25))))
    B["padding-pack-min-width"] = "aligns left/center/right/30%, margins (0,0),(1,0),(1,2), child packs to 1 or 3, min_width 2 or 5, maxcol 0..12 (24 thorough)"
    faligns = paligns
    fheights = [(g, None, 0) for g in ((0, 1, 3, 6) if quick else range(0, 8))] + [("pack", None, a) for a in (3, 10)]
    fheights += [(["relative", p], mn, 0) for p in ((0, 30, 50, 100) if quick else range(0, 101, 10)) for mn in ((None, 2, 5) if quick else (None, 0, 2, 5, 30))]
    for ch in _chunks(faligns, len(faligns)):
        tasks.append((_filler_task, (ch, pmargins, fheights, pmaxcols)))
    B["filler-values"] = f"valigns {faligns} (as top/middle/bottom/relative); {len(fheights)} height/min/child settings (given, pack with flow child of 3 or 10 cells, relative); top,bottom 0..{2 if quick else 3}; size (4, r) r 0..{pmaxcols[-1]} and (4,) where Filler is a flow widget"
    oa = _overlay_axis(tier)
    for al in oa[0]:
        tasks.append((_overlay_task, (tier, "h", [al])))
        tasks.append((_overlay_task, (tier, "v", [al])))
    B["overlay-values"] = f"one axis in full (aligns {oa[0]}, margins {oa[1][:4]}.., sizes given/relative(+min)/pack) against 3 settings of the other axis; fixed, flow (rows = ceil(area/width)) and box top widgets; available 0..{7 if quick else 16} on the full axis"
    if quick:
        g = ((1, 3, 5), (1, 2, 3, 5), (0, 1, 2), (0, 2), ["left", "center", 30], range(1, 11))
    else:
        g = (range(1, 7), range(1, 7), (0, 1, 2), (0, 1, 2), ["left", "center", "right", 30], range(1, 21))
    for n in g[0]:
        tasks.append((_gridflow_task, ((n,), *g[1:])))
    B["gridflow-layout"] = f"cells {list(g[0])} (flow stubs of 1 or 2 rows), cell_width {list(g[1])}, h_sep {list(g[2])}, v_sep {list(g[3])}, align {g[4]}, focus first/last, render(()) and render((c,)) c 1..{g[5][-1]}"
    return tasks, B


def _run_task(t):
    fn, args = t
    t0 = time.process_time()
    with warnings.catch_warnings():
        warnings.simplefilter("ignore")
        out = fn(args)
    CanvasCache.clear()
    return out, time.process_time() - t0  # CPU seconds of the worker (wall is meaningless on a loaded box)


def run(tier="quick", seed=0):
    t0 = time.time()
    tasks, bounds = _plan(tier, seed)
    procs = max(1, min(16, os.cpu_count() or 1))
    if procs > 1 and not multiprocessing.current_process().daemon:
        with multiprocessing.get_context("fork").Pool(procs) as pool:
            parts = pool.map(_run_task, tasks, chunksize=1)
    else:
        parts = [_run_task(t) for t in tasks]
    total = {k: Tally() for k in RULES}
    cpu = dict.fromkeys(RULES, 0.0)
    for out, dt in parts:  # merged in task order: deterministic
        for k, t in out.items():
            total[k].merge(t)
            cpu[k] += dt / len(out)
    wall = time.time() - t0
    checks = []
    for k, rule in RULES.items():
        exhaustive = k not in ("columns-widths", "columns-proportional")  # these two add seeded random lists
        res = _result(f"C19/{k}", rule, exhaustive, bounds.get(k, ""), total[k], cpu[k])
        checks.append(res)
    return {
        "checks": checks,
        "bound": "; ".join(f"{k}: {v}" for k, v in bounds.items() if k in ("columns-widths", "pile-rows", "calc-left-right", "gridflow-layout")),
        "wall_s": round(wall, 2),
    }


_EVAL = {
    "int_scale": lambda name, c: eval_int_scale(c),
    "calc": lambda name, c: eval_calc(c),
    "columns": lambda name, c: eval_columns_prop(c) if name.endswith("proportional") else eval_columns(c),
    "columns_children": lambda name, c: eval_columns_children(c),
    "pile": lambda name, c: eval_pile(c, {"pile-rows": "rows", "pile-proportional": "proportional", "pile-fits-available": "fits", "pile-children": "children"}.get(name.split("/", 1)[-1], "rows")),
    "zero": lambda name, c: eval_zero(c),
    "padding": lambda name, c: eval_padding(c),
    "padding_pack_min": lambda name, c: eval_padding_pack_min(c),
    "filler": lambda name, c: eval_filler(c),
    "overlay": lambda name, c: (lambda r: (r[2] if name.endswith("overlay-render") and not r[0] else r[0], r[1]))(eval_overlay(c)),
    "gridflow": lambda name, c: eval_gridflow(c),
}


def replay(check_name, case):
    """Re-run one recorded case on fresh widgets."""
    with warnings.catch_warnings():
        warnings.simplefilter("ignore")
        if check_name.endswith("pile-packed-fixed-child"):
            bad, obs = eval_pile(case, "rows")
            if not bad:
                bad, obs = eval_pile(case, "children")
        else:
            bad, obs = _EVAL[case["kind_"]](check_name, case)
    CanvasCache.clear()
    return {"outcome": "confirmed" if bad else "not-reproduced", "detail": {"why": _why(bad), "observed": obs}}
