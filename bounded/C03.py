"""C03 bounded stand-in: every short text over the character classes {narrow, space, newline, wide,
zero-width} x width x wrap mode x alignment x encoding x str/bytes, laid out and rendered by the real
`urwid.Text`, judged by a reference model written from the property statement (spec/text_model.py).

Observed: `Text.get_line_translation(w)` (= `StandardTextLayout.layout(...)`), `Text.render((w,)).text`,
`Text.rows((w,))` (before and after the render), `Text.pack((w,))`.

Clauses -> checks (each a separate Check, so one red clause does not hide the others):
  no-exception, shown-once-in-order, hidden-only-permitted, fits-width, any-fills-line,
  space-breaks-at-spaces (+ the same clause restricted to breaks next to a double-width character),
  alignment-and-rendered-rows, clip-window, ellipsis-mark, rows-equals-lines, undisplayable-empty-line,
  natural-size (strengthened, seed C01-e2: FIXED sizing, no width -- pack(()) / pack() against the model's newline-delimited
  lines incl. the empty line a trailing newline opens, render(()) against pack(()); once per text x wrap x alignment),
  unencodable-str (texts whose characters the target encoding cannot represent; see the note there),
  history-independent (+ /random): the clause "the row count reported for a width equals the number of lines rendered
  at that width" over HISTORIES of calls on ONE widget -- see the section "histories" below.

Oracle formulations (DESIGN.md, C03, corrected false alarms are heeded):
  * clip/ellipsis: the layout keeps the whole line, the cut happens when it is applied, so "fits" and
    "what is hidden" are judged on the rendered row (reference: a window over the line's cell grid).
  * a space-mode break is "at a space" when the character before or after the break is a space, or a
    space was consumed by it.
  * "the single space consumed at each wrap point": every hidden space is consumed by its own wrap
    point (a line boundary that is not a newline); `'a  a'` at width 1 hides two spaces at two wrap points.
  * "lines made solely of zero-width characters" is read on laid-out lines: a hidden run of zero-width
    characters must be a whole laid-out line of its own (it starts at the text start or after a line
    break -- newline, consumed space or plain wrap -- and ends at a line break or the text end); a hidden
    zero-width character on the same laid-out line as a shown character is a violation.
  * "text that cannot be displayed at all": a text containing a character wider than the width, in the
    wrapping modes; the whole text then gives one empty line (tests/test_text_layout.py pins `[[]]`).
    In clip/ellipsis mode the same text is judged by the window rule (the cut character is blank).
  * clip with center/right alignment of a line that is too long: the alignment formula is applied to the
    negative spare, i.e. the window shows the middle / the end of the line (tests pin `(-3, None)` shifts).
  * a zero-width character is shown iff the character it combines with is shown; zero-width characters
    at the very start of a line (nothing to combine with) may or may not be shown when the line is cut.
  * ellipsis: an over-long line is a full row (prefix, mark, at most one blank left by a double-width
    character, on either side of the mark) and is not moved by the alignment; where the width has no room
    for one text column plus the encoding's own mark, plain clipping is accepted as well.
  * a red `space-breaks-at-spaces/next-to-wide-char` is the literal statement ("breaks only at spaces
    whenever every word fits", word = run of non-space characters) against urwid's CJK rule that a line
    may break before/after any double-width character; it is kept apart so that the decision on it does
    not blur the clause for ordinary words.  Its failure detail carries `wide_breaks`: which of urwid's two CJK
    rules explains the offending breaks ('before-wide', 'after-wide', see _wide_break_kind) or 'other'; the known
    finding C03-KF1 covers the first two only.  `random-long-texts` reports a case under its first red clause, this
    clause last, so that the known finding cannot absorb a case that breaks something else as well.
The `[...]` label in a "raised" reason and the `failure_summary` are diagnostics, not part of the oracle.
"""
from __future__ import annotations

import itertools
import multiprocessing
import os
import re
import time
import traceback

import urwid
from urwid import Text
from urwid.canvas import CanvasCache
from urwid.util import get_encoding, set_encoding

from bounded.common import Check, rng
from spec.text_model import NARROW, NARROW_LATIN1, TextModel, aligned_row, decode_row, ellipsis_rows, window_rows

WRAPS = ("any", "space", "clip", "ellipsis")
ALIGNS = ("left", "center", "right")

# (encoding, urwid byte-encoding mode, bytes text?, character classes, pool of narrow letters)
CONFIGS = (
    ("utf-8", "utf8", False, "nslwz", NARROW),
    ("utf-8", "utf8", True, "nslwz", NARROW),
    ("euc-jp", "wide", False, "nslw", NARROW),
    ("euc-jp", "wide", True, "nslw", NARROW),
    ("iso8859-1", "narrow", False, "nsl", NARROW_LATIN1),
    ("iso8859-1", "narrow", True, "nsl", NARROW_LATIN1),
)
# str texts with characters the target encoding cannot represent (shown as '?')
UNENCODABLE = (
    ("iso8859-1", "narrow", False, "nslwz", NARROW),
    ("euc-jp", "wide", False, "nslwz", NARROW),
)

CLAUSES = {
    "no-exception": "layout, render, rows and pack raise nothing for any text/width/wrap/alignment/encoding",
    "shown-once-in-order": "the layout's text segments are well-formed (character boundaries, 0 < columns = sum of character widths) and strictly increasing: every character at most once, in the original order",
    "hidden-only-permitted": "wrapping modes: the characters in no segment are only newlines, one space per wrap point, and laid-out lines made solely of zero-width characters; every newline breaks the line",
    "fits-width": "every rendered row is exactly `width` columns by the model's own width table; in the wrapping modes every laid-out line's characters fit in the width",
    "any-fills-line": "'any' mode: at every wrap point the line's columns plus the next character's exceed the width",
    "space-breaks-at-spaces": "'space' mode, every word fits: every wrap point consumed a space or has a space before or after it (breaks with a double-width character next to them are judged in the next check)",
    "space-breaks-at-spaces/next-to-wide-char": "same clause, only the breaks that have a double-width character immediately before or after them",
    "alignment-and-rendered-rows": "wrapping modes: each rendered row is exactly pad + the characters the layout assigns to that line + fill, pad = 0 / ceil(spare/2) / spare",
    "clip-window": "clip mode: row i shows newline-delimited line i through a width-wide window placed by the alignment (prefix / middle / suffix when too long); cut double-width characters are blank",
    "ellipsis-mark": "ellipsis mode: a line that fits is shown aligned; otherwise the longest prefix that leaves room for the mark, then the mark (the encoding's ellipsis or dots)",
    "rows-equals-lines": "rows((w,)) before and after the render = len(render((w,)).text) = pack((w,))[1] = len(layout)",
    "natural-size": "no width given (FIXED sizing, size ()): pack(()) reports the columns of the widest newline-delimited line (model's width table) and one row per newline-delimited line -- a trailing newline opens a last, empty line -- and render(()) is exactly that canvas: the row count reported equals the lines rendered; rows((cols,)) at that natural width agrees (cols >= 1)",
    "undisplayable-empty-line": "wrapping modes, a character wider than the width: exactly one empty line, no error",
    "history-independent": "one widget measured through a history -- rows / pack / render / get_line_translation at width w1, optionally set_text / set_wrap_mode / set_align_mode / set_layout, then rows / pack / render / get_line_translation at width w2, then once more at w2 -- answers every time exactly what a fresh widget with the current text and modes answers (whose row count = rendered lines is rows-equals-lines above)",
    "unencodable-str": "str texts with characters outside the target encoding: no exception, every row exactly `width` columns, rows = lines (auxiliary: the statement's 'characters shown' cannot hold for characters the terminal encoding lacks)",
}


def _signature(d):
    """Failures are grouped by configuration + wrap + alignment + the shape of the reason, so that the 20
    reported failures show every kind of failure (shortest text of each kind) rather than 20 of one kind."""
    why = re.sub(r"b?'[^']*'|b?\"[^\"]*\"|[0-9]+", "#", d.get("why", ""))
    return f"{d.get('clause', '')}|{d['enc']}|{'bytes' if d['bytes'] else 'str'}|{d['wrap']}|{d['align']}|{why[:70]}"


class Tally:
    """Per-clause counters that can be merged across worker processes (cases are enumerated without
    repetition, so the number of distinct cases is the number of nontrivial evaluations)."""

    def __init__(self):
        self.ev = 0
        self.nt = 0
        self.failed = 0
        self.by_sig = {}  # signature -> [count, smallest failing detail]
        self.samples = []

    def case(self, ok, detail_fn, nontrivial=True, sample=None):
        self.ev += 1
        if nontrivial:
            self.nt += 1
            if sample is not None and len(self.samples) < 3:
                self.samples.append(sample)
        if not ok:
            self.failed += 1
            d = detail_fn()
            self._add(_signature(d), 1, d)

    def _add(self, sig, count, d):
        cur = self.by_sig.get(sig)
        if cur is None:
            if len(self.by_sig) < 400:
                self.by_sig[sig] = [count, d]
            return
        cur[0] += count
        if (len(d["classes"]), d["width"], d["classes"]) < (len(cur[1]["classes"]), cur[1]["width"], cur[1]["classes"]):
            cur[1] = d

    def merge(self, other):
        self.ev += other.ev
        self.nt += other.nt
        self.failed += other.failed
        for sig, (count, d) in other.by_sig.items():
            self._add(sig, count, d)
        self.samples = (self.samples + other.samples)[:3]

    @property
    def failures(self):
        """At most 20: first the smallest case of every (clause, wrap, reason shape), then the smallest
        cases of the remaining (encoding, str/bytes, alignment) variants."""
        ds = sorted(self.by_sig.items(), key=lambda kv: (len(kv[1][1]["classes"]), kv[1][1]["width"], kv[0]))
        first, rest, seen = [], [], set()
        for sig, (count, d) in ds:
            parts = sig.split("|", 5)
            coarse = (parts[0], parts[3], parts[5])
            (rest if coarse in seen else first).append(dict(d, same_kind_failures=count))
            seen.add(coarse)
        return (first + rest)[:20]

    @property
    def summary(self):
        """Failed evaluations per (clause, wrap mode, reason shape), all encodings/alignments together."""
        agg = {}
        for sig, (count, _d) in self.by_sig.items():
            parts = sig.split("|", 5)
            key = " | ".join(x for x in (parts[0], parts[3], parts[5]) if x)
            agg[key] = agg.get(key, 0) + count
        return dict(sorted(agg.items(), key=lambda kv: -kv[1]))


class MergedCheck(Check):
    def __init__(self, name, rule, exhaustive, bound, tally, wall):
        super().__init__(name, rule, exhaustive, bound)
        self.tally = tally
        self.wall = wall

    def result(self):
        r = super().result()
        r.update(evaluations=self.tally.ev, distinct_nontrivial=self.tally.nt, failures=self.tally.failures, samples=self.tally.samples, wall_s=round(self.wall, 2), failed_evaluations=self.tally.failed, failure_kinds=len(self.tally.by_sig), failure_summary=self.tally.summary)
        return r


# ------------------------------------------------------------------------------------------------
# observation
# ------------------------------------------------------------------------------------------------
def observe(m, width, wrap, align):
    """Run the real code. Returns dict(layout, rows, nrows_before, nrows_after, pack) or dict(exc=...)."""
    got = {}
    try:
        # a fresh layout object call: the widget's cached layout must be nothing special
        got["layout2"] = urwid.default_layout.layout(m.text, width, align, wrap)
        t = Text(m.text, align=align, wrap=wrap)
        before = t.rows((width,))
        canv = t.render((width,))
        rows = list(canv.text)
        after = t.rows((width,))
        pk = t.pack((width,))
        layout = t.get_line_translation(width)
    except Exception as e:  # noqa: BLE001  -- an exception is itself the observation
        frames = [f for f in traceback.extract_tb(e.__traceback__) if "urwid" in f.filename]
        where = " <- ".join(f"{os.path.basename(f.filename)}:{f.lineno} {f.name}" for f in reversed(frames[-3:]))
        got["exc"] = f"{type(e).__name__}: {' '.join(str(e).split())[:120]} [at {where}]"
        return got
    got.update(layout=layout, rows=rows, before=before, after=after, pack=pk)
    return got


def parse_layout(m, layout):
    """-> (lines, problems); lines = list of dict(shift, ranges=[(a,b) char indices], other_cols, inserts)."""
    lines = []
    problems = []
    for li, line in enumerate(layout):
        d = {"shift": 0, "ranges": [], "other_cols": 0, "inserts": []}
        for seg in line:
            if len(seg) == 2:
                if seg[1] is None:
                    d["shift"] += seg[0]
                else:
                    if seg[0] < 0:
                        problems.append(f"line {li}: negative pad segment {seg!r}")
                    d["other_cols"] += seg[0]
            elif isinstance(seg[2], bytes):
                d["inserts"].append(seg[2])
                d["other_cols"] += seg[0]
            else:
                sc, s, e = seg
                if s not in m.off2idx or e not in m.off2idx:
                    problems.append(f"line {li}: segment {seg!r} does not start/end on a character boundary")
                    continue
                a, b = m.off2idx[s], m.off2idx[e]
                if not a < b:
                    problems.append(f"line {li}: empty or reversed text segment {seg!r}")
                    continue
                if sc != m.cols(a, b) or sc <= 0:
                    problems.append(f"line {li}: segment {seg!r} claims {sc} columns, its characters take {m.cols(a, b)}")
                d["ranges"].append((a, b))
        lines.append(d)
    return lines, problems


def walk(m, lines):
    """Attribute every character to a laid-out line or to a permitted way of being hidden.
    -> (boundaries, problems). boundaries[k] describes the boundary after line k:
       ('nl', p) | ('wrap', p, consumed_space: bool) with p = index of the character after the boundary."""
    shown = [False] * m.n
    for d in lines:
        for a, b in d["ranges"]:
            for i in range(a, b):
                shown[i] = True
    problems = []
    bounds = []
    p = 0
    last = len(lines) - 1
    for k, d in enumerate(lines):
        if d["ranges"]:
            s = d["ranges"][0][0]
            if p < s:
                problems.append(f"characters {p}..{s - 1} ({m.classes[p:s]!r}) are hidden but are not a newline, a space consumed at a wrap point or a laid-out line of zero-width characters")
            for (_a, b), (a2, _b2) in zip(d["ranges"], d["ranges"][1:]):
                if a2 > b:
                    problems.append(f"characters {b}..{a2 - 1} are skipped inside laid-out line {k}")
            p = max(p, d["ranges"][-1][1])
        else:
            # a laid-out line with no segment may stand for a run of zero-width characters (a line made
            # solely of zero-width characters); what ends it is judged like any other line end below
            while p < m.n and m.kind[p] == "z" and not shown[p]:
                p += 1
        if k < last:
            if p < m.n and m.kind[p] == "l":
                bounds.append(("nl", p + 1))
                p += 1
            elif p < m.n and m.kind[p] == "s" and not shown[p]:
                bounds.append(("wrap", p + 1, True))
                p += 1
            else:
                bounds.append(("wrap", p, False))
    if p < m.n:
        problems.append(f"characters {p}..{m.n - 1} ({m.classes[p:]!r}) are hidden after the last line but are not of a permitted kind")
    return bounds, problems


# ------------------------------------------------------------------------------------------------
# one case, all clauses
# ------------------------------------------------------------------------------------------------
def _cause(exc):
    """Diagnostic label only (groups the reported failures by root cause); not part of the oracle."""
    mo = re.match(r"ValueError: \((-?\d+), (\d+), (\d+)\)", exc)
    if mo and "text_layout.py" in exc:
        if mo.group(2) == mo.group(3):
            return "LayoutSegment rejects a text segment with no characters: only the cut half of a double-width character is inside the window"
        return "LayoutSegment rejects a 0-column text segment made of zero-width characters"
    if exc.startswith("CanvasError") and "wider than the maxcol" in exc:
        return "the rendered row is wider than the width"
    return "other"


KF1_CLAUSE = "space-breaks-at-spaces/next-to-wide-char"


def _wide_break_kind(m, lines, k, p, width):
    """Which of urwid's two CJK line-breaking rules (known finding C03-KF1) explains the break after laid-out
    line k, in front of character p.  A label for the failure detail (`wide_breaks`), not part of the oracle:
      'before-wide'  the character after the break is double-width and is the first one that does not fit
                     ('perfect next wide' in calculate_text_segments);
      'after-wide'   the character before the break is double-width and no later break opportunity exists: from
                     the break up to and including the first character that does not fit there is no space and no
                     double-width character ('wrap after wide char');
      'other'        neither -- a break next to a double-width character that the CJK rules do not explain."""
    lw = sum(m.cols(a, e) for a, e in lines[k]["ranges"])
    if p < m.n and m.kind[p] == "w" and lw + m.width[p] > width:
        return "before-wide"
    if p > 0 and m.kind[p - 1] == "w":
        q, c = p, lw
        while q < m.n and m.kind[q] in "nz" and c + m.width[q] <= width:
            c += m.width[q]
            q += 1
        if q < m.n and m.kind[q] in "nz":
            return "after-wide"
    return "other"


def judge(m, mode, width, wrap, align, obs=None):
    """-> dict clause -> (ok, nontrivial, why). Only the clauses that apply to the case are present."""
    if obs is None:
        obs = observe(m, width, wrap, align)
    out = {}
    if "exc" in obs:
        out["no-exception"] = (False, True, f"raised [{_cause(obs['exc'])}] {obs['exc']}")
        return out, obs
    out["no-exception"] = (True, True, "")
    layout, rows = obs["layout"], obs["rows"]

    ok = obs["before"] == obs["after"] == len(rows) == obs["pack"][1] == len(layout) and obs["layout2"] == layout
    out["rows-equals-lines"] = (ok, len(rows) > 1, f"rows before render {obs['before']}, after {obs['after']}, rendered {len(rows)}, pack {obs['pack']}, layout lines {len(layout)}, fresh layout equal: {obs['layout2'] == layout}")

    wrapping = wrap in ("any", "space")
    widths = [decode_row(r, mode, m.enc) for r in rows]

    if wrapping and m.max_char_width > width:
        ok = len(layout) == 1 and not any(len(seg) == 3 for seg in layout[0]) and rows == [b" " * width]
        out["undisplayable-empty-line"] = (ok, True, f"expected one empty line, got layout {layout!r} rows {rows!r}")
        return out, obs

    lines, problems = parse_layout(m, layout)
    flat = [r for d in lines for r in d["ranges"]]
    for (_a, b), (a2, _b2) in zip(flat, flat[1:]):
        if a2 < b:
            problems.append(f"segment starting at character {a2} follows one ending at {b}: shown twice or out of order")
    out["shown-once-in-order"] = (not problems, bool(flat), "; ".join(problems))
    malformed = bool(problems)  # the layout-level clauses need a well-formed layout; the rendered-row clauses do not

    fit_problems = [f"row {i} {r!r} is {w} columns" for i, (r, w) in enumerate(zip(rows, widths)) if w != width]

    if wrapping and not malformed:
        for k, d in enumerate(lines):
            c = sum(m.cols(a, b) for a, b in d["ranges"]) + d["other_cols"]
            if c > width:
                fit_problems.append(f"laid-out line {k} takes {c} columns")
        bounds, hidden_problems = walk(m, lines)
        n_wraps = sum(1 for b in bounds if b[0] == "wrap")
        n_nl = sum(1 for b in bounds if b[0] == "nl")
        if n_nl != m.classes.count("l"):
            hidden_problems.append(f"{m.classes.count('l')} newlines but {n_nl} newline line breaks")
        hidden = m.n - sum(b - a for a, b in flat)
        out["hidden-only-permitted"] = (not hidden_problems, hidden > 0, "; ".join(hidden_problems))

        # rendered rows = pad + the line's characters + fill
        exp = []
        for d in lines:
            content = b"".join(m.shown_bytes(a, b) for a, b in d["ranges"])
            cc = sum(m.cols(a, b) for a, b in d["ranges"])
            exp.append(aligned_row(content, cc, width, align) if cc <= width and not d["inserts"] else None)
        ok = len(exp) == len(rows) and all(e is not None and e == r for e, r in zip(exp, rows))
        spare_somewhere = any(sum(m.cols(a, b) for a, b in d["ranges"]) < width for d in lines)
        out["alignment-and-rendered-rows"] = (ok, spare_somewhere and align != "left", f"expected rows {exp!r}, rendered {rows!r}")

        if not hidden_problems:
            if wrap == "any":
                bad = []
                for k, b in enumerate(bounds):
                    if b[0] != "wrap":
                        continue
                    lw = sum(m.cols(a, e) for a, e in lines[k]["ranges"])
                    p = b[1]
                    if p >= m.n:
                        bad.append(f"line {k} is followed by a wrap although no character is left")
                    elif lw + m.width[p] <= width:
                        bad.append(f"line {k} has {lw} of {width} columns used but the next character ({m.classes[p]!r}, {m.width[p]} columns) was wrapped")
                out["any-fills-line"] = (not bad, n_wraps > 0, "; ".join(bad))
            else:
                every_word_fits = all(w <= width for w in m.word_widths)
                if every_word_fits:
                    bad_plain, bad_wide, wide_kinds = [], [], set()
                    has_wide_break = False
                    for k, b in enumerate(bounds):
                        if b[0] != "wrap" or b[2]:
                            continue
                        p = b[1]
                        before = m.kind[p - 1] if p > 0 else None
                        after = m.kind[p] if p < m.n else None
                        at_space = before == "s" or after == "s"
                        next_to_wide = before == "w" or after == "w"
                        has_wide_break = has_wide_break or next_to_wide
                        if not at_space and next_to_wide:
                            wide_kinds.add(_wide_break_kind(m, lines, k, p, width))
                        if not at_space:
                            (bad_wide if next_to_wide else bad_plain).append(f"break after line {k} falls between characters {p - 1} ({before!r}) and {p} ({after!r}), inside a word, although every word fits (word widths {m.word_widths})")
                    out["space-breaks-at-spaces"] = (not bad_plain, n_wraps > 0, "; ".join(bad_plain))
                    if has_wide_break:
                        # the reason starts with the kinds of the offending breaks (see _wide_break_kind), so that
                        # failures the CJK rules do not explain form a group of their own (the signature is cut
                        # from the start of the reason) and the known finding C03-KF1 can be told apart from them
                        kinds = ",".join(sorted(wide_kinds))
                        if bad_wide:
                            obs["wide_breaks"] = kinds
                        out[KF1_CLAUSE] = (not bad_wide, True, f"[{kinds}] " + "; ".join(bad_wide) if bad_wide else "")
    elif not wrapping:
        ref = window_rows if wrap == "clip" else (lambda m_, a, b, w, al: ellipsis_rows(m_, a, b, w, al, mode))
        bad = []
        if len(rows) != len(m.lines):
            bad.append(f"{len(m.lines)} text lines but {len(rows)} rows")
        else:
            for i, ((a, b), r) in enumerate(zip(m.lines, rows)):
                acc = ref(m, a, b, width, align)
                if r not in acc:
                    bad.append(f"row {i} is {r!r}, acceptable: {sorted(acc)!r}")
        overflow = any(m.cols(a, b) > width for a, b in m.lines)
        out["clip-window" if wrap == "clip" else "ellipsis-mark"] = (not bad, overflow, "; ".join(bad))

    out["fits-width"] = (not fit_problems, True, "; ".join(fit_problems))
    return out, obs


def judge_natural(m, mode, wrap, align):
    """FIXED sizing (no width): pack(()) against the model's newline-delimited lines, render(()) against pack(()).
    -> (ok, nontrivial, why, obs)"""
    obs = {}
    try:
        t = Text(m.text, align=align, wrap=wrap)
        pk = tuple(t.pack(()))
        pk_none = tuple(Text(m.text, align=align, wrap=wrap).pack())
        canv = t.render(())
        rows = list(canv.text)
        size = (canv.cols(), canv.rows())
        after = tuple(t.pack(()))
        flow_rows = t.rows((pk[0],)) if pk[0] >= 1 else None
    except Exception as e:  # noqa: BLE001  -- an exception is itself the observation
        frames = [f for f in traceback.extract_tb(e.__traceback__) if "urwid" in f.filename]
        where = " <- ".join(f"{os.path.basename(f.filename)}:{f.lineno} {f.name}" for f in reversed(frames[-3:]))
        obs["exc"] = f"{type(e).__name__}: {' '.join(str(e).split())[:120]} [at {where}]"
        return False, True, f"raised {obs['exc']}", obs
    obs.update(rows=rows, pack=pk)
    want = (max(m.cols(a, b) for a, b in m.lines), len(m.lines))
    widths = [decode_row(r, mode, m.enc) for r in rows]
    bad = []
    if pk != want:
        bad.append(f"pack(()) = {pk}, the text has {want[1]} newline-delimited lines, the widest {want[0]} columns")
    if not (pk == pk_none == after):
        bad.append(f"pack(()) = {pk}, pack() = {pk_none}, pack(()) after the render = {after}")
    if size != pk or len(rows) != pk[1]:
        bad.append(f"pack(()) = {pk} but render(()) is a {size[0]} x {size[1]} canvas with {len(rows)} text rows")
    if any(w != size[0] for w in widths):
        bad.append(f"row widths {widths} in a canvas of {size[0]} columns")
    if flow_rows is not None and flow_rows != pk[1]:
        bad.append(f"rows(({pk[0]},)) = {flow_rows} at the natural width, pack(()) reports {pk[1]} rows")
    return not bad, len(m.lines) > 1, "; ".join(bad), obs


def natural_detail(cfg, m, wrap, align, why, obs):
    d = {"enc": cfg[0], "bytes": cfg[2], "classes": m.classes, "text": repr(m.text), "width": None, "wrap": wrap, "align": align, "why": why, "clause": "natural-size"}
    for k in ("rows", "pack", "exc"):
        if k in obs:
            d[k] = repr(obs[k])
    d["repro"] = f"urwid.set_encoding({cfg[0]!r}); t = urwid.Text({m.text!r}, align={align!r}, wrap={wrap!r}); t.pack(()), t.render(()).text"
    return d


def judge_unencodable(m, mode, width, wrap, align):
    obs = observe(m, width, wrap, align)
    if "exc" in obs:
        return False, f"raised [{_cause(obs['exc'])}] {obs['exc']}", obs
    ws = [decode_row(r, mode, m.enc) for r in obs["rows"]]
    ok = all(w == width for w in ws) and obs["before"] == obs["after"] == len(obs["rows"]) == len(obs["layout"])
    return ok, f"row widths {ws}, rows {obs['before']}/{obs['after']}/{len(obs['rows'])}", obs


def detail(cfg, m, width, wrap, align, why, obs, clause=None):
    d = {"enc": cfg[0], "bytes": cfg[2], "classes": m.classes, "text": repr(m.text), "width": width, "wrap": wrap, "align": align, "why": why}
    if clause:
        d["clause"] = clause
    for k in ("layout", "rows", "exc"):
        if k in obs:
            d[k] = repr(obs[k])
    if clause == KF1_CLAUSE and "wide_breaks" in obs:
        d["wide_breaks"] = obs["wide_breaks"]
    if "layout" not in obs and "layout2" in obs:
        d["layout"] = repr(obs["layout2"])
    d["repro"] = f"urwid.set_encoding({cfg[0]!r}); t = urwid.Text({m.text!r}, align={align!r}, wrap={wrap!r}); t.render(({width},)).text"
    return d


# ------------------------------------------------------------------------------------------------
# enumeration
# ------------------------------------------------------------------------------------------------
def _with_encoding(enc, fn):
    old = get_encoding()
    try:
        set_encoding(enc)
        return fn()
    finally:
        set_encoding(old)
        CanvasCache.clear()


def _texts(alphabet, length, prefix):
    for rest in itertools.product(alphabet, repeat=length - len(prefix)):
        yield prefix + "".join(rest)


def _task(args):
    """One shard: all texts of one config and length starting with `prefix`."""
    kind, ci, length, prefix, maxw, wraps = args
    cfg = (CONFIGS if kind == "main" else UNENCODABLE)[ci]
    enc, mode, as_bytes, alphabet, pool = cfg
    tallies = {c: Tally() for c in CLAUSES}

    def body():
        for classes in _texts(alphabet, length, prefix):
            m = TextModel(classes, enc, as_bytes, pool)
            if kind != "main" and not any(c in ("z" if mode == "wide" else "wz") for c in classes):
                continue  # representable text: already covered by the main configurations
            if kind == "main":
                # FIXED sizing: no width -- once per text x wrap x alignment
                for wrap in wraps:
                    for align in ALIGNS:
                        ok, nontrivial, why, obs = judge_natural(m, mode, wrap, align)
                        tallies["natural-size"].case(ok, lambda: natural_detail(cfg, m, wrap, align, why, obs), nontrivial, {"enc": enc, "bytes": as_bytes, "classes": classes, "width": None, "wrap": wrap, "align": align})  # noqa: B023
            for width in range(1, maxw + 1):
                for wrap in wraps:
                    for align in ALIGNS:
                        sample = {"enc": enc, "bytes": as_bytes, "classes": classes, "width": width, "wrap": wrap, "align": align}
                        if kind != "main":
                            ok, why, obs = judge_unencodable(m, mode, width, wrap, align)
                            tallies["unencodable-str"].case(ok, lambda: detail(cfg, m, width, wrap, align, why, obs), True, sample)  # noqa: B023
                            continue
                        res, obs = judge(m, mode, width, wrap, align)
                        for clause, (ok, nontrivial, why) in res.items():
                            tallies[clause].case(ok, lambda: detail(cfg, m, width, wrap, align, why, obs, clause=clause), nontrivial, sample)  # noqa: B023
            CanvasCache.clear()

    _with_encoding(enc, body)
    return tallies


def _random_task(args):
    seed, shard, count, maxlen, maxw = args
    r = rng(seed * 1000 + shard)
    tally = Tally()
    for _ in range(count):
        ci = r.randrange(len(CONFIGS))
        cfg = CONFIGS[ci]
        enc, mode, as_bytes, alphabet, pool = cfg
        # spaces and narrow letters dominate, as in prose; length beyond the exhaustive scope
        weights = {"n": 6, "s": 3, "l": 1, "w": 2, "z": 1}
        classes = "".join(r.choices(alphabet, [weights[c] for c in alphabet], k=r.randint(8, maxlen)))
        width = r.randint(1, maxw)
        wrap = r.choice(WRAPS)
        align = r.choice(ALIGNS)

        def body():
            m = TextModel(classes, enc, as_bytes, pool)  # noqa: B023
            res, obs = judge(m, mode, width, wrap, align)  # noqa: B023
            bad = [(c, why) for c, (ok, _nt, why) in res.items() if not ok]
            # one failure is reported per case, under its first red clause: the clause of the known finding
            # C03-KF1 goes last, so that a case that ALSO breaks another clause is reported under that one
            # and is not absorbed by the known finding
            bad.sort(key=lambda cw: cw[0] == KF1_CLAUSE)
            tally.case(not bad, lambda: detail(cfg, m, width, wrap, align, bad[0][1], obs, clause=bad[0][0]), True, {"enc": enc, "classes": classes, "width": width, "wrap": wrap, "align": align})  # noqa: B023

        _with_encoding(enc, body)
    return tally


# ------------------------------------------------------------------------------------------------
# histories: one widget measured several times
# ------------------------------------------------------------------------------------------------
# The statement's "the row count reported for a width equals the number of lines rendered at that width" speaks about
# a widget, not about a freshly constructed one: `Text` keeps the last layout it computed (`_cache_maxcol`,
# `_cache_translation`) and rows() / pack() / render() / get_line_translation() share it.  A history is a list of steps
# on ONE widget:
#     ("rows" | "pack" | "render" | "layout", width)          a measurement
#     ("set_text", classes) | ("set_wrap", mode) | ("set_align", mode) | ("set_layout", (align, wrap))   a mutation
# Oracle: every measurement answers exactly what a FRESH widget with the current text / modes answers at that width
# (the fresh widget's own answers are judged against the statement by the checks above, at the same widths).
# Width 1 is always among the widths: with a double-width character the text cannot be displayed there and the
# one-empty-line fallback is what gets cached.
MEASURES = ("rows", "pack", "render", "layout")
_FRESH_KEY = {"rows": "before", "pack": "pack", "render": "rows", "layout": "layout"}
ALT_TEXTS = ("", "w", "ww", "nsn", "nlw", "wsww")  # set_text() targets (restricted to the configuration's classes)


class Fresh:
    """Memo of what a fresh widget answers: (classes, wrap, align, width) -> observe(...)."""

    def __init__(self, cfg):
        self.cfg = cfg
        self.models = {}
        self.memo = {}

    def model(self, classes):
        m = self.models.get(classes)
        if m is None:
            m = self.models[classes] = TextModel(classes, self.cfg[0], self.cfg[2], self.cfg[4])
        return m

    def __call__(self, classes, wrap, align, width):
        k = (classes, wrap, align, width)
        o = self.memo.get(k)
        if o is None:
            o = self.memo[k] = observe(self.model(classes), width, wrap, align)
        return o


def _measure(t, op, w):
    if op == "rows":
        return t.rows((w,))
    if op == "pack":
        return t.pack((w,))
    if op == "render":
        return list(t.render((w,)).text)
    return [list(line) for line in t.get_line_translation(w)]


def run_history(fresh, classes, wrap, align, steps):
    """-> (ok, nontrivial, why, failing step index or None)"""
    t = Text(fresh.model(classes).text, align=align, wrap=wrap)
    cur = [classes, wrap, align]
    for i, (op, arg) in enumerate(steps):
        try:
            if op == "set_text":
                cur[0] = arg
                t.set_text(fresh.model(arg).text)
                continue
            if op == "set_wrap":
                cur[1] = arg
                t.set_wrap_mode(arg)
                continue
            if op == "set_align":
                cur[2] = arg
                t.set_align_mode(arg)
                continue
            if op == "set_layout":
                cur[2], cur[1] = arg
                t.set_layout(arg[0], arg[1])
                continue
            ref = fresh(cur[0], cur[1], cur[2], arg)
            if "exc" in ref:
                return True, False, "", None  # the fresh widget itself raises: no-exception reports that
            got = _measure(t, op, arg)
        except Exception as e:  # noqa: BLE001
            return False, True, f"step {i} {op}({arg!r}) raised {type(e).__name__}: {' '.join(str(e).split())[:100]}", i
        want = ref[_FRESH_KEY[op]]
        if op == "layout":
            want = [list(line) for line in want]
        if got != want:
            return False, True, (f"step {i}: {op} at width {arg} answered {got!r} after {[list(x) for x in steps[:i]]!r}; a fresh widget with the same text "
                                 f"({fresh.model(cur[0]).text!r}, wrap={cur[1]}, align={cur[2]}) answers {want!r} and renders {len(ref['rows'])} line(s)"), i
    return True, True, "", None


def hist_detail(cfg, fresh, classes, wrap, align, steps, why):
    m = fresh.model(classes)
    d = {"enc": cfg[0], "bytes": cfg[2], "classes": classes, "text": repr(m.text), "width": max([a for o, a in steps if o in MEASURES] or [0]), "wrap": wrap, "align": align,
         "history": [[o, list(a) if isinstance(a, tuple) else a] for o, a in steps], "why": why, "clause": "history-independent"}
    calls = []
    for o, a in steps:
        if o in ("rows", "pack"):
            calls.append(f"t.{o}(({a},))")
        elif o == "render":
            calls.append(f"t.render(({a},)).text")
        elif o == "layout":
            calls.append(f"t.get_line_translation({a})")
        elif o == "set_text":
            calls.append(f"t.set_text({fresh.model(a).text!r})")
        elif o == "set_wrap":
            calls.append(f"t.set_wrap_mode({a!r})")
        elif o == "set_align":
            calls.append(f"t.set_align_mode({a!r})")
        else:
            calls.append(f"t.set_layout({a[0]!r}, {a[1]!r})")
    d["repro"] = f"urwid.set_encoding({cfg[0]!r}); t = urwid.Text({m.text!r}, align={align!r}, wrap={wrap!r}); " + "; ".join(calls)
    return d


def _second_look(op):
    """After the answer under test, the same width is asked once more through another entry point."""
    return {"rows": "render", "render": "rows", "pack": "layout", "layout": "pack"}[op]


def measure_histories(widths):
    """(w1, op1), (w2, op2), (w2, the other entry point): op1 primes the cache through either route into
    get_line_translation (without / with the `ta` argument), op2 is every measurement."""
    for w1 in widths:
        for op1 in ("rows", "render"):
            for w2 in widths:
                for op2 in ("rows", "pack", "render"):
                    yield ((op1, w1), (op2, w2), (_second_look(op2), w2))


def mutation_histories(classes, wrap, align, widths, alphabet, k):
    """(w1, op1), one mutation, (w2, op2), (w2, the other entry point); w2 is w1 (the cached width: a missed
    invalidation shows) or the next width; op1 rotates with k."""
    alts = [x for x in ALT_TEXTS if x != classes and all(c in alphabet for c in x)]
    muts = [("set_wrap", x) for x in WRAPS if x != wrap] + [("set_align", x) for x in ALIGNS if x != align] + [("set_text", x) for x in alts]
    muts.append(("set_layout", (ALIGNS[(ALIGNS.index(align) + 1) % 3], WRAPS[(WRAPS.index(wrap) + 1) % 4])))
    for wi, w1 in enumerate(widths):
        for mi, mut in enumerate(muts):
            op1 = MEASURES[(k + wi + mi) % 4]
            for w2 in (w1, widths[(wi + 1) % len(widths)]):
                for op2 in ("rows", "pack", "render"):
                    yield ((op1, w1), mut, (op2, w2), (_second_look(op2), w2))


def _hist_task(args):
    """One shard of the history check: all texts of one config and length starting with `prefix`."""
    ci, length, prefix, widths, with_measure, with_mutation = args
    cfg = CONFIGS[ci]
    enc, _mode, as_bytes, alphabet, _pool = cfg
    tally = Tally()

    def body():
        fresh = Fresh(cfg)
        k = 0
        for classes in _texts(alphabet, length, prefix):
            for wrap in WRAPS:
                for align in ALIGNS:
                    gens = []
                    if with_measure:
                        gens.append(measure_histories(widths))
                    if with_mutation:
                        gens.append(mutation_histories(classes, wrap, align, widths, alphabet, k))
                    k += 1
                    for steps in itertools.chain(*gens):
                        ok, nontrivial, why, _i = run_history(fresh, classes, wrap, align, steps)
                        tally.case(ok, lambda: hist_detail(cfg, fresh, classes, wrap, align, steps, why), nontrivial,  # noqa: B023
                                   {"enc": enc, "bytes": as_bytes, "classes": classes, "wrap": wrap, "align": align, "history": [list(x) for x in steps]})
            CanvasCache.clear()

    _with_encoding(enc, body)
    return tally


def _random_hist_task(args):
    """Seeded random longer histories: texts of length 2..maxlen, 3..6 steps, widths 1..maxw (width 1 in every history)."""
    seed, shard, count, maxlen, maxw = args
    r = rng(seed * 1000 + 500 + shard)
    tally = Tally()
    weights = {"n": 4, "s": 2, "l": 1, "w": 4, "z": 1}
    for _ in range(count):
        cfg = CONFIGS[r.randrange(len(CONFIGS))]
        enc, _mode, as_bytes, alphabet, _pool = cfg

        def text():
            return "".join(r.choices(alphabet, [weights[c] for c in alphabet], k=r.randint(2, maxlen)))  # noqa: B023

        classes, wrap, align = text(), r.choice(WRAPS), r.choice(ALIGNS)
        steps = []
        n = r.randint(3, 6)
        one_at = r.randrange(n)
        for i in range(n):
            if i and r.random() < 0.35:
                kind = r.choice(("set_text", "set_wrap", "set_align", "set_layout"))
                arg = {"set_text": text, "set_wrap": lambda: r.choice(WRAPS), "set_align": lambda: r.choice(ALIGNS), "set_layout": lambda: (r.choice(ALIGNS), r.choice(WRAPS))}[kind]()
                steps.append((kind, arg))
            steps.append((r.choice(MEASURES), 1 if i == one_at else r.randint(1, maxw)))
        steps = tuple(steps)

        def body():
            fresh = Fresh(cfg)  # noqa: B023
            ok, nontrivial, why, _i = run_history(fresh, classes, wrap, align, steps)  # noqa: B023
            tally.case(ok, lambda: hist_detail(cfg, fresh, classes, wrap, align, steps, why), nontrivial, {"enc": enc, "classes": classes, "wrap": wrap, "align": align, "history": [list(x) for x in steps]})  # noqa: B023

        _with_encoding(enc, body)
    return tally


def _hist_bounds(tier):
    """(widths, max text length of the measurement histories, of the mutation histories, random histories per shard)"""
    if tier == "quick":
        return (1, 2, 3, 4), 3, 2, 250
    return (1, 2, 3, 4, 5, 6), 4, 3, 4000


def _bounds(tier):
    # (max text length per alphabet size, max width, unencodable max length)
    if tier == "quick":
        return {5: 5, 4: 5, 3: 6}, 6, 3
    return {5: 6, 4: 7, 3: 8}, 6, 4


def run(tier="quick", seed=0):
    t0 = time.time()
    maxlen, maxw, unenc_len = _bounds(tier)
    tasks = []
    for ci, cfg in enumerate(CONFIGS):
        alphabet = cfg[3]
        for length in range(maxlen[len(alphabet)] + 1):
            plen = min(length, 2 if length < 6 else 3)
            for prefix in itertools.product(alphabet, repeat=plen):
                tasks.append(("main", ci, length, "".join(prefix), maxw, WRAPS))
    for ci, cfg in enumerate(UNENCODABLE):
        for length in range(1, unenc_len + 1):
            for prefix in itertools.product(cfg[3], repeat=min(length, 1)):
                tasks.append(("unenc", ci, length, "".join(prefix), maxw, WRAPS))
    extra = ""
    if tier != "quick":
        # one length further for the wrapping modes (the 'unwrap previous space' logic), main configuration only
        for prefix in itertools.product(CONFIGS[0][3], repeat=3):
            tasks.append(("main", 0, maxlen[5] + 1, "".join(prefix), maxw, ("any", "space")))
        extra = f"; utf-8 str length {maxlen[5] + 1} in any/space modes"
    tasks.sort(key=lambda a: -a[2])  # longest shards first
    procs = max(1, min(16, os.cpu_count() or 1))
    ctx = multiprocessing.get_context("fork")
    rtasks = []
    if tier != "quick":
        rtasks = [(seed, shard, 2500, 16, 12) for shard in range(16)]
    # histories on one widget
    hwidths, hlen_measure, hlen_mutation, hrandom = _hist_bounds(tier)
    htasks = []
    for ci, cfg in enumerate(CONFIGS):
        for length in range(max(hlen_measure, hlen_mutation) + 1):
            for prefix in itertools.product(cfg[3], repeat=min(length, 2)):
                htasks.append((ci, length, "".join(prefix), hwidths, length <= hlen_measure, length <= hlen_mutation))
    htasks.sort(key=lambda a: -a[1])
    hrtasks = [(seed, shard, hrandom, 8, 6) for shard in range(16)]
    with ctx.Pool(procs) as pool:
        # (asynchronously, so that the short history shards fill the gaps between the long enumeration shards)
        a_parts = pool.map_async(_task, tasks, chunksize=1)
        a_hparts = pool.map_async(_hist_task, htasks, chunksize=1)
        a_hrparts = pool.map_async(_random_hist_task, hrtasks, chunksize=1)
        a_rparts = pool.map_async(_random_task, rtasks, chunksize=1) if rtasks else None
        parts, hparts, hrparts = a_parts.get(), a_hparts.get(), a_hrparts.get()
        rparts = a_rparts.get() if a_rparts else []
    # merge in the deterministic task order (sorted above; pool.map keeps it)
    total = {c: Tally() for c in CLAUSES}
    for part in parts:
        for c, t in part.items():
            total[c].merge(t)
    wall = time.time() - t0
    lens = ", ".join(f"{cfg[0]} {'bytes' if cfg[2] else 'str'} over {{{','.join(cfg[3])}}} length <= {maxlen[len(cfg[3])]}" for cfg in CONFIGS)
    bound = f"all texts by character class (n narrow, s space, l newline, w double-width, z zero-width): {lens}; width 1..{maxw}; wraps {'/'.join(WRAPS)}; aligns {'/'.join(ALIGNS)}; unencodable str length <= {unenc_len}{extra}"
    checks = []
    for c, rule in CLAUSES.items():
        if c != "history-independent":
            checks.append(MergedCheck(f"C03/{c}", rule, True, bound, total[c], wall).result())
    ht = Tally()
    for t in hparts:
        ht.merge(t)
    hbound = (f"every configuration above; widths {{{','.join(map(str, hwidths))}}}; texts of length <= {hlen_measure}: (rows|render at w1), (rows|pack|render at w2), "
              f"(another entry point at w2: render / get_line_translation / rows), all w1, w2; texts of length <= {hlen_mutation}: (a measurement at w1), one of set_wrap_mode (3) / set_align_mode (2) / set_text (<= {len(ALT_TEXTS)} texts) / set_layout, "
              f"(rows|pack|render at w2 in {{w1, next width}}), (another entry point at w2); every wrap x alignment")
    checks.append(MergedCheck("C03/history-independent", CLAUSES["history-independent"], True, hbound, ht, wall).result())
    hrt = Tally()
    for t in hrparts:
        hrt.merge(t)
    checks.append(MergedCheck("C03/history-independent/random", "the same on seeded random histories: 3..6 measurements (one of them at width 1) with set_text / set_wrap_mode / set_align_mode / set_layout in between (p = 0.35 each gap)", False,
                              f"{16 * hrandom} random (configuration, text of length 2..8, history) cases at widths 1..6, seeded", hrt, wall).result())
    if rtasks:
        rt = Tally()
        for t in rparts:
            rt.merge(t)
        checks.append(MergedCheck("C03/random-long-texts", "all clauses above on seeded random texts of length 8..16 at widths 1..12 (failure detail names the clause)", False, "40000 random (config, text, width, wrap, align) cases, seeded", rt, wall).result())
    return {"checks": checks, "bound": bound + "; histories on one widget: " + hbound}


def replay(check_name, case):
    clause = case.get("clause") or check_name.split("/", 1)[1]
    if clause.startswith("history-independent"):
        cfg = next(c for c in CONFIGS if c[0] == case["enc"] and c[2] == case["bytes"])
        steps = tuple((o, tuple(a) if isinstance(a, list) else a) for o, a in case["history"])

        def hbody():
            fresh = Fresh(cfg)
            ok, _nt, why, _i = run_history(fresh, case["classes"], case["wrap"], case["align"], steps)
            return ok, hist_detail(cfg, fresh, case["classes"], case["wrap"], case["align"], steps, why)

        ok, d = _with_encoding(cfg[0], hbody)
        return {"outcome": "not-reproduced" if ok else "confirmed", "detail": d}
    table = UNENCODABLE if clause == "unencodable-str" else CONFIGS
    cfg = next(c for c in table if c[0] == case["enc"] and c[2] == case["bytes"])
    enc, mode, as_bytes, _alphabet, pool = cfg

    if clause == "natural-size":
        def nbody():
            m = TextModel(case["classes"], enc, as_bytes, pool)
            ok, _nt, why, obs = judge_natural(m, mode, case["wrap"], case["align"])
            return ok, natural_detail(cfg, m, case["wrap"], case["align"], why, obs)

        ok, d = _with_encoding(enc, nbody)
        return {"outcome": "not-reproduced" if ok else "confirmed", "detail": d}

    def body():
        m = TextModel(case["classes"], enc, as_bytes, pool)
        if clause == "unencodable-str":
            ok, why, obs = judge_unencodable(m, mode, case["width"], case["wrap"], case["align"])
            return ok, why, obs, m
        res, obs = judge(m, mode, case["width"], case["wrap"], case["align"])
        ok, _nt, why = res.get(clause, (True, False, "clause not evaluated for this case"))
        return ok, why, obs, m

    ok, why, obs, m = _with_encoding(enc, body)
    return {"outcome": "not-reproduced" if ok else "confirmed", "detail": detail(cfg, m, case["width"], case["wrap"], case["align"], why, obs, clause=clause)}
