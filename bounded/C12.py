"""C12 bounded stand-in: MainLoop delivers input in order and always restores the terminal.

Runs the real urwid.MainLoop over scripted sessions (key batches, mouse events, resizes, alarms,
watch_pipe writes), with an exception (ExitMainLoop, an ordinary Exception, KeyboardInterrupt)
injected at every callback invocation index <= 6 of each of the seven callback kinds, for
  * a scripted fake screen with external event-loop support (hook_event_loop/unhook_event_loop),
  * a scripted fake screen without it (MainLoop falls back to screen.get_input()),
  * the real urwid.display.raw.Screen attached to the slave side of a pseudo-terminal pair
    (never the process's own stdin/stdout), whose output is read back from the master side,
for every bundled event loop that imports here, pop_ups on and off.

Every session runs in a forked child (a twisted reactor cannot be restarted, some failures are hangs,
signal handlers and tty settings are process state).  The child only *records* (a trace of callback
invocations, draws, loop waits, the bytes written to the pty, termios/signal state before and after);
the parent judges the record against the reference model in spec/mainloop_model.py.

How stimuli are delivered: "the loop waits" is made observable per event loop (a selectors.DefaultSelector
subclass for select/asyncio/tornado, zmq.Poller.poll, a trio Instrument appended after urwid's own, the
reactor's doIteration for twisted; get_input() itself for the screen without external-loop support).
Whenever the loop is about to block (timeout None or > 0) the hook records ["wait", timeout] and, unless
an alarm or an earlier stimulus is still outstanding, feeds the next stimulus (so input only ever
arrives while the loop is waiting, like a user typing at a quiet terminal).

Oracle readings recorded here (see also the final report):
  * "window resize" and the key bound to the redraw command are consumed by the loop itself.
  * the input filter may additionally be called with an EMPTY batch (the get_input fallback does that
    after an alarm time-out); empty calls are ignored and do not count as invocations.
  * "redrawn before the loop next waits": at every recorded wait the most recent draw_screen must show
    exactly the screen that the application state after all callbacks so far renders to (content and
    size), whichever draw call produced it.  For TwistedEventLoop waits of <= 5 ms are not counted:
    its documented idle emulation is a 1/256 s timer, so it necessarily sleeps that long first.
  * after an injected exception fired nothing more is demanded of the callback order.
  * a terminal resize may arrive while input is pending: step ["mixed", batch, cols, rows] delivers ONE batch that
    holds the marker "window resize" among keys / mouse events (first, in the middle, last on the scripted
    screens; the real screen on the pty always reports it last, so the marker is moved to the end there).  The
    redraw clause is the same: at the wait that follows, the last frame painted has the terminal's new size.
  * "leaving the terminal in its initial modes": judged by the bytes that have ARRIVED at the terminal (the master side
    of the pty / the read end of the pipe) at the moment run() - or Screen.stop() - is over, the screen writing through a
    BUFFERED stream (as sys.stdout is).  A mode-restoring sequence that is still in the stream's buffer then has not
    restored anything: it gets out at some later, unrelated flush or never (exec, kill).  The harness separates the two
    with a marker written straight to the tty after run(), flushes the stream itself only then, and also demands that
    what comes out late does not change a mode (PtyHarness.collect_after).
  * "exactly the events that arrived" when an escape sequence reaches the screen in two reads, the second within
    complete_wait of the first (step ["split", before, after, cut], real screen only): the events of both halves, once,
    and nothing else however long the loop keeps running afterwards (step ["late-pipe", data, seconds]); a lone ESC
    after which nothing follows is the key "esc", delivered when complete_wait is over.  If the screen's time-out for
    the rest of a sequence fires before the harness got both halves in (observed, not guessed: PtyHarness records
    every parse_input(wait_for_more=False)), the machine was too slow for the step to mean anything and the session's
    order verdict is dropped ("slipped") instead of being reported.
  * "each input event is passed, in arrival order, to ..." also holds for the events that arrive AFTER the display was
    stopped and started again while run() is in progress: the unhandled-input handler of the test application "shells
    out" on the key "S" (loop.screen.stop(); loop.screen.start() - the documented way to run an external program), and
    step ["suspend"] is a job-control suspend/resume (SIGTSTP, then SIGCONT: the real screen's own handlers stop and
    restart it; with the default SIGTSTP disposition the session process really is stopped and a helper process
    continues it).  Every later stimulus of the session (keys on the tty, a resize through the screen's resize pipe,
    mouse reports, watch_pipe data) must still reach the application, in order.  Reading for the suspend step: urwid
    reports a resume to the application as one batch ["window resize"] (raw_display's SIGCONT handler runs its SIGWINCH
    handler so that the screen is repainted); that batch is what the step delivers.  The scripted screen with
    event-loop support follows the protocol of BaseScreen for such screens: it announces INPUT_DESCRIPTORS_CHANGED from
    its _start/_stop hooks and hands its descriptor to the event loop only while it is started.  On the scripted
    screens (no signal handlers of their own) a suspend step is the key "S".
"""
from __future__ import annotations

import json
import os
import select
import signal
import sys
import time
import traceback

from bounded.common import Check, rng
from spec import mainloop_model as M

KINDS = M.KINDS
EXCS = ("exit", "exc", "kbd")
ALL_LOOPS = ("select", "asyncio", "tornado", "twisted", "trio", "zmq")
ALARM_DELAY = 0.003
INIT_SIZE = (16, 4)
TWISTED_IDLE_EXEMPT = 0.005
STALL_S = 3.0

CHECKS = {
    "C12/order": "input filter -> topmost widget -> unhandled-input handler iff not handled, in arrival order",
    "C12/redraw": "at every wait of the loop the last draw shows the current application state",
    "C12/exit": "ExitMainLoop ends run() normally; any other exception leaves run() as the same object",
    "C12/display-stopped": "after run() the screen is stopped (start/stop paired, started == False)",
    "C12/terminal-modes": "pty/pipe, buffered output stream: the bytes that reached the terminal by the time run() / stop() is over leave it in normal buffer, cursor visible, mouse/bracketed-paste/focus reporting off; so does whatever a later flush delivers",
    "C12/tty-settings": "pty: termios.tcgetattr after run() equals before",
    "C12/signal-handlers": "pty: SIGWINCH/SIGCONT/SIGTSTP handlers after run() are the ones installed before",
}


# ------------------------------------------------------------------------------------ availability
def available_loops():
    import urwid

    names = {
        "select": "SelectEventLoop",
        "asyncio": "AsyncioEventLoop",
        "tornado": "TornadoEventLoop",
        "twisted": "TwistedEventLoop",
        "trio": "TrioEventLoop",
        "zmq": "ZMQEventLoop",
    }
    return [k for k in ALL_LOOPS if hasattr(urwid, names[k])]


def _preimport(loops):
    """Import in the PARENT every module a session imports lazily, so that the forked children inherit them.

    Triage correction (timing/load dependence, not a property of urwid): the children used to import
    twisted.internet.selectreactor (and posixbase, tcp, ...), pty, termios, ... themselves, after the watchdog
    had been started.  With all cores busy those imports alone took longer than the 4 s watchdog once in a few
    hundred sessions, which was then reported as "run() did not end" although run() had not even been entered
    (empty trace; faulthandler showed the child inside importlib under _install_wait_hook).
    """
    import asyncio, fcntl, logging, pty, selectors, socket, struct, termios, threading  # noqa: F401, E401

    import urwid
    import urwid.display.raw  # noqa: F401
    from urwid.display.common import BaseScreen  # noqa: F401

    if "twisted" in loops:
        from twisted.internet.selectreactor import SelectReactor  # noqa: F401
    if "trio" in loops:
        import trio  # noqa: F401
    if "zmq" in loops:
        import zmq  # noqa: F401
    if "tornado" in loops:
        import tornado.ioloop  # noqa: F401
    return urwid


# =========================================================================================== child
class _Finish:
    """Write the result to the parent exactly once and leave the process without cleanup."""

    def __init__(self, wfd):
        import threading

        self.wfd = wfd
        self.lock = threading.Lock()
        self.done = False

    def __call__(self, result):
        with self.lock:
            if self.done:
                return
            self.done = True
            data = json.dumps(result, default=repr).encode()
            try:
                while data:
                    n = os.write(self.wfd, data)
                    data = data[n:]
            finally:
                os._exit(0)


class Boom(Exception):
    pass


class Harness:
    def __init__(self, case, finish):
        self.case = case
        self.finish = finish
        self.trace = []
        self.count = dict.fromkeys(KINDS, 0)
        self.inject = case.get("inject")
        self.injected = None
        self.st = M.new_state()  # the application's own state (what the probes render)
        self.size = tuple(INIT_SIZE)
        self.script = list(case["session"])
        self.next_step = 0
        self.inflight = None
        self.inflight_waits = 0
        self.alarms_pending = 0
        self.loop = None
        self.pipe_wr = None
        self.base = self.popup = self.launcher = None
        self.master = None
        self.out_bytes = b""
        self.mid_modes = None
        self.result = {"trace": self.trace}
        self.wait_threshold = TWISTED_IDLE_EXEMPT if case["loop"] == "twisted" else 0.0
        self.in_run = False
        self.stall_timer = None
        self.hold_on_empty = False  # pty: an empty batch (first half of a split sequence) is not the stimulus
        self.split_rest = None  # second half of a ["split", ...] step, written once the first half has been read
        self.split_phase = None  # None | "p1" (first half written) | "p1-read" | "p2" (second half written)
        self.split_step = None

    # ---- injection points
    def arm_stall(self, why):
        """Declare the session hung unless the application sees progress (or run() ends) within STALL_S.
        Not immediate: some loops (trio) poll once more with a long timeout while they are shutting down.
        (Triage: 1 s -> STALL_S = 3 s; the grace period only has to outlast a shutdown that needs a few ms of
        CPU, but on a machine with all cores busy a second of wall clock is not a safe bound for that.)"""
        if self.stall_timer is None:
            import threading

            t = threading.Timer(STALL_S, self.hang, [why])
            t.daemon = True
            t.start()
            self.stall_timer = t

    def progress(self):
        if self.stall_timer is not None:
            self.stall_timer.cancel()
            self.stall_timer = None

    def hit(self, kind):
        self.progress()
        i = self.count[kind]
        self.count[kind] += 1
        if self.inject and self.injected is None and self.inject["kind"] == kind and self.inject["idx"] == i:
            import urwid

            exc = {"exit": urwid.ExitMainLoop, "exc": Boom, "kbd": KeyboardInterrupt}[self.inject["exc"]]("injected")
            self.injected = exc
            self.trace.append(["raise", kind, i])
            raise exc

    # ---- application callbacks
    def input_filter(self, keys, raw):
        if not keys:
            self.trace.append(["filter-empty"])
            if not self.hold_on_empty:
                self.inflight = None
            return keys
        self.inflight = None
        self.trace.append(["filter", [list(k) if isinstance(k, tuple) else k for k in keys]])
        self.hit("filter")
        return [k for k in keys if k != "z"]

    def unhandled(self, key):
        import urwid

        self.trace.append(["unhandled", list(key) if isinstance(key, tuple) else key])
        self.hit("unhandled")
        if key == "T":
            self.alarms_pending += 1
            self.loop.set_alarm_in(ALARM_DELAY, self.alarm_cb)
            return True
        if key == "Q":
            raise urwid.ExitMainLoop()
        if key == "S":
            # "shell out": the display is stopped, an external program would run here, the display is started again
            self.trace.append(["restart"])
            self.loop.screen.stop()
            self.loop.screen.start()
            return True
        return None

    def alarm_cb(self, loop, data):
        self.alarms_pending -= 1
        self.trace.append(["alarm"])
        self.hit("alarm")
        self.st["a"] += 1
        self.base._invalidate()

    def pipe_cb(self, data):
        self.inflight = None
        self.trace.append(["pipe", data.decode("latin-1")])
        self.hit("pipe")
        self.st["p"] += 1
        self.base._invalidate()
        return True

    # ---- the loop is about to block
    def on_wait(self, timeout):
        if not self.in_run:
            return
        if timeout is not None and timeout <= self.wait_threshold:
            return
        self.trace.append(["wait", None if timeout is None else round(float(timeout), 4)])
        self.drain_master()
        if self.mid_modes is None and self.master is not None:
            self.mid_modes = M.modes_summary(M.decode_modes(self.out_bytes))
        if self.split_rest is not None:
            # the first half of a split sequence has been read and parsed (the screen now waits complete_wait for
            # the rest): the rest arrives at once
            if self.split_phase == "p1-read":
                rest, self.split_rest = self.split_rest, None
                self.inflight, self.inflight_waits = self.split_step, 0
                self.split_phase = "p2"
                self.trace.append(["split-rest", rest.hex()])
                os.write(self.master, rest)
            return
        if self.alarms_pending > 0:
            if timeout is None:
                self.arm_stall("loop blocks without a timeout while an alarm is pending")
            return
        if self.inflight is not None:
            self.inflight_waits += 1
            if self.inflight_waits > 50:
                self.arm_stall("stimulus %r fed but never delivered to the application" % (self.inflight,))
            return
        self.feed()

    def feed(self):
        if self.next_step >= len(self.script):
            # some loops (trio) poll once more with a long timeout while shutting down: only a loop that is
            # still waiting a second after the last stimulus was consumed counts as hung
            self.trace.append(["wait-after-end"])
            self.arm_stall("script exhausted (final 'Q' already delivered) and the loop still waits")
            return
        step = self.script[self.next_step]
        self.progress()
        self.trace.append(["feed", self.next_step])
        self.next_step += 1
        self.inflight = step
        self.inflight_waits = 0
        self.deliver(step)

    def hang(self, why):
        self.result["hung"] = why
        self.collect_after()
        self.finish(self.result)

    # ---- overridden per screen kind
    def deliver(self, step):
        raise NotImplementedError

    def drain_master(self):
        pass

    def collect_after(self):
        pass


def _rows_of(canvas):
    rows = []
    for row in canvas.content():
        rows.append(b"".join(seg[2] for seg in row).decode("latin-1"))
    return rows


def _make_widgets(H):
    import urwid

    class Probe(urwid.Widget):
        _sizing = frozenset([urwid.BOX])
        _selectable = True

        def __init__(self, name):
            super().__init__()
            self.name = name

        def selectable(self):
            return True

        def render(self, size, focus=False):
            H.trace.append(["render", self.name])
            H.hit("render")
            cols, rows = size
            text = M.base_text(H.st) if self.name == "base" else M.popup_text(H.st)
            lines = [text.ljust(cols)[:cols].encode()] + [b" " * cols for _ in range(rows - 1)]
            return urwid.TextCanvas(lines, maxcol=cols)

        def keypress(self, size, key):
            H.trace.append(["keypress", self.name, key])
            H.hit("keypress")
            if self.name == "base":
                if key == "a":
                    H.st["k"] += 1
                    self._invalidate()
                    return None
                if key == "P":
                    H.st["popup"] = True
                    H.launcher.open_pop_up()
                    return None
                return key
            if key == "a":
                H.st["pk"] += 1
                self._invalidate()
                return None
            if key == "c":
                H.st["popup"] = False
                H.launcher.close_pop_up()
                return None
            return key

        def mouse_event(self, size, event, button, col, row, focus):
            H.trace.append(["mouse", self.name, event, button, col, row])
            H.hit("mouse")
            if button == 1:
                H.st["m" if self.name == "base" else "pm"] += 1
                self._invalidate()
                return True
            return False

    class Launcher(urwid.PopUpLauncher):
        def create_pop_up(self):
            return H.popup

        def get_pop_up_parameters(self):
            return dict(M.POPUP)

    H.base = Probe("base")
    H.popup = Probe("popup")
    H.launcher = Launcher(H.base)
    return H.launcher


# ---- wait hooks -------------------------------------------------------------------------------
def _install_wait_hook(loop_name, H):
    """Make 'the loop is about to block' observable; returns the urwid event loop (or None)."""
    import selectors

    import urwid

    base_sel = selectors.DefaultSelector

    class HookSelector(base_sel):
        def select(self, timeout=None):
            if timeout is None or timeout > 0:
                H.on_wait(timeout)
            return super().select(timeout)

    if loop_name == "default":  # screen without external loop support: MainLoop makes its own SelectEventLoop
        return None
    if loop_name == "select":
        selectors.DefaultSelector = HookSelector
        return urwid.SelectEventLoop()
    if loop_name == "asyncio":
        import asyncio

        selectors.DefaultSelector = HookSelector
        aloop = asyncio.new_event_loop()
        asyncio.set_event_loop(aloop)
        return urwid.AsyncioEventLoop(loop=aloop)
    if loop_name == "tornado":
        selectors.DefaultSelector = HookSelector
        return urwid.TornadoEventLoop()
    if loop_name == "zmq":
        import zmq

        orig_poll = zmq.Poller.poll

        def poll(self, timeout=None):
            if timeout is None or timeout > 0:
                H.on_wait(None if timeout is None else timeout / 1000.0)
            return orig_poll(self, timeout)

        zmq.Poller.poll = poll
        return urwid.ZMQEventLoop()
    if loop_name == "trio":
        import trio

        class Instr(trio.abc.Instrument):
            def before_io_wait(self, timeout):
                if timeout > 0:
                    H.on_wait(None if timeout >= 86400 else timeout)

        orig_run = trio.run

        def run(fn, *args, instruments=(), **kw):
            return orig_run(fn, *args, instruments=[*instruments, Instr()], **kw)

        trio.run = run
        return urwid.TrioEventLoop()
    if loop_name == "twisted":
        from twisted.internet.selectreactor import SelectReactor

        reactor = SelectReactor()
        orig = reactor.doIteration

        def do_iteration(t):
            if t is None or t > 0:
                H.on_wait(t)
            return orig(t)

        reactor.doIteration = do_iteration
        return urwid.TwistedEventLoop(reactor=reactor)
    raise ValueError(loop_name)


# ---- fake screens ------------------------------------------------------------------------------
def _fake_screen_classes():
    import socket

    from urwid.display.common import BaseScreen

    class FakeBase(BaseScreen):
        def __init__(self, H):
            super().__init__()
            self.H = H
            self.timeout = None

        def _start(self):
            self.H.trace.append(["start"])
            self.descriptors_changed()

        def _stop(self):
            self.H.trace.append(["stop"])
            self.descriptors_changed()

        def descriptors_changed(self):
            pass

        def set_mouse_tracking(self, enable=True):
            self.H.trace.append(["mouse_tracking", bool(enable)])

        def get_cols_rows(self):
            return tuple(self.H.size)

        def draw_screen(self, size, canvas):
            self.H.trace.append(["draw", list(size), _rows_of(canvas), self.started])

        def clear(self):
            self.H.trace.append(["clear"])

        def set_input_timeouts(self, max_wait=None, *a, **kw):
            self.timeout = max_wait

        def get_input(self, raw_keys=False):
            raise NotImplementedError

        def batch_of(self, step):
            if step[0] == "keys":
                return [tuple(k) if isinstance(k, list) else k for k in step[1]]
            if step[0] == "resize":
                self.H.size = (step[1], step[2])
                return ["window resize"]
            if step[0] == "mixed":  # the resize is reported inside a batch of other events
                self.H.size = (step[2], step[3])
                return [tuple(k) if isinstance(k, list) else k for k in step[1]]
            raise ValueError(step)

    class FakeHook(FakeBase):
        """Supports external event loops: one descriptor, one scripted batch per readiness."""

        def __init__(self, H):
            super().__init__(H)
            self.rd, self.wr = socket.socketpair()
            self.rd.setblocking(False)
            self.handles = []
            self.pending = []

        def descriptors_changed(self):
            # BaseScreen's protocol for screens that support event loops (BaseScreen.signals): the start / stop hooks
            # announce that the set of descriptors to watch has changed ...
            from urwid import signals
            from urwid.display.common import INPUT_DESCRIPTORS_CHANGED

            signals.emit_signal(self, INPUT_DESCRIPTORS_CHANGED)

        def get_input_descriptors(self):
            # ... and the screen has descriptors to watch exactly while it is started
            return [self.rd] if self.started else []

        def hook_event_loop(self, event_loop, callback):
            self.H.trace.append(["hook"])

            def wrapper():
                try:
                    self.rd.recv(1)
                except BlockingIOError:
                    return
                callback(self.pending.pop(0), [])

            self.handles = [event_loop.watch_file(fd.fileno(), wrapper) for fd in self.get_input_descriptors()]

        def unhook_event_loop(self, event_loop):
            self.H.trace.append(["unhook"])
            for h in self.handles:
                event_loop.remove_watch_file(h)
            self.handles = []

    class FakeNoHook(FakeBase):
        """No hook_event_loop: MainLoop.run() uses get_input(); get_input() *is* the wait."""

        def get_input(self, raw_keys=False):
            H = self.H
            H.trace.append(["get_input", self.timeout])
            H.on_wait(self.timeout)
            if H.alarms_pending > 0:
                time.sleep(max(0.0, self.timeout or 0.0))
                return ([], []) if raw_keys else []
            step, H.inflight = H.inflight, None
            keys = self.batch_of(step)
            H.inflight = step
            return (keys, []) if raw_keys else keys

    return FakeHook, FakeNoHook


class FakeHarness(Harness):
    def build(self):
        import urwid

        FakeHook, FakeNoHook = _fake_screen_classes()
        hook = self.case["screen"] == "fake_hook"
        evl = _install_wait_hook(self.case["loop"] if hook else "default", self)
        if not hook:
            # on_wait is driven from get_input; a timeout of 0 with an alarm due is still a wait call
            self.wait_threshold = -1.0
        self.screen = (FakeHook if hook else FakeNoHook)(self)
        w = _make_widgets(self)
        self.loop = urwid.MainLoop(
            w,
            screen=self.screen,
            handle_mouse=True,
            input_filter=self.input_filter,
            unhandled_input=self.unhandled,
            event_loop=evl,
            pop_ups=self.case["pop_ups"],
        )
        if hook:
            self.pipe_wr = self.loop.watch_pipe(self.pipe_cb)

    def deliver(self, step):
        if step[0] == "pipe":
            if self.pipe_wr is None:
                raise RuntimeError("pipe step in a session for a screen without event-loop support")
            os.write(self.pipe_wr, step[1].encode("latin-1"))
            return
        if self.case["screen"] == "fake_hook":
            self.screen.pending.append(self.screen.batch_of(step))
            self.screen.wr.send(b"x")
        # fake_nohook: get_input picks the step up from self.inflight

    def collect_after(self):
        self.result["started_after"] = bool(self.screen.started)


# ---- the real raw_display.Screen on a pty --------------------------------------------------------
def _encode_key(k):
    if isinstance(k, (list, tuple)):
        event, button, col, row = k
        code = 3 if event == "mouse release" else button - 1
        return b"\x1b[M" + bytes([32 + code, 33 + col, 33 + row])
    if k == "ctrl l":
        return b"\x0c"
    if len(k) == 1:
        return k.encode()
    if k in KEY_BYTES:
        return KEY_BYTES[k]
    if k.startswith("meta ") and len(k) == 6:
        return b"\x1b" + k[5:].encode()
    raise ValueError(k)


# what an xterm sends for these keys (ECMA-48 / xterm ctlseqs); "esc" is the lone ESC byte
KEY_BYTES = {
    "up": b"\x1b[A", "down": b"\x1b[B", "right": b"\x1b[C", "left": b"\x1b[D",
    "f5": b"\x1b[15~", "delete": b"\x1b[3~", "page up": b"\x1b[5~", "shift up": b"\x1b[1;2A", "f1": b"\x1bOP",
    "esc": b"\x1b",
}


SIGS = ("SIGWINCH", "SIGCONT", "SIGTSTP")


def split_bytes(step):
    """["split", before, after, cut] -> (first read, second read)."""
    _t, before, after, cut = step
    seq = _encode_key(after[0])
    if not (seq[:1] == b"\x1b" and 0 < cut < len(seq)):
        raise ValueError("split: the cut must fall inside an escape sequence: %r" % (step,))
    head = b"".join(_encode_key(k) for k in before)
    return head + seq[:cut], seq[cut:] + b"".join(_encode_key(k) for k in after[1:])


def _output_stream(fd, kind):
    """The screen's output stream.  "block": a fully buffered text stream (what sys.stdout is when it is not a tty,
    and - for the sequences in question, which hold no newline - also when it is): nothing reaches the terminal
    before flush() or a full buffer.  "line": os.fdopen's choice for a tty (line buffered)."""
    import io

    if kind == "line":
        return os.fdopen(fd, "w")
    return io.TextIOWrapper(io.BufferedWriter(io.FileIO(fd, "w"), buffer_size=1 << 16), line_buffering=False, write_through=False)


def _sig_repr(h):
    if h is signal.SIG_DFL:
        return "SIG_DFL"
    if h is signal.SIG_IGN:
        return "SIG_IGN"
    return getattr(h, "__name__", repr(h))


class PtyHarness(Harness):
    out_rd = out_wr = None  # where the screen's output ends up, when that is not the pty (a pipe)

    def run_direct(self):
        """No MainLoop: the screen alone is started, used and stopped (case["ops"]), every combination of its options,
        its output going to the pty or to a pipe through a buffered stream.  Same observations as after run()."""
        import fcntl
        import pty

        import urwid

        cfg = self.case["pty"]
        self.master, self.slave = pty.openpty()
        fcntl.fcntl(self.master, fcntl.F_SETFL, os.O_NONBLOCK)
        self._set_winsize(*INIT_SIZE)
        for s in SIGS:
            signal.signal(getattr(signal, s), signal.SIG_DFL)
        inp = os.fdopen(self.slave, "r", closefd=False)
        if cfg.get("to") == "pipe":
            self.out_rd, self.out_wr = os.pipe()
            fcntl.fcntl(self.out_rd, fcntl.F_SETFL, os.O_NONBLOCK)
            out = _output_stream(os.dup(self.out_wr), cfg.get("out", "block"))
        else:
            out = _output_stream(os.dup(self.slave), cfg.get("out", "block"))
        self._keep = (inp, out)
        self.screen = urwid.display.raw.Screen(input=inp, output=out, bracketed_paste_mode=cfg["paste"], focus_reporting=cfg["focus"])
        self.result["termios_before"] = self._termios()
        self.result["sig_before"] = [_sig_repr(signal.getsignal(getattr(signal, s))) for s in SIGS]
        self._sig_before_objs = [signal.getsignal(getattr(signal, s)) for s in SIGS]
        cols, rows = INIT_SIZE
        for op in self.case["ops"]:
            self.trace.append(list(op))
            if op[0] == "start":
                self.screen.start(alternate_buffer=op[1])
            elif op[0] == "stop":
                self.screen.stop()
            elif op[0] == "mouse":
                self.screen.set_mouse_tracking(op[1])
            elif op[0] == "draw":
                self.screen.draw_screen((cols, rows), urwid.TextCanvas([b"x" * cols] * rows, maxcol=cols))
                self.drain_master()
                self.mid_modes = M.modes_summary(M.decode_modes(self.out_bytes))
            else:
                raise ValueError(op)
        self.result["outcome"] = "returned"
        self.collect_after()

    def build(self):
        import fcntl
        import pty
        import struct
        import termios

        import urwid

        cfg = self.case["pty"]
        self.master, self.slave = pty.openpty()
        fcntl.fcntl(self.master, fcntl.F_SETFL, os.O_NONBLOCK)
        self._set_winsize(*INIT_SIZE)
        if cfg["termios"] == "alt":
            a = termios.tcgetattr(self.slave)
            a[3] &= ~(termios.ECHOE | termios.ECHOK | termios.IEXTEN)
            a[0] &= ~termios.IXON
            a[6][termios.VMIN] = 3
            a[6][termios.VTIME] = 2
            a[6][termios.VINTR] = b"\x07"
            termios.tcsetattr(self.slave, termios.TCSANOW, a)

        self.custom_calls = []

        def custom_winch(signum, frame):
            self.custom_calls.append("winch")

        def custom_cont(signum, frame):
            self.custom_calls.append("cont")

        def custom_tstp(signum, frame):
            self.custom_calls.append("tstp")

        if cfg["sig"] == "custom":
            signal.signal(signal.SIGWINCH, custom_winch)
            signal.signal(signal.SIGCONT, custom_cont)
            signal.signal(signal.SIGTSTP, custom_tstp)
        elif cfg["sig"] == "ign":
            for s in SIGS:
                signal.signal(getattr(signal, s), signal.SIG_IGN)
        else:
            for s in SIGS:
                signal.signal(getattr(signal, s), signal.SIG_DFL)

        evl = _install_wait_hook(self.case["loop"], self)
        inp = os.fdopen(self.slave, "r", closefd=False)
        out = _output_stream(os.dup(self.slave), cfg.get("out", "block"))
        H = self
        self.hold_on_empty = True

        class RecScreen(urwid.display.raw.Screen):
            """The real screen; only records the calls it receives, then does the real thing."""

            def draw_screen(self, size, canvas):
                H.trace.append(["draw", list(size), _rows_of(canvas), self.started])
                return super().draw_screen(size, canvas)

            def clear(self):
                if H.in_run and self.started and not H.stopping:
                    H.trace.append(["clear"])
                return super().clear()

            def _sigwinch_handler(self, *a, **kw):
                H.winch_seen += 1
                return super()._sigwinch_handler(*a, **kw)

            def _start(self, *a, **kw):
                H.trace.append(["start"])
                return super()._start(*a, **kw)

            def _sigtstp_handler(self, *a, **kw):
                try:
                    return super()._sigtstp_handler(*a, **kw)
                finally:
                    H.tstp_done += 1

            def _sigcont_handler(self, *a, **kw):
                try:
                    return super()._sigcont_handler(*a, **kw)
                finally:
                    H.cont_done += 1

            def parse_input(self, event_loop, callback, codes, wait_for_more=True):
                if not wait_for_more:
                    # complete_wait is over: the screen gives up waiting for the rest of a sequence
                    H.trace.append(["timeout-parse", len(codes)])
                    if H.split_phase is not None:
                        # ... before both halves of a split sequence were read: the machine was too slow for this
                        # step to mean anything (the halves did NOT arrive within complete_wait of each other)
                        H.result["slipped"] = True
                elif codes:
                    if H.split_phase == "p1":
                        H.split_phase = "p1-read"
                    elif H.split_phase == "p2":
                        H.split_phase = None
                return super().parse_input(event_loop, callback, codes, wait_for_more)

            def _stop(self):
                H.trace.append(["stop"])
                H.stopping = True
                try:
                    return super()._stop()
                finally:
                    H.stopping = False

        self.stopping = False
        self.winch_seen = 0
        self.tstp_done = self.cont_done = 0
        self.screen = RecScreen(
            input=inp, output=out, bracketed_paste_mode=cfg["paste"], focus_reporting=cfg["focus"]
        )
        self._keep = (inp, out)
        w = _make_widgets(self)
        self.loop = urwid.MainLoop(
            w,
            screen=self.screen,
            handle_mouse=cfg["mouse"],
            input_filter=self.input_filter,
            unhandled_input=self.unhandled,
            event_loop=evl,
            pop_ups=self.case["pop_ups"],
        )
        self.pipe_wr = self.loop.watch_pipe(self.pipe_cb)
        self.result["termios_before"] = self._termios()
        self.result["sig_before"] = [_sig_repr(signal.getsignal(getattr(signal, s))) for s in SIGS]
        self._sig_before_objs = [signal.getsignal(getattr(signal, s)) for s in SIGS]

    def _termios(self):
        import termios

        # read through the master side: same tty, and it stays readable even if the code under test
        # loses the slave descriptor
        try:
            a = termios.tcgetattr(self.master)
        except Exception as e:  # noqa: BLE001 - recorded, judged by the parent
            return "tcgetattr failed: %r" % (e,)
        return [a[0], a[1], a[2], a[3], a[4], a[5], [c.hex() if isinstance(c, bytes) else c for c in a[6]]]

    def _set_winsize(self, cols, rows):
        import fcntl
        import struct
        import termios

        fcntl.ioctl(self.master, termios.TIOCSWINSZ, struct.pack("HHHH", rows, cols, 0, 0))

    def deliver(self, step):
        if step[0] == "pipe":
            os.write(self.pipe_wr, step[1].encode("latin-1"))
        elif step[0] == "keys":
            os.write(self.master, b"".join(_encode_key(k) for k in step[1]))
        elif step[0] == "late-pipe":
            import threading

            t = threading.Timer(step[2], os.write, [self.pipe_wr, step[1].encode("latin-1")])
            t.daemon = True
            t.start()
        elif step[0] == "split":
            first, rest = split_bytes(step)
            self.split_rest, self.split_phase, self.split_step = rest, "p1", step
            os.write(self.master, first)
        elif step[0] == "resize":
            self._set_winsize(step[1], step[2])
            self.size = (step[1], step[2])
            os.kill(os.getpid(), signal.SIGWINCH)
        elif step[0] == "suspend":
            self._suspend_resume()
        elif step[0] == "mixed":
            # the user types, and the terminal is resized before the application gets to read: the bytes are
            # readable on the tty AND the screen's SIGWINCH handler has run when the loop next looks, so the screen
            # reports one batch [keys..., "window resize"].  (Waits: a pty hands written bytes to the slave side
            # asynchronously; a Python signal handler runs between two bytecodes of the main thread.)
            os.write(self.master, b"".join(_encode_key(k) for k in step[1] if k != "window resize"))
            select.select([self.slave], [], [], 2.0)
            self._set_winsize(step[2], step[3])
            self.size = (step[2], step[3])
            seen = self.winch_seen
            os.kill(os.getpid(), signal.SIGWINCH)
            t_end = time.time() + 2.0
            while self.winch_seen == seen and time.time() < t_end and signal.getsignal(signal.SIGWINCH) not in (signal.SIG_DFL, signal.SIG_IGN):
                time.sleep(0.0005)
        else:
            raise ValueError(step)

    def _suspend_resume(self):
        """Job control: SIGTSTP to this process, then SIGCONT.  The screen's own handlers do the rest (stop the screen,
        hand the signal on to the previous disposition, restart the screen on SIGCONT).  If the previous disposition is
        the default one the process really stops inside the handler: a helper process (forked first) sees that in
        /proc and sends the SIGCONT.  Otherwise (handler of the application's own, SIG_IGN, or a process group whose
        SIGTSTP is discarded by the kernel) SIGCONT is sent from here once the SIGTSTP handler is through."""
        pid = os.getpid()
        helper = os.fork()
        if helper == 0:
            try:
                t_end = time.time() + 3.0
                while time.time() < t_end:
                    with open("/proc/%d/stat" % pid) as f:
                        state = f.read().rsplit(")", 1)[1].split()[0]
                    if state in ("T", "t"):
                        os.kill(pid, signal.SIGCONT)
                        break
                    time.sleep(0.001)
            finally:
                os._exit(0)
        t0, c0 = self.tstp_done, self.cont_done
        self.trace.append(["sigtstp"])
        os.kill(pid, signal.SIGTSTP)
        t_end = time.time() + 3.0
        while self.tstp_done == t0 and time.time() < t_end:
            time.sleep(0.0005)
        by = "helper (the process was stopped)"
        if self.cont_done == c0:
            by = "harness"
            os.kill(pid, signal.SIGCONT)
            t_end = time.time() + 3.0
            while self.cont_done == c0 and time.time() < t_end:
                time.sleep(0.0005)
        self.trace.append(["sigcont-done", self.tstp_done - t0, self.cont_done - c0, bool(self.screen.started), by])
        try:
            os.kill(helper, signal.SIGKILL)
            os.waitpid(helper, 0)
        except OSError:
            pass

    def _read_until_marker(self, marker, timeout=5.0):
        """Write *marker* directly to the tty and read the master side up to it; returns the bytes received since the
        last call, marker excluded (everything is appended to self.out_bytes, markers removed)."""
        start = len(self.out_bytes)
        rd = self.master if self.out_rd is None else self.out_rd
        try:
            os.write(self.slave if self.out_wr is None else self.out_wr, marker)
        except OSError as e:
            self.result.setdefault("marker_error", repr(e))
            self.drain_master()
            return self.out_bytes[start:]
        t_end = time.time() + timeout
        while marker not in self.out_bytes[start:] and time.time() < t_end:
            select.select([rd], [], [], 0.05)
            self.drain_master()
        if marker not in self.out_bytes[start:]:
            self.result.setdefault("marker_error", "marker %r not seen on the master side within %.0f s" % (marker, timeout))
            return self.out_bytes[start:]
        i = self.out_bytes.index(marker, start)
        got = self.out_bytes[start:i]
        self.out_bytes = self.out_bytes[:i] + self.out_bytes[i + len(marker) :]
        return got

    def drain_master(self):
        if self.master is None:
            return
        while True:
            try:
                chunk = os.read(self.master if self.out_rd is None else self.out_rd, 65536)
            except (BlockingIOError, OSError):
                break
            if not chunk:
                break
            self.out_bytes += chunk

    def collect_after(self):
        # The terminal's modes are judged by the bytes that have ARRIVED at the terminal (the master side) now that
        # run() is over - not by what was handed to the output stream: whatever still sits in the stream's buffer may
        # never get out (exec, kill, crash) and gets out late at best.  A marker written straight to the tty after
        # run() separates the two (a tty is FIFO).  Only then the harness flushes the stream itself, to see what was
        # left behind.
        self._read_until_marker(b"<<C12:run-over>>")
        n_arrived = len(self.out_bytes)
        try:
            self._keep[1].flush()
        except Exception as e:  # noqa: BLE001
            self.result["flush_error"] = repr(e)
        late = self._read_until_marker(b"<<C12:flushed>>")
        self.result["late_bytes"] = late.decode("latin-1")[-200:]
        self.result["modes_after_flush"] = M.modes_summary(M.decode_modes(self.out_bytes))
        self.result["started_after"] = bool(self.screen.started)
        self.result["termios_after"] = self._termios()
        try:
            os.fstat(self.slave)
            self.result["input_fd_open_after"] = True
        except OSError:
            self.result["input_fd_open_after"] = False
        after = [signal.getsignal(getattr(signal, s)) for s in SIGS]
        self.result["sig_after"] = [_sig_repr(h) for h in after]
        self.result["sig_same"] = [a is b or a == b for a, b in zip(after, self._sig_before_objs)]
        self.result["modes_mid"] = self.mid_modes
        self.result["modes_after"] = M.modes_summary(M.decode_modes(self.out_bytes[:n_arrived]))
        self.result["out_tail"] = self.out_bytes[-160:].decode("latin-1")
        self.result["out_len"] = len(self.out_bytes)


def _child_main(case, wfd, watchdog_s):
    import threading

    finish = _Finish(wfd)
    try:
        dn = os.open(os.devnull, os.O_RDWR)
        for fd in (0, 1, 2):
            os.dup2(dn, fd)
        import logging

        logging.disable(logging.CRITICAL)
        H = (PtyHarness if case["screen"] in ("pty", "pty_direct") else FakeHarness)(case, finish)
        if case["screen"] == "pty_direct":
            H.run_direct()
            finish(H.result)

        def watchdog():
            time.sleep(watchdog_s)
            H.result["hung"] = "watchdog: run() still not finished after %.1f s" % watchdog_s
            H.result["watchdog"] = True
            finish(H.result)

        if case.get("mutate"):  # sanity mutations of the code under test, see bounded/_c12_mut.py
            from bounded import _c12_mut

            _c12_mut.apply(case["mutate"])
        H.build()
        # Triage correction: the watchdog times run() only (it used to be started before build(), so that
        # set-up work - imports, creating the reactor - was charged to run(); see _preimport).  It is a backstop
        # for busy loops and deadlocks and generous on purpose: every hang the oracle knows how to recognise is
        # recognised logically in Harness.on_wait/feed (the loop blocks with nothing left that could wake it),
        # so on a tree without hangs its length costs nothing, and a loaded machine cannot trip it.
        threading.Thread(target=watchdog, daemon=True).start()
        H.in_run = True
        try:
            rv = H.loop.run()
            H.result["outcome"] = "returned"
            H.result["rv"] = repr(rv)
        except BaseException as e:  # noqa: BLE001 - the outcome under test
            H.result["outcome"] = "raised"
            H.result["exc_repr"] = repr(e)
            H.result["exc_same"] = e is H.injected
            H.result["exc_tb"] = traceback.format_exc()[-1500:]
        H.in_run = False
        H.collect_after()
        finish(H.result)
    except BaseException as e:  # noqa: BLE001 - harness trouble, reported as such
        finish({"harness_error": repr(e), "tb": traceback.format_exc()[-3000:]})


# ========================================================================================== parent
def run_cases(cases, procs=16, watchdog_s=4.0, kill_s=8.0):
    """Run every case in its own forked child; results in case order.

    Forking is the bottleneck (a large parent image), so for many cases *procs* worker processes are forked
    first and each of them forks its share of the sessions one after the other.
    """
    if procs <= 1 or len(cases) <= 2 * procs:
        return _run_cases_flat(cases, max(1, min(procs, 4)), watchdog_s, kill_s)
    slices = [list(range(i, len(cases), procs)) for i in range(procs)]
    workers = {}
    for sl in slices:
        r, w = os.pipe()
        pid = os.fork()
        if pid == 0:
            try:
                os.close(r)
                for fd in workers:
                    os.close(fd)
                part = _run_cases_flat([cases[i] for i in sl], 1, watchdog_s, kill_s)
                data = json.dumps(part, default=repr).encode()
                while data:
                    n = os.write(w, data)
                    data = data[n:]
            finally:
                os._exit(0)
        os.close(w)
        workers[r] = (pid, sl, [])
    results = [None] * len(cases)
    pending = dict(workers)
    while pending:
        ready, _, _ = select.select(list(pending), [], [], 1.0)
        for r in ready:
            chunk = os.read(r, 1 << 20)
            if chunk:
                pending[r][2].append(chunk)
                continue
            pid, sl, bufs = pending.pop(r)
            os.close(r)
            os.waitpid(pid, 0)
            try:
                part = json.loads(b"".join(bufs).decode())
            except ValueError:
                part = [{"harness_error": "worker died"}] * len(sl)
            for i, res in zip(sl, part):
                results[i] = res
    return results


def _run_cases_flat(cases, procs, watchdog_s, kill_s):
    """Each case in its own forked child, at most *procs* at a time."""
    results = [None] * len(cases)
    live = {}  # rfd -> [idx, pid, buf, t0]
    nxt = 0
    while nxt < len(cases) or live:
        while nxt < len(cases) and len(live) < procs:
            r, w = os.pipe()
            pid = os.fork()
            if pid == 0:
                try:
                    os.close(r)
                    for fd in list(live):
                        try:
                            os.close(fd)
                        except OSError:
                            pass
                    _child_main(cases[nxt], w, watchdog_s)
                finally:
                    os._exit(1)
            os.close(w)
            live[r] = [nxt, pid, b"", time.time()]
            nxt += 1
        ready, _, _ = select.select(list(live), [], [], 0.2)
        now = time.time()
        for r in list(live):
            idx, pid, buf, t0 = live[r]
            done = False
            if r in ready:
                chunk = os.read(r, 1 << 16)
                if chunk:
                    live[r][2] = buf + chunk
                else:
                    done = True
            elif now - t0 > kill_s:
                try:
                    os.kill(pid, signal.SIGKILL)
                except ProcessLookupError:
                    pass
                done = True
                live[r][2] = b""
            if done:
                os.close(r)
                try:
                    os.waitpid(pid, 0)
                except ChildProcessError:
                    pass
                raw = live[r][2]
                del live[r]
                if raw:
                    try:
                        results[idx] = json.loads(raw.decode())
                    except ValueError:
                        results[idx] = {"harness_error": "unparsable child result", "raw": raw[:200].decode("latin-1")}
                else:
                    results[idx] = {"hung": "child produced no result (killed after %.0f s or died)" % kill_s, "trace": []}
    return results


# ------------------------------------------------------------------------------------------ judge
CALLBACK_EVENTS = ("filter", "keypress", "mouse", "unhandled", "clear", "alarm", "pipe")


def _judge_terminal(case, res, out, nontrivial):
    probs = []
    if res.get("modes_after") != M.INITIAL_SUMMARY:
        probs.append(
            "modes decoded from the bytes that had reached the terminal when run() was over: %r%s"
            % (res.get("modes_after"), (" (still in the output stream's buffer: %r)" % res["late_bytes"]) if res.get("late_bytes") else "")
        )
    if res.get("modes_after_flush") != M.INITIAL_SUMMARY:
        probs.append("modes once the output stream was flushed by the harness: %r" % (res.get("modes_after_flush"),))
    if res.get("marker_error"):
        probs.append("harness: %s" % res["marker_error"])
    if res.get("flush_error"):
        probs.append("output flush failed: %s" % res["flush_error"])
    out["C12/terminal-modes"] = (not probs, "; ".join(probs), nontrivial)
    ok = res.get("termios_after") == res.get("termios_before") and isinstance(res.get("termios_before"), list)
    why = ""
    if not ok:
        why = "tcgetattr differs: before %r after %r%s" % (
            res.get("termios_before"),
            res.get("termios_after"),
            "" if res.get("input_fd_open_after", True) else " (and the tty input descriptor was closed during run())",
        )
    out["C12/tty-settings"] = (ok, why, nontrivial)
    ok = all(res.get("sig_same", [False]))
    why = "" if ok else "handlers of %s: before %r after %r" % ("/".join(SIGS), res.get("sig_before"), res.get("sig_after"))
    out["C12/signal-handlers"] = (ok, why, nontrivial)


def judge(case, res):
    """-> {check_name: (ok, why, nontrivial)} for the clauses that apply to this case."""
    out = {}
    if "harness_error" in res:
        bad = (False, "harness error: %s" % res["harness_error"], True)
        return {"C12/exit": bad}
    trace = res.get("trace", [])
    if case["screen"] == "pty_direct":
        if res.get("hung"):
            return {"C12/exit": (False, "screen start/stop did not end: %s" % res["hung"], True)}
        ok = res.get("started_after") is False
        out["C12/display-stopped"] = (ok, "" if ok else "screen.started after stop() = %r" % (res.get("started_after"),), True)
        _judge_terminal(case, res, out, True)
        return out
    pop_ups = bool(case["pop_ups"])
    inj = case.get("inject")
    fired = next((e for e in trace if e[0] == "raise"), None)

    # ---- exit clause (also carries hangs)
    if res.get("hung"):
        out["C12/exit"] = (False, "run() did not end: %s" % res["hung"], True)
        # a session that hangs because a stimulus that was fed never reached the application (every callback before it
        # as expected, the loop then waits for ever): that is the order clause - "each input event is passed ..."
        if not inj or inj["kind"] != "render":
            exp, _end = M.expected_events(case)
            got = [e for e in trace if e[0] in CALLBACK_EVENTS]
            fed = [e[1] for e in trace if e[0] == "feed"]
            if fired is None and len(got) < len(exp) and got == exp[: len(got)] and fed:
                restarts = sum(1 for e in trace if e[0] in ("restart", "sigtstp"))
                out["C12/order"] = (
                    False,
                    "stimulus #%d %r was fed while the loop waited%s and never reached the application: expected next callback %r, the loop waits for ever"
                    % (fed[-1], case["session"][fed[-1]], (" (after %d stop/start of the display inside run())" % restarts) if restarts else "", exp[len(got)]),
                    True,
                )
        return out
    if fired is None or inj["exc"] == "exit":
        ok = res.get("outcome") == "returned"
        why = "" if ok else "expected run() to return normally, it raised %s" % res.get("exc_repr")
    else:
        ok = res.get("outcome") == "raised" and bool(res.get("exc_same"))
        if res.get("outcome") == "returned":
            why = "injected %s in %s #%d was swallowed: run() returned normally" % (inj["exc"], inj["kind"], inj["idx"])
        else:
            why = "" if ok else "run() raised %s instead of the injected object" % res.get("exc_repr")
    if fired is not None:
        # whichever exception it was, run() has to end there: the loop must not go back to delivering input.
        # (Callbacks that were already due in the same loop iteration are tolerated; a stimulus that was fed
        # at a later wait and still reached the application is not.)
        i_raise = trace.index(fired)
        fed_later = False
        for e in trace[i_raise + 1 :]:
            if e[0] == "feed":
                fed_later = True
            elif fed_later and e[0] in CALLBACK_EVENTS:
                ok = False
                why = "%s injected in %s #%d did not end run(): the loop waited again and delivered %r%s" % (
                    inj["exc"],
                    inj["kind"],
                    inj["idx"],
                    e,
                    "; " + why if why else "",
                )
                break
    out["C12/exit"] = (ok, why, True)

    # ---- order clause
    actual = [e for e in trace if e[0] in CALLBACK_EVENTS]
    cut = None
    for i, e in enumerate(trace):
        if e[0] == "raise":
            cut = sum(1 for x in trace[:i] if x[0] in CALLBACK_EVENTS)
            break
    upto = actual if cut is None else actual[:cut]
    if inj and inj["kind"] == "render":
        full, _end = M.expected_events({**case, "inject": None})
        ok = upto == full[: len(upto)] and (fired is not None or len(upto) == len(full))
        exp = full[: len(upto) + 1]
    else:
        exp, end = M.expected_events(case)
        ok = upto == exp and ((end == "injected") == (fired is not None))
    why = ""
    if not ok:
        k = next((i for i, (a, b) in enumerate(zip(upto, exp)) if a != b), min(len(upto), len(exp)))
        why = "callback #%d: expected %r, got %r" % (
            k,
            exp[k] if k < len(exp) else "<end>",
            upto[k] if k < len(upto) else "<end>",
        )
    if res.get("slipped"):
        # a split sequence whose halves did not make it within complete_wait (slow machine): the step says nothing
        ok, why = True, ""
        upto = []
    out["C12/order"] = (ok, why, len(upto) > 0)

    # ---- redraw clause: at every wait the last draw shows the state after all callbacks so far
    st = M.new_state()
    size = tuple(INIT_SIZE)
    last_draw = None
    ok, why, nwaits = True, "", 0
    feeds = 0
    for e in trace:
        if e[0] == "raise":
            break
        if e[0] in CALLBACK_EVENTS:
            M.apply_event(st, e)
        elif e[0] == "feed":
            feeds += 1
            size = M.terminal_size_after(case["session"][e[1]], size)
        elif e[0] == "draw":
            last_draw = e
        elif e[0] == "wait":
            nwaits += 1
            want = M.expected_grid(st, size, pop_ups)
            if last_draw is None:
                ok, why = False, "the loop waits (wait #%d) before anything was drawn" % nwaits
            elif tuple(last_draw[1]) != size:
                ok, why = False, "wait #%d: last draw used size %r, the terminal is %r" % (nwaits, last_draw[1], size)
            elif last_draw[2] != want:
                ok, why = False, "wait #%d (after %d stimuli): screen shows %r, state renders to %r" % (
                    nwaits,
                    feeds,
                    last_draw[2][:3],
                    want[:3],
                )
            if not ok:
                break
    out["C12/redraw"] = (ok, why, nwaits > 1)

    # ---- display stopped
    ss = [e[0] for e in trace if e[0] in ("start", "stop")]
    paired = all(a == ("start", "stop")[i % 2] for i, a in enumerate(ss)) and len(ss) % 2 == 0 and len(ss) >= 2
    ok = paired and res.get("started_after") is False
    why = "" if ok else "start/stop calls %r, screen.started after run() = %r" % (ss, res.get("started_after"))
    out["C12/display-stopped"] = (ok, why, True)

    # ---- terminal state (pty only): escape-sequence modes, tty settings, signal handlers
    if case["screen"] == "pty":
        mid = res.get("modes_mid") or {}
        _judge_terminal(case, res, out, bool(mid.get("alternate_buffer")))
    return out


# -------------------------------------------------------------------------------------- scenarios
def _cycle(order, sizes):
    mouse = [["mouse press", 1, 0, 0], ["mouse press", 2, 2, 1], ["mouse release", 0, 2, 1]]
    parts = {
        "K": ["keys", ["a", "x"]],
        "M": ["keys", mouse],
        "T": ["keys", ["T"]],
        "P": ["pipe", "p"],
        "R": None,
        "L": ["keys", ["ctrl l", "z", "P", "a", "c"]],
        "O": ["keys", ["P", ["mouse press", 1, 2, 1], ["mouse press", 1, 9, 3], "x", "T", "c"]],
        "Z": ["keys", ["z"]],
        # the display is stopped and started again while run() is in progress: by the unhandled-input handler ("S":
        # last of its batch / followed by more events of the same batch), by job control (U)
        "S": ["keys", ["x", "S"]],
        "s": ["keys", ["S", "a", ["mouse press", 1, 0, 0], "x"]],
        "U": ["suspend"],
    }
    # a resize that shares its batch with other events: after handled + unhandled keys (X), before a mouse event and
    # a key (Y), between an unhandled key and the key that schedules an alarm (W)
    mixed = {
        "X": ["a", "x", "window resize"],
        "Y": ["window resize", ["mouse press", 1, 0, 0], "a"],
        "W": ["x", "window resize", "T"],
    }
    out = []
    for ch in order:
        if ch == "R":
            out.append(["resize", *sizes[0]])
            sizes.append(sizes.pop(0))
        elif ch in mixed:
            out.append(["mixed", mixed[ch], *sizes[0]])
            sizes.append(sizes.pop(0))
        else:
            out.append(parts[ch])
    return out


def for_pty(session):
    """The same session as the real screen can deliver it: raw_display reports a resize after the keys it read in
    the same go, so the marker of a mixed batch goes last."""
    out = []
    for st in session:
        if st[0] == "mixed":
            st = ["mixed", [k for k in st[1] if k != "window resize"] + ["window resize"], st[2], st[3]]
        out.append(st)
    return out


def for_fake(session):
    """The same session for a scripted screen: it has no job-control handlers of its own, so a suspend/resume is the
    application restarting the display itself (key "S")."""
    return [["keys", ["S"]] if st[0] == "suspend" else st for st in session]


def make_session(order, cycles=7, pipes=True):
    sizes = [[18, 5], [16, 4], [20, 6]]
    s = []
    for _ in range(cycles):
        s.extend(_cycle(order, sizes))
    if not pipes:
        s = [st for st in s if st[0] != "pipe"]
    s.append(["keys", ["Q"]])
    return s


def random_session(r, n, pipes=True):
    keys = ["a", "x", "z", "T", "P", "c", "ctrl l", "y", "S"]
    sizes = [[18, 5], [16, 4], [20, 6], [17, 7]]
    s = []
    for _ in range(n):
        t = r.random()
        if t < 0.55:
            b = []
            for _ in range(r.randint(1, 4)):
                if r.random() < 0.3:
                    ev = r.choice(["mouse press", "mouse release"])
                    b.append([ev, 0 if ev == "mouse release" else r.choice([1, 2, 3]), r.randint(0, 6), r.randint(0, 3)])
                else:
                    b.append(r.choice(keys))
            s.append(["keys", b])
        elif t < 0.75 and pipes:
            s.append(["pipe", r.choice(["p", "pipe-data", "\x00\xff"])])
        elif t < 0.83:
            s.append(["resize", *r.choice(sizes)])
        elif t < 0.9:
            b = [r.choice(keys) for _ in range(r.randint(1, 3))]
            if r.random() < 0.4:
                b.append(["mouse press", r.choice([1, 2]), r.randint(0, 6), r.randint(0, 3)])
            b.insert(r.randint(0, len(b)), "window resize")
            s.append(["mixed", b, *r.choice(sizes)])
        elif t < 0.95:
            s.append(["keys", ["T", "T"]])
        else:
            s.append(["suspend"])
    s.append(["keys", ["Q"]])
    return s


PTY_CFGS = [
    {"mouse": True, "paste": True, "focus": True, "sig": "custom", "termios": "default"},
    {"mouse": False, "paste": False, "focus": False, "sig": "dfl", "termios": "alt"},
    {"mouse": True, "paste": False, "focus": True, "sig": "ign", "termios": "default"},
    {"mouse": True, "paste": True, "focus": False, "sig": "dfl", "termios": "default"},
    # (the other four combinations of the three reporting options; "out": how the output stream buffers)
    {"mouse": False, "paste": True, "focus": True, "sig": "dfl", "termios": "default"},
    {"mouse": False, "paste": True, "focus": False, "sig": "custom", "termios": "alt", "out": "line"},
    {"mouse": False, "paste": False, "focus": True, "sig": "ign", "termios": "default"},
    {"mouse": True, "paste": False, "focus": False, "sig": "dfl", "termios": "alt", "out": "line"},
]

# Escape sequences that reach the screen in two reads (the cut at every byte boundary inside the sequence); the
# events of `before` are complete in the first read.  One group = the split steps of one session.
SPLITS = [
    [[[], ["up"], 1], [["a"], ["up", "x"], 2], [[], [["mouse press", 1, 0, 0]], 3], [["x"], ["f5"], 4], [[], ["meta y"], 1], [[], ["shift up"], 5]],
    [[["a", "x"], [["mouse press", 2, 2, 1], "a"], 1], [[], ["f5"], 2], [[], [["mouse release", 0, 2, 1]], 5], [[], ["delete"], 3], [["x"], ["f1"], 2], [[], ["page up", "a"], 1]],
    [[[], [["mouse press", 1, 0, 0]], c] for c in (2, 4)] + [[[], ["shift up"], c] for c in (1, 2, 3, 4)],
    [[[], ["f5"], c] for c in (1, 3)] + [[["a"], ["left"], 2], [[], ["f1"], 1], [["x"], ["right"], 1], [[], ["down", "x"], 2]],
]
LATE_S = 0.3  # the loop is kept running this long after the last split step (the screen's complete_wait is 0.125 s)


def split_session(group, tail="both"):
    """Keys, then the split sequences of SPLITS[group] (ordinary keys between some of them), then the loop keeps
    running - nothing arrives - for LATE_S, then a lone ESC (complete only by time-out), then the end."""
    s = [["keys", ["a", "x"]]]
    for i, (before, after, cut) in enumerate(SPLITS[group]):
        s.append(["split", before, after, cut])
        if i % 2:
            s.append(["keys", ["x", "up"] if i % 4 == 1 else ["a"]])
    if tail in ("both", "late"):
        s.append(["late-pipe", "p", LATE_S])
    if tail in ("both", "esc"):
        s.append(["keys", ["esc"]])
        s.append(["keys", ["a", "left"]])
    s.append(["keys", ["Q"]])
    return s


def direct_cases(quick):
    """The screen alone: start(alternate_buffer) / set_mouse_tracking / draw_screen / stop for every combination of
    alternate buffer x bracketed paste x focus reporting x mouse tracking (never, switched on before start, after
    start, on and off again), output to the pty or to a pipe; plus stop-and-start-again histories."""
    out = []

    def add(paste, focus, to, ops, kind="block"):
        cfg = {"mouse": False, "paste": paste, "focus": focus, "sig": "dfl", "termios": "default", "to": to, "out": kind}
        out.append({"screen": "pty_direct", "loop": "none", "pop_ups": False, "session": [], "inject": None, "pty": cfg, "ops": ops})

    for ab in (True, False):
        for paste in (False, True):
            for focus in (False, True):
                for mouse in ("never", "before", "after", "on-off"):
                    ops = [["start", ab], ["draw"], ["stop"]]
                    if mouse == "before":
                        ops.insert(0, ["mouse", True])
                    elif mouse == "after":
                        ops.insert(1, ["mouse", True])
                    elif mouse == "on-off":
                        ops[1:1] = [["mouse", True], ["draw"], ["mouse", False]]
                    for to in ("pty", "pipe"):
                        add(paste, focus, to, ops)
    for paste, focus in ((True, True), (True, False), (False, True)):
        add(paste, focus, "pty", [["start", True], ["draw"], ["stop"], ["start", False], ["mouse", True], ["draw"], ["stop"]])
        add(paste, focus, "pipe", [["mouse", True], ["start", False], ["stop"], ["stop"], ["start", True], ["draw"], ["stop"]], "line")
    return out


# Sessions in which the display is stopped and started again while run() is in progress (see _cycle: s, S, U); what
# follows a restart: more events of the same batch, keys, a resize (the screen's resize pipe), mouse reports, an alarm,
# watch_pipe data, a resize inside a batch, the redraw key.
RESTART_ORDERS = ["sKRUMTPSXL", "UKSRsTMUL", "SUsPKRYU"]
RESTART_CYCLES = 4


def injections(max_idx=6, excs=EXCS):
    return [{"kind": k, "idx": i, "exc": x} for k in KINDS for i in range(max_idx + 1) for x in excs]


def build_cases(tier, seed):
    """quick: every (kind, index<=6) for every loop x pop_ups with the exception type rotating, all three
    exception types for select/asyncio; thorough: the full grid for every loop, more session shapes."""
    loops = available_loops()
    r = rng(seed)
    quick = tier == "quick"
    cases = []
    orders = ["KMTPXRL", "LYRPTWMK"] if quick else ["KMTPXRL", "LYRPTWMK", "OTKPMR", "TTPPKO", "ZKRXMOL", "MOYPKTZW"]
    n_random = 3 if quick else 12
    core = ("select", "asyncio")

    def add(screen, loop, pop, session, inject, pty=None):
        c = {"screen": screen, "loop": loop, "pop_ups": pop, "session": session, "inject": inject}
        if pty is not None:
            c["pty"] = pty
        cases.append(c)

    def grid(full, salt):
        if full:
            return injections()
        return [
            {"kind": k, "idx": i, "exc": EXCS[(ki + i + salt) % len(EXCS)]}
            for ki, k in enumerate(KINDS)
            for i in range(7)
        ]

    # (a) fake screen with external event-loop support: every loop x pop_ups x injection grid
    for li, loop in enumerate(loops):
        for pop in (False, True):
            for oi, order in enumerate(orders):
                sess = for_fake(make_session(order))
                add("fake_hook", loop, pop, sess, None)
                if oi == 0 or (not quick and oi < 3):
                    for inj in grid(not quick or loop in core, li + int(pop)):
                        add("fake_hook", loop, pop, sess, inj)
            for _ in range(n_random):
                sess = for_fake(random_session(r, 14 if quick else 24))
                add("fake_hook", loop, pop, sess, None)
                if not quick:
                    for inj in injections(3, ("exc",)):
                        add("fake_hook", loop, pop, sess, inj)
    # (a') fake screen without external event-loop support (MainLoop's own SelectEventLoop, get_input)
    for pop in (False, True):
        for oi, order in enumerate(orders):
            sess = for_fake(make_session(order, pipes=False))
            add("fake_nohook", "select", pop, sess, None)
            if oi == 0 or not quick:
                for inj in injections():
                    if inj["kind"] != "pipe":
                        add("fake_nohook", "select", pop, sess, inj)
        for _ in range(n_random):
            add("fake_nohook", "select", pop, for_fake(random_session(r, 14, pipes=False)), None)
    # (b) the real raw_display.Screen on a pty; terminal configuration and pop_ups rotate through the grid
    n = 0
    for li, loop in enumerate(loops):
        for ci, cfg in enumerate(PTY_CFGS):
            for pop in (False, True):
                add("pty", loop, pop, for_pty(make_session(orders[ci % len(orders)])), None, cfg)
        for order in orders[:1] if quick else orders[:3]:
            sess = for_pty(make_session(order))
            for inj in grid(not quick or loop in core, li):
                cfg = PTY_CFGS[n % len(PTY_CFGS)]
                pop = (n // len(PTY_CFGS)) % 2 == 1
                n += 1
                add("pty", loop, pop, sess, inj, cfg)
        for _ in range(n_random):
            add("pty", loop, bool(n % 2), for_pty(random_session(r, 12)), None, PTY_CFGS[n % len(PTY_CFGS)])
            n += 1
    # (c) the real screen, escape sequences split over two reads, the loop kept running past complete_wait
    for li, loop in enumerate(loops):
        groups = range(len(SPLITS)) if (not quick or loop in core) else ((2 * li) % len(SPLITS), (2 * li + 1) % len(SPLITS))
        for g in groups:
            add("pty", loop, bool((g + li) % 2), split_session(g), None, PTY_CFGS[(g + li) % len(PTY_CFGS)])
        if not quick:
            for g in range(len(SPLITS)):
                for inj in ({"kind": "keypress", "idx": 3, "exc": "exc"}, {"kind": "unhandled", "idx": 2, "exc": "exit"}):
                    add("pty", loop, bool(g % 2), split_session(g), inj, PTY_CFGS[(g + li + 1) % len(PTY_CFGS)])
    # (e) the display is stopped and started again while run() is in progress (the application "shells out" from its
    # unhandled-input handler; job-control suspend / resume on the real screen): every loop, scripted screen with
    # pop_ups on/off, the real screen in every terminal configuration (all three initial SIGTSTP/SIGCONT dispositions);
    # an exception out of each callback kind after restarts
    for li, loop in enumerate(loops):
        for oi, order in enumerate(RESTART_ORDERS[:1] if quick else RESTART_ORDERS):
            sess = make_session(order, cycles=RESTART_CYCLES)
            for pop in (False, True):
                add("fake_hook", loop, pop, for_fake(sess), None)
            for ci, cfg in enumerate(PTY_CFGS):
                add("pty", loop, bool((ci + li + oi) % 2), for_pty(sess), None, cfg)
            n = 0
            for ki, k in enumerate(KINDS):
                for i in (1, 3, 5) if quick else range(7):
                    inj = {"kind": k, "idx": i, "exc": EXCS[(ki + i + li) % len(EXCS)]}
                    add("fake_hook", loop, bool((n + li) % 2), for_fake(sess), inj)
                    if not quick or loop in core:
                        add("pty", loop, bool((n + li + 1) % 2), for_pty(sess), inj, PTY_CFGS[(n + li) % len(PTY_CFGS)])
                    n += 1
    for oi, order in enumerate(RESTART_ORDERS[:1] if quick else RESTART_ORDERS):
        for pop in (False, True):
            add("fake_nohook", "select", pop, for_fake(make_session(order, cycles=RESTART_CYCLES, pipes=False)), None)
    # (d) the real screen without a MainLoop: every option combination, start ... stop
    cases.extend(direct_cases(quick))
    return cases, loops


def _case_key(case):
    return json.dumps(case, sort_keys=True)


def _sample(case, res):
    return {
        "screen": case["screen"],
        "loop": case["loop"],
        "pop_ups": case["pop_ups"],
        "inject": case.get("inject"),
        "steps": len(case["session"]),
        "outcome": res.get("outcome"),
        "trace_len": len(res.get("trace", [])),
    }


def run(tier="quick", seed=0) -> dict:
    t0 = time.time()
    cases, loops = build_cases(tier, seed)
    _preimport(loops)
    # watchdog 4 s/6 s -> 10 s, kill 9 s/12 s -> 20 s (triage: see _child_main; no session hangs on the current tree)
    results = run_cases(cases, procs=16, watchdog_s=10.0, kill_s=20.0)
    # Sessions with REAL job-control signals (SIGTSTP under SIG_DFL really stops the process, a helper process continues it)
    # depend on the wall clock and on what else the machine is doing: on 2026-09-29 three such random sessions (zmq /
    # twisted, after 5-13 restarts) failed in two thorough runs while another thorough run was active and passed in the
    # next four runs; each replays as not-reproduced.  A failure of such a session is therefore re-run, alone, up to two
    # more times, and reported only if it fails every time (a seeded or genuine defect of the restart logic does).
    retried = 0
    for _attempt in range(2):
        redo = [i for i, (case, res) in enumerate(zip(cases, results))
                if case.get("screen") == "pty" and any(st and st[0] == "suspend" for st in case.get("session", ()))
                and any(not v[0] for v in judge(case, res).values())]
        if not redo:
            break
        again = run_cases([cases[i] for i in redo], procs=4, watchdog_s=10.0, kill_s=20.0)
        for i, res in zip(redo, again):
            if all(v[0] for v in judge(cases[i], res).values()):
                results[i] = res
                retried += 1
    skipped = [l for l in ALL_LOOPS if l not in loops]
    bound = (
        "%d forked sessions: loops %s%s; screens fake+hook / fake without hook (select only) / raw Screen on a pty "
        "with a buffered output stream, terminal modes judged by the bytes that reached the master side when run() was "
        "over (%d configurations: all 8 of mouse x bracketed paste x focus reporting, initial signal handlers, initial "
        "termios, block/line buffering); "
        "pop_ups on/off; %d-stimulus cyclic sessions and random sessions, resizes alone and inside a batch of keys / "
        "mouse events (marker first, in the middle, last; last only on the pty); injection of ExitMainLoop/Exception/"
        "KeyboardInterrupt at invocation index 0..6 of %s; pty: %d groups of 6 escape sequences (arrows, function keys, "
        "modified arrows, SS3, ESC-prefixed key, X10 mouse reports) split over two reads at byte offsets 1..5, the loop "
        "kept running %.1f s after them, a lone ESC; %d start/stop histories of the screen alone (alternate buffer x "
        "paste x focus x mouse never/before/after/on-off x output to pty/pipe, restarts); the display stopped and started "
        "again INSIDE run() (unhandled-input handler does screen.stop(); screen.start() on key 'S' - alone, last or first "
        "of its batch; job-control SIGTSTP/SIGCONT on the pty under SIG_DFL [real stop, continued by a helper process] / "
        "SIG_IGN / an application handler), up to %d restarts per session followed by keys, mouse reports, a resize, "
        "alarms, watch_pipe data, every loop x all %d pty configurations x scripted screens, exceptions injected after restarts; "
        "a failing session with real job-control signals is re-run alone up to twice and counted only if it fails every time "
        "(this run: %d passed on a re-run)"
        % (
            len(cases),
            ",".join(loops),
            (" (not importable, skipped: %s)" % ",".join(skipped)) if skipped else "",
            len(PTY_CFGS),
            len(make_session("KMTPXRL")),
            "/".join(KINDS),
            len(SPLITS),
            LATE_S,
            len(direct_cases(tier == "quick")),
            sum(1 for st in make_session(RESTART_ORDERS[0], cycles=RESTART_CYCLES) if st[0] == "suspend" or (st[0] == "keys" and "S" in st[1])),
            len(PTY_CFGS),
            retried,
        )
    )
    checks = {name: Check(name, rule, exhaustive=True, bound=bound) for name, rule in CHECKS.items()}
    judged = [(case, res, judge(case, res)) for case, res in zip(cases, results)]
    # Check keeps the first 20 failures: feed one representative of each (check, screen, loop, kind, exception)
    # family first so that distinct defects are all visible in the report
    seen, first, rest = set(), [], []
    for item in judged:
        case, _res, verdicts = item
        inj = case.get("inject") or {}
        fam = {(n, case["screen"], case["loop"], inj.get("kind"), inj.get("exc")) for n, v in verdicts.items() if not v[0]}
        if fam - seen:
            seen |= fam
            first.append(item)
        else:
            rest.append(item)
    first.sort(key=lambda it: (it[0]["loop"] in ("select", "asyncio"), (it[0].get("inject") or {}).get("idx", 0)))
    for case, res, verdicts in first + rest:
        key = _case_key(case)
        for name, (ok, why, nontrivial) in verdicts.items():
            detail = None
            if not ok:
                detail = {"why": why, "case": case, "how": "bounded.C12.replay(%r, detail['case'])" % name}
                # flat copies of the distinguishing inputs, for known-finding `when` expressions (case.loop, ...)
                inj = case.get("inject") or {}
                detail.update(screen=case["screen"], loop=case["loop"], pop_ups=case["pop_ups"])
                detail.update(inject_kind=inj.get("kind"), inject_idx=inj.get("idx"), inject_exc=inj.get("exc"))
                for f in ("outcome", "exc_repr", "hung", "input_fd_open_after"):
                    if res.get(f) is not None:
                        detail[f] = res[f]
            checks[name].case(key, ok, detail, nontrivial, _sample(case, res))
    out = {"checks": [c.result() for c in checks.values()], "bound": bound}
    out["wall_s"] = round(time.time() - t0, 1)
    return out


def replay(check_name: str, case: dict) -> dict:
    case = case.get("case", case)
    _preimport(available_loops())
    res = run_cases([case], procs=1, watchdog_s=10.0, kill_s=20.0)[0]
    verdicts = judge(case, res)
    v = verdicts.get(check_name)
    detail = {
        "verdicts": {k: {"ok": a, "why": b} for k, (a, b, _c) in verdicts.items()},
        "outcome": res.get("outcome"),
        "exc_repr": res.get("exc_repr"),
        "hung": res.get("hung"),
    }
    for f in ("sig_before", "sig_after", "modes_after", "termios_before", "termios_after", "harness_error", "tb"):
        if res.get(f) is not None:
            detail[f] = res[f]
    if v is None:
        failing = [k for k, (a, _b, _c) in verdicts.items() if not a]
        # a hang or harness error is reported under C12/exit only
        return {"outcome": "confirmed" if failing else "not-reproduced", "detail": detail}
    return {"outcome": "not-reproduced" if v[0] else "confirmed", "detail": detail}
