"""C08 bounded stand-in: container focus is always a valid child and input follows the focus path.

The real Pile / Columns / GridFlow / Frame / Overlay / ListBox classes are built into small nestings over
instrumented leaves and driven through every history (up to a length bound) of keypresses, button-1
presses, focus_position / set_focus_path assignments (valid and invalid) and contents edits.  Next to
the widget tree the harness keeps a *reference tree* of plain lists / dicts that is updated by the same
list operation on a plain list; every oracle compares what the containers report with that reference
tree and with what the instrumented leaves observed (which leaf was offered a key, which leaf was
rendered with focus=True, which letter is drawn in the clicked cell).

Leaves: 'S' selectable / 'U' unselectable box+flow widgets that fill their area with their own letter
(upper case = selectable), hand every key back except 'h' (a selectable leaf consumes 'h'), and 'E', a
real urwid.Edit (cursor, pref_col, consumes characters and some arrows); and *decorated* leaves whose decoration
decides selectability differently from the widget it wraps: 'D' = WidgetDisable(selectable leaf) and 'W' =
AttrMap(WidgetDisable(selectable leaf)) are NOT selectable although their base_widget is, 'A' = AttrMap(selectable
leaf) is selectable ("selectable child" always means child.selectable(), the child being what sits in .contents, never
child.base_widget -- the container shortcut container[position] strips decorations).  The "focus path" a leaf is
tested against is computed *at the moment of the call* from the root by following each container's
focus_position through the reference tree.

Command maps: every container reads key bindings from self._command_map, by default the one shared urwid.command_map.
The operation "cmap" gives ONE Pile / Columns / ListBox a private map the documented way (w._command_map =
w._command_map.copy()) and edits the copy ('vi': j/k = cursor down/up and the arrows unbound; 'hl': j/k = cursor
right/left; 'clear': clear_command of two commands) -- or, the other way round ('shared'), leaves the copy alone and
edits the shared map.  The reference keeps a plain dict per map (spec.container_focus.DEFAULT_COMMANDS, the documented
defaults); "bound to no command" in the clauses below is judged on the reference maps of the containers on the focus
path, so a binding that leaks from one map into another shows as a swallowed key / a moved focus in the *other*
containers, and directly in the clause command-map-private.  The shared map is restored after every history.

Two modes: 'A' renders the root after construction and after every operation (as a main loop does;
clicks are only generated in this mode, on cells of the last drawn canvas); 'B' never renders before
the end of the history (so state that is only repaired by a render stays visible).

Only the last operation of each enumerated history is evaluated (its prefixes are separate cases), so
`evaluations` counts (history, clause) pairs without double counting.  A history stops at the first
exception of the code under test (recorded as a failure "raised ...") and at an invalid position that
was accepted, because the state is not trustworthy afterwards.

Failures are grouped by a signature (`sig` in each failure dict; stable, usable in known_findings
`when` expressions); `failures` holds the smallest history per signature, `failure_signatures` the counts.

Readings of the statement adopted in the oracles (see also the comments next to each clause):
 * "on the focus path" is judged at the moment the leaf's keypress()/render(focus=True) is entered: a
   ListBox completes its deferred "first selectable" focus choice at the start of its first keypress
   or render, so the path before the call is not the path the input travels.
 * "arrow keys" are up/down/left/right.  home/end/page keys are not (ListBox home/end go to the first/
   last item whatever it is).  A ListBox whose items do not fit in its view scrolls with the arrows and
   must then move the focus to keep it visible, also onto an unselectable item: exempt (counted as
   trivial); a ListBox whose items all fit is held to the clause.
 * "offered only to widgets on the focus path" bounds where a key may go; it does not promise that the key
   arrives.  "The key reaches the drawn focus leaf" is therefore its own check, key-delivered, listed in
   INFORMATIONAL (observations, never violations).
 * "an unhandled key comes back unchanged": the value returned by the root is None or the key; a key
   bound to no command that no leaf consumed must come back.  The extra "and no focus moved" is not
   applied to ListBox (deferred focus choice, above).
 * A button-1 press must focus each selectable child on the way to the drawn leaf (positive direction
   only; "selectable" is what child.selectable() reports before the press, stale or not).
 * Invalid positions: out of range, -1 (urwid positions are not Python negative indices), None, a
   string, 0.5, a list; Frame: a missing part, an unknown name, a non-string; Overlay: anything but 1
   (position 0 exists in .contents but cannot take the focus).  bool and 1.0 are outside the scope.
 * "valid position" is additionally read through the container protocol in `positions-enumerable`
   (iter(container), len(container.contents), Frame.contents keys).
"""
from __future__ import annotations

import itertools
import json
import multiprocessing
import os
import re
import time
import warnings

import urwid
from urwid import str_util
from urwid import util as urwid_util
from urwid.canvas import CanvasCache

from bounded.common import Check, rng
from spec.container_focus import (
    COMMAND_EDITS,
    DEFAULT_COMMANDS,
    LIST_KINDS,
    apply_command_edits,
    arrow_of,
    contents_len,
    flat_arrow_expectation,
    hashable,
    is_valid_position,
    iteration_positions,
    valid_focus_positions,
)

_Command = type(urwid.CURSOR_UP)  # the Command enum (a str enum: members equal their string values)

ID = "C08"
ROOT_SIZE = (16, 12)
LEAFS = ("S", "U", "E", "D", "W", "A")
PLAIN = ("S", "U", "D", "W", "A")  # leaves that hand every key back except a selectable one's 'h'
DECORATED = ("D", "W", "A")
ARROWS = ("up", "down", "left", "right")
VI_KEYS = ["j", "k"]  # plain characters, bound to nothing by default; the private command maps bind them
CMAP_KINDS = ("Pile", "Columns", "ListBox")  # containers whose own keypress consults self._command_map
PROBE_KEYS = [*DEFAULT_COMMANDS, "j", "k", "x", "h"]
KEYS_FULL = ["up", "down", "left", "right", "page up", "page down", "home", "end", "x", "h"]
KEYS_RED = ["up", "down", "left", "right", "x", "h"]
UP = "ABCDEFGHIJKLMNOPQRSTUVWXYZ"
MAX_KIDS = 4

RULES = {
    "focus-valid": "after construction, after every operation and after every render: every non-empty container reports a focus_position that is a valid position of the reference tree, .focus is the reference child at that position, .contents[position][0] is .focus, container[position] is focus.base_widget, the contents equal the reference list, and get_focus_path() equals the positions read level by level",
    "empty-no-focus": "an empty Pile/Columns/GridFlow/ListBox reports focus None, raises IndexError on reading focus_position, and get_focus_path() from it is []",
    "invalid-position": "assigning a position outside the valid ones (out of range, negative, None, a string, a non-integer, a list, a missing Frame part, Overlay position 0) raises IndexError and changes no focus anywhere; a valid assignment is accepted, is read back, and changes no other container",
    "keypress-focus-path": "keypress(root) raises nothing; every leaf whose keypress is invoked lies on the focus path at that moment",
    "key-delivered": "(informational, beyond the statement) when every widget on the focus path is selectable and the focus leaf is drawn, a keypress reaches a leaf on the focus path",
    "unhandled-key-unchanged": "the value returned by root.keypress is None or the key itself; when no leaf consumed it and it is not bound to a command it comes back unchanged and no focus moved; when a leaf consumed it the root returns None",
    "arrow-selectable": "after up/down/left/right every container whose focus changed has its focus on a child reporting selectable() (ListBox: only when all its items fit in its view, since a scrolling ListBox moves the focus to keep it visible); in a flat Pile/Columns/one-row GridFlow/fitting ListBox over plain leaves the focus goes to the nearest selectable child in the direction and the key is consumed, otherwise nothing moves and the key comes back",
    "selectable-after-edit": "directly after construction and after each contents edit (insert, delete, item/slice assignment, clearing, contents = ...) of a Pile, Columns or GridFlow, before any render: selectable() == any(child.selectable())",
    "render-focus-path": "render(root, focus=True): every leaf rendered with focus=True lies on the focus path at that moment and the focus leaf, if rendered, is rendered with focus=True; render(root, focus=False): no leaf is rendered with focus=True; neither raises",
    "click-focus": "a button-1 press on a cell where leaf X is drawn raises nothing and, for every container on the way from the root to X whose child on that way reports selectable(), makes that child the container's focus",
    "focus-path-roundtrip": "set_focus_path(p) for a path p read earlier by get_focus_path() (no contents edit in between) restores p and the same focus leaf; set_focus_path of any valid path makes it a prefix of get_focus_path(); an invalid path (bad position, or continuing below a leaf) raises IndexError",
    "assignment-kept": "a valid focus_position assignment or set_focus_path that was accepted is not undone by what follows without navigating: after the next render(s) of the root and after every following key that is bound to no command, each container assigned to still reports the assigned position and that child as its focus (the path written is the path read back later), and every leaf offered such a key inside an assigned container lies under the assigned child (input follows the focus path that was written); positions *below* a ListBox on the written path are exempt (the ListBox re-chooses the focus inside the newly focused item when it completes the change: known finding KF2)",
    "command-map-private": "after one Pile/Columns/ListBox was given a private command map (w._command_map = w._command_map.copy()) and the copy was edited through the mapping API ('vi': j/k bound to cursor down/up, up/down unbound; 'hl': j/k bound to cursor right/left, left/right unbound; 'clear': clear_command of two commands) -- or the copy left alone and the shared map edited ('shared') -- and after every later operation: the shared urwid.command_map holds exactly the reference bindings, every container answers _command_map[key] for every default key and j/k/x/h as its own reference map does (the private one where it has one, the shared one otherwise: an edit shows in the edited map only), and a CommandMap() created now holds the documented defaults; the behavioural side (an unhandled 'j' comes back unchanged from the other containers, the arrows still navigate there) is judged by unhandled-key-unchanged / arrow-selectable on the reference maps",
    "random-histories": "every clause above, evaluated at every step of seeded random histories on seeded random nestings of depth <= 3 (leaves S/U/E); non-exhaustive; failures carry the clause in `clause` and `sig`",
    "positions-enumerable": "iter(container) yields exactly the valid positions of the reference tree in order, len(container.contents) is their number, and for a Frame iter(frame.contents) yields the parts present",
}

# Checks whose failures are observations, not violations: clauses that read more into the statement than it says.
#  key-delivered: the statement bounds where a key may go ("offered only to widgets on the focus path") and what
#  happens to an unhandled key ("comes back unchanged"); it does not promise delivery.  Observed on this tree:
#  Frame.keypress computes the body height from the *untrimmed* header/footer rows, so in a Frame squeezed until
#  header + footer ask for every row the body is still drawn (render trims header/footer via frame_top_bottom)
#  but keys are handed back instead of being passed to it.
INFORMATIONAL = {
    f"{ID}/key-delivered": "delivery of a key to the drawn focus leaf is a reading beyond the statement (which only says keys go nowhere else and unhandled keys come back); Frame.keypress hands keys back when untrimmed header+footer rows fill the frame although render still shows the body",
}

# sub-trees that an edit may insert (besides plain leaves)
SUBTREES = {"PS": ["Pile", ["S"]], "P0": ["Pile", []], "CS": ["Columns", ["U", "S"]]}


class Stop(Exception):
    """The history cannot be continued (the code under test raised, or accepted a corrupting value)."""


class Node:
    __slots__ = ("kind", "cid", "widget", "base", "kids", "parts", "sel", "name", "cctx", "cmap")

    def __init__(self, kind):
        self.kind = kind
        self.cid = -1
        self.widget = self.base = None
        self.kids = None
        self.parts = None
        self.sel = False
        self.name = None
        self.cctx = None
        self.cmap = None  # reference private command map (plain dict), None = reads the shared map

    def children(self):
        """position -> child node, for the valid positions of the reference tree."""
        if self.kind in LIST_KINDS:
            return dict(enumerate(self.kids))
        if self.kind == "Frame":
            return {k: v for k, v in self.parts.items() if v is not None}
        if self.kind == "Overlay":
            return {1: self.parts[1]}
        return {}

    def is_leaf(self):
        return self.kind in LEAFS


class Leaf(urwid.Widget):
    _sizing = frozenset([urwid.BOX, urwid.FLOW])

    def __init__(self, h, node, sel):
        super().__init__()
        self._h = h
        self._node = node
        self._sel = sel

    def selectable(self):
        return self._sel

    def rows(self, size, focus=False):
        return 1

    def render(self, size, focus=False):
        self._h.on_render(self._node, focus)
        return urwid.SolidCanvas(self._node.name, size[0], size[1] if len(size) > 1 else 1)

    def keypress(self, size, key):
        ret = None if (self._sel and key == "h") else key
        self._h.on_key(self._node, key, ret)
        return ret

    def mouse_event(self, size, event, button, col, row, focus):
        return self._sel


class TEdit(urwid.Edit):
    _h = None
    _node = None

    def render(self, size, focus=False):
        if self._h is not None:
            self._h.on_render(self._node, focus)
        return super().render(size, focus)

    def keypress(self, size, key):
        ret = super().keypress(size, key)
        if self._h is not None:
            self._h.on_key(self._node, key, ret)
        return ret


class TListBox(urwid.ListBox):
    _h = None
    _cid = None

    def keypress(self, size, key):
        if self._h is not None:
            self._h.lb_sizes[self._cid] = tuple(size)
            self._h.lb_settled.add(self._cid)
        return super().keypress(size, key)

    def render(self, size, focus=False):
        if self._h is not None:
            self._h.lb_settled.add(self._cid)
        return super().render(size, focus)


def _exc(e):
    return f"{type(e).__name__}: {e}"[:200]


def _sigmsg(e):
    """Stable signature of an exception: type + message with numbers and widget reprs removed."""
    m = re.sub(r"<[^>]*>+", "W", str(e))
    m = re.sub(r"[0-9]+", "N", m)
    m = re.sub(r"[^A-Za-z_]+", "-", m).strip("-")
    return f"raised-{type(e).__name__}-{m[:44]}"


def _where(e):
    """"file.py:function" of the innermost frame inside the urwid package that the exception passed through."""
    out = ""
    tb = e.__traceback__
    pkg = os.path.dirname(os.path.abspath(urwid.__file__)) + os.sep
    while tb is not None:
        code = tb.tb_frame.f_code
        if os.path.abspath(code.co_filename).startswith(pkg):
            out = f"{os.path.basename(code.co_filename)}:{code.co_name}"
        tb = tb.tb_next
    return out


class H:
    def __init__(self, tree, mode):
        self.tree = tree
        self.mode = mode
        self.nodes = {}
        self.next_cid = 0
        self.nleaf = 0
        self.by_letter = {}
        self.recording = False
        self.out = []  # (check, ok, why, sig, nontrivial, extra)
        self.ops_done = []
        self.keylog = None
        self.renderlog = None
        self.lb_sizes = {}
        self.lb_settled = set()  # ListBoxes that have been rendered or offered a key (their deferred first focus choice is made)
        self.text = None
        self.paths = []
        self.last_edit_state = 0
        self.assigned = None  # [(container node, position)] of the last accepted assignment, while nothing navigated or edited since
        self.shared_ref = dict(DEFAULT_COMMANDS)  # reference of the shared urwid.command_map
        self.cmap_touched = False
        self.root = self.build(tree, "box")

    # ------------------------------------------------------------------ building
    def _reg(self, n):
        n.cid = self.next_cid
        self.next_cid += 1
        self.nodes[n.cid] = n
        return n

    def build(self, spec, ctx):
        if isinstance(spec, str) and spec in SUBTREES:
            spec = SUBTREES[spec]
        if isinstance(spec, str):
            n = self._reg(Node(spec))
            idx = self.nleaf
            self.nleaf += 1
            letter = UP[idx % 26]
            n.sel = spec not in ("U", "D", "W")  # what the CHILD (the widget put into .contents) reports
            n.name = letter if n.sel else letter.lower()
            self.by_letter[n.name] = n if idx < 26 else None
            if spec in DECORATED:
                # the decoration decides: WidgetDisable switches selectable() off whatever it wraps; AttrMap delegates
                inner = Leaf(self, n, True)
                n.base = inner
                if spec == "D":
                    n.widget = urwid.WidgetDisable(inner)
                elif spec == "W":
                    n.widget = urwid.AttrMap(urwid.WidgetDisable(inner), None)
                else:
                    n.widget = urwid.AttrMap(inner, None)
            elif spec == "E":
                w = TEdit("", n.name * 2)
                w._h, w._node = self, n
                n.base = w
                n.widget = urwid.Filler(w, "top") if ctx == "box" else w
            else:
                n.base = n.widget = Leaf(self, n, n.sel)
            return n
        kind = spec[0]
        n = self._reg(Node(kind))
        if kind == "Pile":
            n.cctx = ctx
            n.kids = [self.build(s, ctx) for s in spec[1]]
            n.base = n.widget = urwid.Pile([k.widget for k in n.kids])
        elif kind == "Columns":
            n.cctx = ctx
            n.kids = [self.build(s, ctx) for s in spec[1]]
            n.base = n.widget = urwid.Columns([k.widget for k in n.kids], dividechars=1)
        elif kind == "GridFlow":
            n.cctx = "flow"
            n.kids = [self.build(s, "flow") for s in spec[1]]
            n.base = urwid.GridFlow([k.widget for k in n.kids], 3, 1, 0, "left")
            n.widget = urwid.Filler(n.base, "top") if ctx == "box" else n.base
        elif kind == "ListBox":
            n.cctx = "flow"
            n.kids = [self.build(s, "flow") for s in spec[2]]
            walker = (urwid.SimpleFocusListWalker if spec[1] == "F" else urwid.SimpleListWalker)([k.widget for k in n.kids])
            n.base = TListBox(walker)
            n.base._h, n.base._cid = self, n.cid
            n.widget = urwid.BoxAdapter(n.base, 3) if ctx == "flow" else n.base
        elif kind == "Frame":
            body = self.build(spec[1], "box")
            header = self.build(spec[2], "flow") if spec[2] is not None else None
            footer = self.build(spec[3], "flow") if spec[3] is not None else None
            n.parts = {"header": header, "body": body, "footer": footer}
            n.base = urwid.Frame(body.widget, header.widget if header else None, footer.widget if footer else None)
            n.widget = urwid.BoxAdapter(n.base, 5) if ctx == "flow" else n.base
        elif kind == "Overlay":
            top = self.build(spec[1], "box")
            n.parts = {1: top}
            n.base = urwid.Overlay(top.widget, urwid.SolidFill("."), "left", ("relative", 80), "top", ("relative", 80))
            n.widget = urwid.BoxAdapter(n.base, 3) if ctx == "flow" else n.base
        else:
            raise ValueError(spec)
        return n

    # ------------------------------------------------------------------ reference traversal
    def containers(self):
        out = []
        stack = [self.root]
        while stack:
            n = stack.pop()
            if n.is_leaf():
                continue
            out.append(n)
            stack.extend(reversed(list(n.children().values())))
        return out

    def chain(self):
        """Nodes on the focus path right now: follow each container's focus_position in the reference tree."""
        out = []
        n = self.root
        while True:
            out.append(n)
            if n.is_leaf():
                return out
            try:
                p = n.base.focus_position
            except Exception:  # noqa: BLE001
                return out
            if not hashable(p):
                return out
            nxt = n.children().get(p)
            if nxt is None:
                return out
            n = nxt

    def path_to(self, leaf):
        """[(container, child-on-the-way)] from the root to the leaf, or None when the leaf is not in the tree."""

        def rec(n):
            if n is leaf:
                return []
            if n.is_leaf():
                return None
            for c in n.children().values():
                r = rec(c)
                if r is not None:
                    return [(n, c), *r]
            return None

        return rec(self.root)

    def snapshot(self):
        s = {}
        for n in self.containers():
            try:
                p = repr(n.base.focus_position)
            except Exception as e:  # noqa: BLE001
                p = f"<{type(e).__name__}>"
            try:
                f = id(n.base.focus)
            except Exception as e:  # noqa: BLE001
                f = f"<{type(e).__name__}>"
            s[n.cid] = (p, f)
        return s

    # ------------------------------------------------------------------ hooks
    def on_render(self, node, focus):
        if self.renderlog is not None:
            self.renderlog.append((node, bool(focus), (node in self.chain()) if focus else None))

    def on_key(self, node, key, ret):
        if self.keylog is not None:
            self.keylog.append((node, key, ret, node in self.chain()))

    # ------------------------------------------------------------------ recording
    def rec(self, check, ok, why="", sig="", nontrivial=True, **extra):
        if self.recording:
            self.out.append((check, bool(ok), why, sig, nontrivial, extra))

    def zero_rows(self):
        """Containers of the tree that are flow widgets reporting rows() == 0 right now (e.g. an empty Pile).
        Recorded with every "raised" failure: a zero-row child breaks the parents that stack or page over it
        (a defect of the size contract, not of the focus rules), and the field lets a known finding say so."""
        out = []
        for n in self.containers():
            try:
                if urwid.FLOW in n.base.sizing() and n.base.rows((ROOT_SIZE[0],), False) == 0:
                    out.append(f"{n.kind}#{n.cid}")
            except Exception:  # noqa: BLE001, S110
                pass
        return out

    def raised(self, check, what, e, sig=None):
        # `where`: innermost urwid frame the exception came from ("file.py:function") - two different defects can
        # raise the same type and message (e.g. "cannot unpack non-iterable NoneType object"), and a known finding
        # must be able to tell them apart
        # The signature carries the discriminators too (raising site, presence of a zero-row container): only one
        # representative per signature is reported, so two causes must never share a signature.
        where, zero = _where(e), self.zero_rows()
        self.rec(check, False, f"{what} raised {_exc(e)}", f"{sig or _sigmsg(e)}@{where}{'+zero-rows' if zero else ''}", zero_rows=zero, exc=type(e).__name__, where=where)
        raise Stop from e

    # ------------------------------------------------------------------ invariants
    def inv(self, when):
        ok_all = True
        n_nonempty = 0
        for n in self.containers():
            cm = n.children()
            c = n.base
            lab = f"{n.kind}#{n.cid}"
            if not cm:
                problems = []
                try:
                    f = c.focus
                    if f is not None:
                        problems.append(f"empty {lab} reports focus {f!r}")
                except Exception as e:  # noqa: BLE001
                    problems.append(f"empty {lab}.focus raised {_exc(e)}")
                try:
                    p = c.focus_position
                    problems.append(f"empty {lab} reports focus_position {p!r}")
                except IndexError:
                    pass
                except Exception as e:  # noqa: BLE001
                    problems.append(f"empty {lab}.focus_position raised {_exc(e)} (not IndexError)")
                try:
                    gp = c.get_focus_path()
                    if gp != []:
                        problems.append(f"empty {lab}.get_focus_path() = {gp!r}")
                except Exception as e:  # noqa: BLE001
                    problems.append(f"empty {lab}.get_focus_path() raised {_exc(e)}")
                self.rec("empty-no-focus", not problems, "; ".join(problems), f"empty-{n.kind}", when=when)
                continue
            n_nonempty += 1
            why = None
            sig = ""
            try:
                p = c.focus_position
            except Exception as e:  # noqa: BLE001
                why, sig = f"non-empty {lab}.focus_position raised {_exc(e)}", "position-raised"
            if why is None:
                if not is_valid_position(n.kind, p, len(n.kids or ()), tuple(cm)):
                    why, sig = f"{lab}.focus_position = {p!r} is not a valid position (valid: {list(cm)})", "position-invalid"
            if why is None:
                try:
                    f = c.focus
                    if f is not cm[p].widget:
                        why, sig = f"{lab}.focus is {f!r}, but the child at position {p!r} is {cm[p].widget!r}", "focus-not-child"
                    else:
                        try:
                            item = c.contents[p]
                            if item[0] is not f:
                                why, sig = f"{lab}.contents[{p!r}][0] is {item[0]!r}, not .focus {f!r}", "contents-not-focus"
                        except Exception as e:  # noqa: BLE001
                            why, sig = f"{lab}.contents[{p!r}] raised {_exc(e)} although focus_position is {p!r}", "contents-raised"
                        if why is None:
                            g = c[p]
                            if g is not f.base_widget:
                                why, sig = f"{lab}[{p!r}] is {g!r}, not focus.base_widget", "getitem-not-focus"
                except Exception as e:  # noqa: BLE001
                    why, sig = f"{lab} focus/contents access raised {_exc(e)}", "access-raised"
            if why is None and n.kind in LIST_KINDS:
                try:
                    real = list(c.body) if n.kind == "ListBox" else [w for w, _o in c.contents]
                    want = [k.widget for k in n.kids]
                    if len(real) != len(want) or any(a is not b for a, b in zip(real, want)):
                        why, sig = f"{lab} contents differ from the reference list", "contents-differ"
                except Exception as e:  # noqa: BLE001
                    why, sig = f"{lab} reading contents raised {_exc(e)}", "access-raised"
            if why is not None:
                ok_all = False
                self.rec("focus-valid", False, why, sig, when=when)
        # get_focus_path() == positions read level by level through the reference tree
        try:
            got = self.root.base.get_focus_path() if not self.root.is_leaf() else []
            want = []
            for n in self.chain():
                if n.is_leaf():
                    break
                try:
                    want.append(n.base.focus_position)
                except IndexError:
                    break
            if ok_all and got != want:
                ok_all = False
                self.rec("focus-valid", False, f"get_focus_path() = {got!r}, level by level = {want!r}", "focus-path-differs", when=when)
        except Exception as e:  # noqa: BLE001
            if ok_all:
                ok_all = False
                self.rec("focus-valid", False, f"get_focus_path() raised {_exc(e)}", "focus-path-raised", when=when)
        if ok_all:
            self.rec("focus-valid", True, nontrivial=n_nonempty > 0, when=when)
        return ok_all

    def selectable_clause(self, nodes, when):
        for n in nodes:
            if n.kind not in ("Pile", "Columns", "GridFlow"):
                continue
            try:
                want = any(k.widget.selectable() for k in n.kids)
                got = n.base.selectable()
            except Exception as e:  # noqa: BLE001
                self.raised("selectable-after-edit", f"{n.kind}#{n.cid}.selectable()", e)
            self.rec(
                "selectable-after-edit",
                got == want,
                f"{n.kind}#{n.cid}.selectable() is {got} {when}, children selectable: {[k.widget.selectable() for k in n.kids]}",
                f"stale-selectable-{n.kind}",
                kind=n.kind,
            )

    # ------------------------------------------------------------------ render probe
    def probe(self):
        root = self.root.widget
        CanvasCache.clear()
        self.renderlog = []
        try:
            canv = root.render(ROOT_SIZE, focus=True)
            self.text = [bytes(t).decode("utf-8", "replace") for t in canv.text]
        except Exception as e:  # noqa: BLE001
            self.renderlog = None
            self.raised("render-focus-path", "render(root, focus=True)", e)
        log, self.renderlog = self.renderlog, []
        bad = sorted({n.name for n, f, onp in log if f and not onp})
        ch = self.chain()
        why = ""
        sig = ""
        if bad:
            why, sig = f"leaves {bad} rendered with focus=True are not on the focus path {[x.name or x.kind for x in ch]}", "focus-off-path"
        elif ch[-1].is_leaf() and ch[-1].kind not in ("D", "W"):
            # Oracle correction: a leaf below a WidgetDisable is exempt -- WidgetDisable is documented to pass focus=False
            # to the widget it wraps "even if it somehow does become the focus" (it can: an unselectable child is a
            # legitimate focus, e.g. the first child of a container without selectable children); the negative side
            # (no leaf OFF the focus path is rendered with focus) applies to it as to every leaf.
            calls = [f for n, f, _ in log if n is ch[-1]]
            if calls and not any(calls):
                why, sig = f"focus leaf {ch[-1].name} is rendered, but only with focus=False", "focus-leaf-unfocused"
        self.rec("render-focus-path", not why, why, sig, nontrivial=any(f for _, f, _ in log))
        CanvasCache.clear()
        try:
            root.render(ROOT_SIZE, focus=False)
        except Exception as e:  # noqa: BLE001
            self.renderlog = None
            self.raised("render-focus-path", "render(root, focus=False)", e)
        log, self.renderlog = self.renderlog, None
        bad = sorted({n.name for n, f, _ in log if f})
        self.rec("render-focus-path", not bad, f"root rendered with focus=False, yet leaves {bad} got focus=True", "focus-without-root-focus", nontrivial=bool(log))
        CanvasCache.clear()

    # ------------------------------------------------------------------ operations
    def apply(self, op):
        k = op[0]
        if k in ("click", "edit"):
            self.assigned = None
        if k == "key":
            self.op_key(op[1])
        elif k == "click":
            self.op_click(op[1], op[2])
        elif k == "setfocus":
            self.op_setfocus(op[1], op[2])
        elif k == "setpath":
            self.op_setpath(op[1])
        elif k == "edit":
            self.op_edit(op)
        elif k == "cmap":
            self.op_cmap(op[1], op[2])
        else:
            raise ValueError(op)

    def ref_cmd(self, n, key):
        """The command `key` is bound to for container n, by the reference maps (None = unbound)."""
        return (n.cmap if n.cmap is not None else self.shared_ref).get(key)

    def cursor_bound(self, chain, key):
        """Does some container on the chain bind `key` to one of the four cursor (arrow) commands?"""
        return any(arrow_of(self.ref_cmd(n, key)) is not None for n in chain if not n.is_leaf())

    def op_key(self, key):
        if any(self.ref_cmd(n, key) is not None for n in self.containers()) or self.shared_ref.get(key) is not None:
            self.assigned = None  # a navigation key may move any focus
        before = self.snapshot()
        chain0 = self.chain()
        self.keylog = []
        self.lb_sizes = {}
        try:
            r = self.root.widget.keypress(ROOT_SIZE, key)
        except Exception as e:  # noqa: BLE001
            self.keylog = None
            self.raised("keypress-focus-path", f"keypress(root, {key!r})", e)
        log, self.keylog = self.keylog, None
        after = self.snapshot()
        changed = [cid for cid in before if after.get(cid) != before[cid]]
        # offered only to the focus path
        off = sorted({n.name for n, _k, _r, onp in log if not onp})
        self.rec("keypress-focus-path", not off, f"keypress({key!r}) was offered to leaves {off} that are not on the focus path", "offered-off-path", nontrivial=bool(log))
        if self.assigned:
            self.assignment_clause(f"keypress({key!r})", "key", [n for n, _k, _r, _o in log])
        # reaches the focus leaf when the whole focus path is selectable and the leaf is drawn
        if self.mode == "A" and self.text is not None and chain0[-1].is_leaf():
            leaf = chain0[-1]
            try:
                all_sel = all(n.widget.selectable() for n in chain0)
            except Exception:  # noqa: BLE001
                all_sel = False
            drawn = any(leaf.name in row for row in self.text)
            if all_sel and drawn:
                got = any(n is leaf for n, _k, _r, _o in log)
                # the first key after construction may legitimately be preceded by a ListBox settling its focus
                # ("first selectable"), so the leaf that must be reached is the focus leaf at call time, which the
                # hook already tests; here: *some* leaf on the path got the key
                # Oracle correction: this clause used to be part of keypress-focus-path.  The statement only says a
                # keypress is offered *only to* widgets on the focus path and that an unhandled key comes back
                # unchanged; it does not say the key must *reach* the focus leaf.  Delivery is a reading beyond the
                # statement, so it is recorded under its own check name, listed in INFORMATIONAL.
                self.rec("key-delivered", got or bool(log), f"every widget on the focus path is selectable and focus leaf {leaf.name} is drawn, but keypress({key!r}) reached no leaf", "not-delivered")
        # returned value
        consumed = [n.name for n, _k, ret, _o in log if ret is None]
        # "bound to no command": for every container the key travels through (the focus path at the call), by that
        # container's own reference command map -- private where it was given one, the shared one otherwise
        # The containers the key may have travelled through: the focus path before and after the call, and -- a ListBox
        # completes its deferred focus choice at the start of the call (module docstring), so the path before the call
        # is not the path the input travels -- everything below a ListBox on either path.
        via = [n for n in [*chain0, *self.chain()] if not n.is_leaf()]
        for lb in [n for n in via if n.kind == "ListBox"]:
            stack = [lb]
            while stack:
                m = stack.pop()
                if not m.is_leaf():
                    via.append(m)
                    stack.extend(m.children().values())
        cmd = next((c for c in (self.ref_cmd(n, key) for n in via) if c is not None), None)
        if not via:
            cmd = self.shared_ref.get(key)
        why = sig = ""
        if r is not None and r != key:
            why, sig = f"keypress({key!r}) returned {r!r}", "key-changed"
        elif consumed and r is not None:
            why, sig = f"leaf {consumed} consumed {key!r} but the root returned {r!r}", "consumed-but-returned"
        elif not consumed and cmd is None:
            if r != key:
                why, sig = f"{key!r} is bound to no command and no leaf consumed it, yet the root returned {r!r}", "unhandled-swallowed"
            else:
                # Oracle note: a ListBox completes its deferred "first selectable" focus choice on the first
                # keypress *or* render; in mode B that shows up as a focus change during an unhandled key.  The
                # statement only requires the key to come back, so ListBox focus changes are not held against it.
                # The completion also calls move_cursor_to_coords on the new focus widget, which may re-choose the
                # focus inside that item: no ListBox on the focus path -> the clause applies.
                moved = [c for c in changed if self.nodes[c].kind != "ListBox"]
                if moved and not any(n.kind == "ListBox" for n in chain0):
                    why, sig = f"{key!r} is bound to no command and came back, yet the focus of containers {moved} changed", "unhandled-moved-focus"
        self.rec("unhandled-key-unchanged", not why, why, sig, nontrivial=True, key=key)
        # arrows move focus only onto selectable children
        if key in ARROWS or self.cursor_bound(chain0, key):
            problems = []
            exempt = 0
            for cid in changed:
                n = self.nodes[cid]
                try:
                    p = n.base.focus_position
                    child = n.children().get(p) if hashable(p) else None
                except Exception:  # noqa: BLE001
                    child = None
                if child is None:
                    continue  # focus-valid reports it
                if child.widget.selectable():
                    continue
                if n.kind == "ListBox" and not self.lb_fits(n):
                    exempt += 1
                    continue
                problems.append(f"{n.kind}#{n.cid} focus moved to position {p!r} whose child is not selectable")
            self.rec("arrow-selectable", not problems, "; ".join(problems), "arrow-onto-unselectable", nontrivial=bool(changed) and exempt < len(changed), key=key)
            self.flat_clause(key, before, r)

    def lb_fits(self, n):
        size = self.lb_sizes.get(n.cid)
        if size is None:
            return True
        try:
            return sum(k.widget.rows((size[0],), True) for k in n.kids) <= size[1]
        except Exception:  # noqa: BLE001
            return False

    def flat_clause(self, key, before, r):
        n = self.root
        if n.kind not in LIST_KINDS or any(k.kind not in PLAIN for k in n.kids):
            return
        if n.kind == "ListBox" and (self.mode != "A" or not self.lb_fits(n)):
            return
        if n.kind == "GridFlow" and len(n.kids) * 4 - 1 > ROOT_SIZE[0]:
            return
        p0 = before[n.cid][0]
        i = int(p0) if p0.lstrip("-").isdigit() else None
        sel = [k.sel for k in n.kids]
        if n.kids and i is None:
            return
        # the key counts as the arrow its command (in the root's own reference command map) stands for; an arrow key
        # that the root's private map unbinds is an ordinary unhandled key: nothing moves, it comes back
        arrow = arrow_of(self.ref_cmd(n, key))
        want_i, want_handled = flat_arrow_expectation(n.kind, sel, i, arrow) if arrow is not None else (i if n.kids else None, False)
        try:
            got_i = n.base.focus_position if n.kids else None
        except Exception:  # noqa: BLE001
            got_i = "<raised>"
        ok = (got_i == want_i) and ((r is None) == want_handled)
        self.rec(
            "arrow-selectable",
            ok,
            f"flat {n.kind} selectable={sel} focus {i}, {key!r}: expected focus {want_i} and the key {'consumed' if want_handled else 'returned'}; got focus {got_i}, returned {r!r}",
            "flat-nearest",
            key=key,
        )

    def op_click(self, col, row):
        ch = self.text[row][col] if self.text and row < len(self.text) and col < len(self.text[row]) else " "
        leaf = self.by_letter.get(ch)
        way = self.path_to(leaf) if leaf is not None else None
        expect = []
        if way:
            for c, d in way:
                if c.kind == "Overlay":
                    continue
                try:
                    if d.widget.selectable():
                        expect.append((c, d))
                except Exception:  # noqa: BLE001
                    pass
        try:
            self.root.widget.mouse_event(ROOT_SIZE, "mouse press", 1, col, row, True)
        except Exception as e:  # noqa: BLE001
            self.raised("click-focus", f"mouse_event(root, 'mouse press', 1, {col}, {row}, True) on cell showing {ch!r}", e)
        problems = []
        for c, d in expect:
            try:
                f = c.base.focus
            except Exception as e:  # noqa: BLE001
                f = _exc(e)
            if f is not d.widget:
                problems.append(f"{c.kind}#{c.cid} focus is not its selectable child on the way to {leaf.name}")
        self.rec("click-focus", not problems, f"press at ({col},{row}) on {ch!r}: " + "; ".join(problems), "click-not-focused", nontrivial=bool(expect), cell=[col, row], shows=ch)

    def op_setfocus(self, cid, val):
        n = self.nodes[cid]
        cm = n.children()
        valid = is_valid_position(n.kind, val, len(n.kids or ()), tuple(cm))
        before = self.snapshot()
        err = None
        try:
            n.base.focus_position = val
        except Exception as e:  # noqa: BLE001
            err = e
        after = self.snapshot()
        lab = f"{n.kind}#{n.cid}.focus_position = {val!r}"
        if valid:
            if err is not None:
                self.raised("invalid-position", f"valid assignment {lab}", err, "valid-rejected")
            why = ""
            try:
                if n.base.focus_position != val or n.base.focus is not cm[val].widget:
                    why = f"{lab}: reads back {n.base.focus_position!r}"
            except Exception as e:  # noqa: BLE001
                why = f"{lab}: reading back raised {_exc(e)}"
            others = [c for c in before if c != cid and before[c] != after.get(c)]
            if not why and others:
                why = f"{lab} changed the focus of other containers {others}"
            self.rec("invalid-position", not why, why, "valid-assignment", valid=True)
            self.note_assignment([(n, val)], before)
            return
        if err is None:
            self.rec("invalid-position", False, f"{lab} (valid positions {valid_focus_positions(n.kind, len(n.kids or ()), tuple(cm))}) was accepted", f"invalid-accepted-{n.kind}", valid=False)
            raise Stop
        if not isinstance(err, IndexError):
            self.rec("invalid-position", False, f"{lab} raised {_exc(err)} instead of IndexError", f"invalid-raised-{type(err).__name__}-{n.kind}-{type(val).__name__}@{_where(err)}", valid=False,
                     exc=type(err).__name__, kind=n.kind, value_type=type(val).__name__, where=_where(err))
            raise Stop
        self.rec("invalid-position", after == before, f"{lab} raised IndexError but focus state changed", "invalid-changed-state", valid=False)

    # ------------------------------------------------------------------ private command maps
    @staticmethod
    def _edit_real(target, ref, edits):
        """The COMMAND_EDITS entries through the public mapping API of the real CommandMap `target`; `ref` (the
        reference dict before these edits) says which keys are there to delete."""
        for e in edits:
            if e[0] == "set":
                target[e[1]] = _Command(e[2])
            elif e[0] == "del":
                if e[1] in ref:
                    del target[e[1]]
            else:
                target.clear_command(_Command(e[1]))

    def op_cmap(self, cid, variant):
        """Container cid gets a private command map the documented way; 'vi' / 'hl' / 'clear': the copy is edited;
        'shared': the copy is left alone and the shared urwid.command_map is edited instead (the copy must not follow)."""
        n = self.nodes[cid]
        self.cmap_touched = True
        self.assigned = None
        try:
            private = n.base._command_map.copy()
            n.base._command_map = private
            n.cmap = dict(n.cmap if n.cmap is not None else self.shared_ref)
            if variant == "shared":
                target, ref, edits = urwid.command_map, self.shared_ref, COMMAND_EDITS["vi"]
            else:
                target, ref, edits = private, n.cmap, COMMAND_EDITS[variant]
            edits = [e for e in edits if e[0] != "del" or e[1] in ref]
            self._edit_real(target, ref, edits)
            apply_command_edits(ref, edits)
        except Exception as e:  # noqa: BLE001
            self.raised("command-map-private", f"private command map ({variant}) for {n.kind}#{n.cid}", e)

    def cmap_clause(self, when):
        problems = []

        def same(got, want):
            return (got is None and want is None) or (got is not None and want is not None and str(getattr(got, "value", got)) == want)

        try:
            bad = [k for k in PROBE_KEYS if not same(urwid.command_map[k], self.shared_ref.get(k))]
            if bad or sorted(urwid.command_map) != sorted(self.shared_ref):
                problems.append((f"the shared urwid.command_map changed: keys {bad or sorted(set(urwid.command_map) ^ set(self.shared_ref))} answer {[urwid.command_map[k] for k in bad]}, reference {[self.shared_ref.get(k) for k in bad]}", "shared-map-changed"))
            for n in self.containers():
                bad = [k for k in PROBE_KEYS if not same(n.base._command_map[k], self.ref_cmd(n, k))]
                if bad:
                    who = "with a private map" if n.cmap is not None else "without a private map"
                    problems.append((f"{n.kind}#{n.cid} ({who}): _command_map{bad} = {[n.base._command_map[k] for k in bad]}, reference {[self.ref_cmd(n, k) for k in bad]}",
                                     "private-map-wrong" if n.cmap is not None else "edit-leaked-into-another-container"))
            fresh = urwid.CommandMap()
            bad = [k for k in PROBE_KEYS if not same(fresh[k], DEFAULT_COMMANDS.get(k))]
            if bad or sorted(fresh) != sorted(DEFAULT_COMMANDS):
                problems.append((f"a CommandMap() created now does not hold the documented defaults: keys {bad}", "fresh-map-not-default"))
        except Exception as e:  # noqa: BLE001
            self.raised("command-map-private", "reading the command maps", e)
        seen = set()
        for why, sig in problems:
            if sig not in seen:
                seen.add(sig)
                self.rec("command-map-private", False, why, sig, when=when)
        if not problems:
            self.rec("command-map-private", True, nontrivial=True, when=when)

    # ------------------------------------------------------------------ an accepted assignment stays
    def below_listbox(self, node):
        """Is `node` strictly below a ListBox of the reference tree?"""
        way = self.path_to(node) if node is not self.root else []
        return any(c.kind == "ListBox" for c, _d in (way or []))

    def note_assignment(self, pairs, before=None):
        # Oracle note (reading adopted in the module docstring): a ListBox that was never rendered nor offered a key
        # still owes its deferred "first selectable" focus choice; naming the position it already reports changes
        # nothing (set_focus_path skips the assignment), so that choice may still move it -- not held to the clause.
        pairs = [(n, p) for n, p in pairs if not (n.kind == "ListBox" and n.cid not in self.lb_settled and before is not None and before.get(n.cid, ("", 0))[0] == repr(p))]
        # Oracle note (KF2, known finding): a ListBox completing a focus change calls move_cursor_to_coords on the item
        # it moves to, which may re-choose the focus inside that item -- positions below a ListBox are not held to
        # the clause, the ListBox's own position and everything above it are.
        # assignments accumulate (assigning one container's position leaves every other container's focus alone:
        # invalid-position checks that); a newer assignment to the same container replaces the older one
        new = [(n, p) for n, p in pairs if not self.below_listbox(n)]
        old = [(n, p) for n, p in (self.assigned or []) if all(n is not m for m, _q in new)]
        self.assigned = (old + new) or None

    def assignment_clause(self, what, when, offered=()):
        problems = []
        for n, p in self.assigned:
            cm = n.children()
            lab = f"{n.kind}#{n.cid}"
            try:
                got = n.base.focus_position
                if got != p:
                    problems.append((f"{lab}.focus_position was assigned {p!r}; after {what} it reads {got!r}", f"assignment-lost-{n.kind}-after-{when}"))
                elif n.base.focus is not cm[p].widget:
                    problems.append((f"{lab}.focus is not the child at the assigned position {p!r} after {what}", f"assignment-focus-differs-{n.kind}-after-{when}"))
            except Exception as e:  # noqa: BLE001
                problems.append((f"{lab}.focus_position raised {_exc(e)} after {what}", f"assignment-raised-{n.kind}-after-{when}"))
            for leaf in offered:
                way = self.path_to(leaf) or []
                step = [d for c, d in way if c is n]
                if step and step[0] is not cm.get(p):
                    problems.append((f"{what} was offered to leaf {leaf.name}, which is inside {lab} but not under its assigned focus position {p!r}", f"offered-off-assigned-path-{n.kind}"))
        seen = set()
        for why, sig in problems:
            if sig not in seen:
                seen.add(sig)
                self.rec("assignment-kept", False, why, sig, when=when)
        if not problems:
            self.rec("assignment-kept", True, nontrivial=True, when=when)

    def path_valid(self, path):
        n = self.root
        for p in path:
            if n.is_leaf():
                return False
            cm = n.children()
            if not is_valid_position(n.kind, p, len(n.kids or ()), tuple(cm)):
                return False
            n = cm[p]
        return True

    def first_invalid_type(self, path):
        """Type name of the first position of `path` that is not valid where it is used ("" when the path runs below a leaf)."""
        n = self.root
        for p in path:
            if n.is_leaf():
                return ""
            cm = n.children()
            if not is_valid_position(n.kind, p, len(n.kids or ()), tuple(cm)):
                return type(p).__name__
            n = cm[p]
        return ""

    def op_setpath(self, path):
        valid = self.path_valid(path)
        before = self.snapshot()
        if not valid:
            self.assigned = None  # an invalid path may have been applied up to the bad position before raising
        err = None
        try:
            self.root.base.set_focus_path(list(path))
        except Exception as e:  # noqa: BLE001
            err = e
        lab = f"set_focus_path({path!r})"
        if valid:
            if err is not None:
                self.raised("focus-path-roundtrip", f"valid {lab}", err, "valid-path-rejected")
            try:
                got = self.root.base.get_focus_path()
            except Exception as e:  # noqa: BLE001
                self.raised("focus-path-roundtrip", "get_focus_path()", e)
            self.rec("focus-path-roundtrip", got[: len(path)] == list(path), f"after {lab} get_focus_path() = {got!r}", "path-not-prefix", valid=True)
            pairs, n = [], self.root
            for pos in path:
                pairs.append((n, pos))
                n = n.children()[pos]
            self.note_assignment(pairs, before)
            return
        if err is None:
            self.rec("focus-path-roundtrip", False, f"invalid {lab} was accepted", "invalid-path-accepted", valid=False)
            raise Stop
        if not isinstance(err, IndexError):
            self.rec("focus-path-roundtrip", False, f"invalid {lab} raised {_exc(err)} instead of IndexError", f"invalid-path-raised-{type(err).__name__}-{self.first_invalid_type(path)}@{_where(err)}", valid=False,
                     exc=type(err).__name__, value_type=self.first_invalid_type(path), where=_where(err))
            raise Stop
        self.rec("focus-path-roundtrip", True, valid=False)

    def op_edit(self, op):
        n = self.nodes[op[1]]
        what = op[2]
        self.last_edit_state = len(self.ops_done) + 1
        try:
            if n.kind in LIST_KINDS:
                real = n.base.body if n.kind == "ListBox" else n.base.contents

                def item(kind):
                    c = self.build(kind, n.cctx)
                    return c, (c.widget if n.kind == "ListBox" else (c.widget, n.base.options()))

                if what == "ins":
                    c, it = item(op[4])
                    real.insert(op[3], it)
                    n.kids.insert(op[3], c)
                elif what == "del":
                    del real[op[3]]
                    del n.kids[op[3]]
                elif what == "clear":
                    del real[:]
                    del n.kids[:]
                elif what == "set":
                    c, it = item(op[4])
                    real[op[3]] = it
                    n.kids[op[3]] = c
                elif what == "slice":
                    new = [item(k) for k in op[5]]
                    real[op[3] : op[4]] = [it for _c, it in new]
                    n.kids[op[3] : op[4]] = [c for c, _it in new]
                elif what == "assign":
                    new = [item(k) for k in op[3]]
                    if n.kind == "ListBox":
                        real[:] = [it for _c, it in new]
                    else:
                        n.base.contents = [it for _c, it in new]
                    n.kids[:] = [c for c, _it in new]
                else:
                    raise ValueError(op)
            elif n.kind == "Frame":
                part, kind, how = op[3], op[4], op[5]
                c = self.build(kind, "box" if part == "body" else "flow") if kind is not None else None
                if how == "attr":
                    setattr(n.base, part, c.widget if c else None)
                elif c is None:
                    del n.base.contents[part]
                else:
                    n.base.contents[part] = (c.widget, None)
                n.parts[part] = c
            elif n.kind == "Overlay":
                c = self.build(op[3], "box")
                if op[4] == "attr":
                    n.base.top_w = c.widget
                    n.base._invalidate()
                else:
                    n.base.contents[1] = (c.widget, n.base.contents[1][1])
                n.parts[1] = c
                if n.base.contents[1][0] is not c.widget:
                    self.rec("focus-valid", False, f"Overlay#{n.cid}.contents[1] = (new, options) was dropped: contents[1][0] is still the old top widget", "overlay-top-edit-dropped")
                    raise Stop
        except (Stop, ValueError):
            raise
        except Exception as e:  # noqa: BLE001
            self.raised("focus-valid", f"edit {op[2:]!r} on {n.kind}#{n.cid}", e, "edit-raised")
        self.selectable_clause([n], f"right after {what}")

    # ------------------------------------------------------------------ state bookkeeping
    def after_state(self, initial=False):
        self.inv("after-op" if not initial else "constructed")
        if self.cmap_touched:
            self.cmap_clause("after-op")
        if initial:
            self.selectable_clause(self.containers(), "right after construction")
        if self.mode == "A":
            self.probe()
            self.inv("after-render")
            if self.assigned:
                self.assignment_clause("render(root, focus=True) and render(root, focus=False)", "render")
        try:
            p = list(self.root.base.get_focus_path()) if not self.root.is_leaf() else []
            self.paths.append((p, self.chain()[-1]))
        except Exception:  # noqa: BLE001
            self.paths.append(None)

    def final_checks(self):
        if self.mode == "B":
            self.probe()
            self.inv("after-render")
            if self.assigned:
                self.assignment_clause("the first render(root, focus=True) and render(root, focus=False)", "render")
        if not self.ops_done or self.ops_done[-1][0] == "edit":
            self.enumerable()  # positions depend on the structure only
        self.roundtrip()

    def enumerable(self):
        problems = []
        for n in self.containers():
            cm = n.children()
            nk, parts = len(n.kids or ()), tuple(cm)
            lab = f"{n.kind}#{n.cid}"
            want = iteration_positions(n.kind, nk, parts)
            try:
                got = list(iter(n.base))
                if got != want:
                    problems.append((f"list(iter({lab})) = {got!r}, valid positions {want!r}", f"iter-{n.kind}"))
            except BaseException as e:  # noqa: BLE001  (RecursionError included)
                problems.append((f"iter({lab}) raised {_exc(e)}", f"iter-raised-{n.kind}"))
            try:
                ln = len(n.base.contents)
                if ln != contents_len(n.kind, nk, parts):
                    problems.append((f"len({lab}.contents) = {ln}, expected {contents_len(n.kind, nk, parts)}", f"len-{n.kind}"))
            except BaseException as e:  # noqa: BLE001
                problems.append((f"len({lab}.contents) raised {_exc(e)}", f"len-raised-{n.kind}"))
            if n.kind == "Frame":
                try:
                    keys = sorted(n.base.contents)
                    if keys != sorted(parts):
                        problems.append((f"sorted({lab}.contents) = {keys!r}, parts present {sorted(parts)!r}", "keys-Frame"))
                except BaseException as e:  # noqa: BLE001
                    problems.append((f"iter({lab}.contents) raised {_exc(e)}", "keys-raised-Frame"))
                for part in parts:
                    try:
                        if n.base.contents[part][0] is not cm[part].widget:
                            problems.append((f"{lab}.contents[{part!r}] is not the {part} widget", "getitem-Frame"))
                    except BaseException as e:  # noqa: BLE001
                        problems.append((f"{lab}.contents[{part!r}] raised {_exc(e)} although the part is present", "getitem-raised-Frame"))
        seen = set()
        for why, sig in problems:
            if sig not in seen:
                seen.add(sig)
                self.rec("positions-enumerable", False, why, sig)
        if not problems:
            self.rec("positions-enumerable", True, nontrivial=bool(self.containers()))

    def roundtrip(self):
        if self.root.is_leaf():
            return
        i0 = self.last_edit_state
        if i0 >= len(self.paths) or self.paths[i0] is None:
            return
        path, leaf = self.paths[i0]
        try:
            self.root.base.set_focus_path(list(path))
            got = self.root.base.get_focus_path()
        except Exception as e:  # noqa: BLE001
            self.rec("focus-path-roundtrip", False, f"writing back the path {path!r} read after step {i0} raised {_exc(e)}", "roundtrip-raised", read_after_step=i0)
            return
        end = self.chain()[-1]
        ok = got == path and end is leaf
        self.rec(
            "focus-path-roundtrip",
            ok,
            f"path {path!r} (focus leaf {leaf.name or leaf.kind}) read after step {i0}; written back after step {len(self.ops_done)}: get_focus_path() = {got!r}, focus leaf {end.name or end.kind}",
            "roundtrip",
            nontrivial=bool(path),
            read_after_step=i0,
        )
        if ok and self.mode == "A":
            # the path was read in a settled state (after a render): restoring it must survive the next render too
            path_kinds = [n.kind for n in self.chain() if not n.is_leaf()]  # containers along the restored path, root first
            CanvasCache.clear()
            try:
                self.root.widget.render(ROOT_SIZE, focus=True)
                got2 = self.root.base.get_focus_path()
            except Exception:  # noqa: BLE001  (reported by render-focus-path)
                return
            finally:
                CanvasCache.clear()
            end2 = self.chain()[-1]
            # which container's focus did the render change (first level at which the paths differ), and does it sit
            # below a ListBox?  Part of the signature: one representative is kept per signature.
            d = next((i for i, (x, y) in enumerate(zip(path, got2)) if x != y), min(len(path), len(got2)))
            changed_kind = path_kinds[d] if d < len(path_kinds) else "leaf"
            below_listbox = "ListBox" in path_kinds[:d]
            self.rec(
                "focus-path-roundtrip",
                got2 == path and end2 is leaf,
                f"path {path!r} read after step {i0} (settled by a render) and written back after step {len(self.ops_done)}: after the next render get_focus_path() = {got2!r}, focus leaf {end2.name or end2.kind}",
                f"roundtrip-after-render-{changed_kind}-{'below-ListBox' if below_listbox else 'no-ListBox-above'}",
                changed_kind=changed_kind,
                below_listbox=below_listbox,
                nontrivial=bool(path),
                read_after_step=i0,
                path_kinds=path_kinds,
                path=path,
                path_after_render=got2,
            )

    # ------------------------------------------------------------------ driver for one history
    def execute(self, ops):
        """Apply ops; evaluate (record) only the last one, or the initial state when ops is empty.
        Returns True when the history ran to its end."""
        shared = urwid.command_map
        saved = {k: shared[k] for k in shared}
        try:
            self.recording = not ops
            self.after_state(initial=True)
            for i, op in enumerate(ops):
                self.recording = i == len(ops) - 1
                self.apply(op)
                self.ops_done.append(op)
                self.after_state()
            self.recording = True
            self.final_checks()
        except Stop:
            return False
        finally:
            # process-global state: the shared command map goes back to what it held (whoever changed it)
            if {k: shared[k] for k in shared} != saved:
                for k in list(shared):
                    del shared[k]
                for k, v in saved.items():
                    shared[k] = v
        return True

    # ------------------------------------------------------------------ operation alphabet in the current state
    def gen_ops(self, level):
        """level 'F': full alphabet, 'R': reduced alphabet, 'O': observations only (reduced keys and clicks)."""
        if level in ("K", "k", "S", "s"):
            return self.gen_ops_focus(level)
        if level == "M":  # a private command map for one container (every variant), nothing else
            return [["cmap", n.cid, v] for n in self.containers() if n.kind in CMAP_KINDS for v in ("vi", "hl", "clear", "shared")]
        if level == "J":  # reduced keys plus the characters the private maps bind
            return [["key", k] for k in [*KEYS_RED, *VI_KEYS]]
        full = level in ("F", "X")
        ops = [["key", k] for k in (KEYS_FULL if full else KEYS_RED)]
        if self.cmap_touched or level == "X":
            ops += [["key", k] for k in VI_KEYS]
        if level == "X":  # extended full alphabet (random histories over decorated leaves): private command maps as well
            ops += [["cmap", n.cid, v] for n in self.containers() if n.kind in CMAP_KINDS for v in ("vi", "hl", "clear", "shared")]
        if not full and any(n.kind == "ListBox" for n in self.containers()):
            ops += [["key", "page down"], ["key", "end"]]
        if self.mode == "A" and self.text:
            seen = {}
            for r, line in enumerate(self.text):
                for c, ch in enumerate(line):
                    if ch not in seen:
                        seen[ch] = (c, r)
                    elif full and ch not in (" ", "."):
                        seen[ch + "$"] = (c, r)  # last cell of the letter as well
            ops += [["click", c, r] for (c, r) in seen.values()]
        if level == "O":
            return ops
        conts = self.containers()
        for n in conts:
            cm = n.children()
            nk = len(n.kids or ())
            for p in valid_focus_positions(n.kind, nk, tuple(cm)):
                ops.append(["setfocus", n.cid, p])
            if n.kind in LIST_KINDS:
                inv = [-1, nk, None, "body", 0.5, [0]] if full else [nk, 0.5]
            elif n.kind == "Frame":
                missing = [p for p in ("header", "footer") if p not in cm]
                inv = ([0, "nope", None, [0]] if full else ["nope"]) + missing
            else:
                inv = [0, 2, None, "body", [1]] if full else [0]
            ops += [["setfocus", n.cid, v] for v in inv]
            ops += self.gen_edits(n, full, deco=level == "X")
        # focus paths: every root-to-leaf path of the reference tree, plus invalid continuations
        if not self.root.is_leaf():
            paths = []

            def walk(n, acc):
                cm = n.children()
                if n.is_leaf() or not cm:
                    paths.append(acc)
                    return
                for p, c in cm.items():
                    walk(c, [*acc, p])

            walk(self.root, [])
            paths = [p for p in paths if p]
            if not full:
                paths = paths[:1] + paths[-1:] if len(paths) > 1 else paths
            for p in paths:
                ops.append(["setpath", p])
            if paths:
                ops.append(["setpath", [*paths[-1], 0]])  # below a leaf / into an empty container
                if full:
                    ops.append(["setpath", [*paths[0][:-1], "nope"]])
                    ops.append(["setpath", [*paths[0][:-1], 7]])
        return ops

    def gen_ops_focus(self, level):
        """level 'K': every key of the full alphabet, nothing else; 'k': the keys that scroll a ListBox; 'S': every valid
        focus_position assignment on every container and set_focus_path of every root-to-leaf path (and of every proper
        prefix that ends at a container); 's': the focus_position assignments only."""
        if level == "K":
            return [["key", k] for k in KEYS_FULL] + ([["key", k] for k in VI_KEYS] if self.cmap_touched else [])
        if level == "k":
            return [["key", k] for k in ("down", "page down", "end")]
        ops = []
        paths = []

        def walk(n, acc):
            cm = n.children()
            if acc:
                paths.append(acc)
            if n.is_leaf():
                return
            for p in valid_focus_positions(n.kind, len(n.kids or ()), tuple(cm)):
                ops.append(["setfocus", n.cid, p])
            for p, c in cm.items():
                walk(c, [*acc, p])

        walk(self.root, [])
        return ops + ([["setpath", p] for p in paths] if level == "S" else [])

    def gen_edits(self, n, full, deco=False):
        out = []
        e = ["edit", n.cid]
        if deco and n.kind in LIST_KINDS:
            nk = len(n.kids)
            if nk < MAX_KIDS:
                out += [[*e, "ins", 0, "D"], [*e, "ins", nk, "W"], [*e, "ins", nk, "A"]]
            if nk:
                out += [[*e, "set", nk - 1, "D"], [*e, "set", 0, "A"], [*e, "slice", 0, nk, ["W", "D"]]]
            out += [[*e, "assign", ["D", "A"]], [*e, "assign", ["W"]]]
        if n.kind in LIST_KINDS:
            nk = len(n.kids)
            try:
                f = n.base.focus_position if nk else 0
                f = f if isinstance(f, int) and 0 <= f < nk else 0
            except Exception:  # noqa: BLE001
                f = 0
            if nk < MAX_KIDS:
                if full:
                    for i in range(nk + 1):
                        out += [[*e, "ins", i, "S"], [*e, "ins", i, "U"]]
                    out += [[*e, "ins", nk, "PS"], [*e, "ins", 0, "P0"]]
                else:
                    out += [[*e, "ins", f, "S"], [*e, "ins", nk, "U"]]
            if nk:
                if full:
                    out += [[*e, "del", i] for i in range(nk)]
                    out += [[*e, "set", i, k] for i in range(nk) for k in ("S", "U")]
                    out += [[*e, "slice", 0, 1, ["U", "S"]], [*e, "slice", 0, nk, ["S"]], [*e, "slice", 1, nk, []]]
                    if nk >= 2:
                        out += [[*e, "slice", 0, 2, []]]
                else:
                    out += [[*e, "del", f]] + ([[*e, "del", 0]] if f != 0 else [])
                    out += [[*e, "set", f, "U"]]
                out += [[*e, "clear"]]
            out += [[*e, "assign", ["U", "S"]]]
            if full:
                out += [[*e, "assign", ["U"]], [*e, "assign", []]]
        elif n.kind == "Frame":
            if full:
                for part in ("header", "footer"):
                    for how in ("attr", "contents"):
                        if n.parts[part] is not None:
                            out.append([*e, "part", part, None, how])
                        out += [[*e, "part", part, "S", how], [*e, "part", part, "U", how]]
                out += [[*e, "part", "body", "S", "attr"], [*e, "part", "body", "U", "contents"], [*e, "part", "header", "P0", "attr"]]
            else:
                if n.parts["header"] is not None:
                    out.append([*e, "part", "header", None, "contents"])
                if n.parts["footer"] is not None:
                    out.append([*e, "part", "footer", None, "attr"])
                out += [[*e, "part", "header", "S", "contents"], [*e, "part", "body", "U", "attr"]]
        elif n.kind == "Overlay":
            out += [[*e, "top", "S", "contents"], [*e, "top", "U", "contents"], [*e, "top", "S", "attr"], [*e, "top", "U", "attr"]] if full else [[*e, "top", "U", "attr"]]
        return out


# ----------------------------------------------------------------------------------------------
# scopes
def flat_trees():
    out = []
    for kind in ("Pile", "Columns", "GridFlow"):
        for n in range(4):
            for combo in itertools.product("SU", repeat=n):
                out.append([kind, list(combo)])
    for walker in ("F", "L"):
        for n in range(4):
            for combo in itertools.product("SU", repeat=n):
                out.append(["ListBox", walker, list(combo)])
    for body in "SU":
        for header in (None, "S", "U"):
            for footer in (None, "S", "U"):
                out.append(["Frame", body, header, footer])
    out += [["Overlay", "S"], ["Overlay", "U"]]
    return out


INNER = [
    ["Pile", ["S", "U"]],
    ["Pile", ["U"]],
    ["Pile", []],
    ["Columns", ["U", "S"]],
    ["Columns", []],
    ["GridFlow", ["S", "S", "U"]],
    ["GridFlow", []],
    ["ListBox", "F", ["U", "S"]],
    ["ListBox", "L", []],
    ["Frame", "S", "U", "S"],
    ["Overlay", "S"],
    ["Pile", ["E", "S"]],
    ["Columns", ["E", "E"]],
]


def nested_trees():
    out = []
    for inner in INNER:
        pats = [[inner], ["S", inner], [inner, "U"], ["U", inner, "S"]]
        for pat in pats:
            for kind in ("Pile", "Columns", "GridFlow"):
                out.append([kind, pat])
            for walker in ("F", "L"):
                out.append(["ListBox", walker, pat])
        out += [["Frame", inner, None, None], ["Frame", "S", inner, None], ["Frame", "U", None, inner], ["Frame", inner, "S", "U"], ["Overlay", inner]]
    return out


def depth3_trees():
    out = []
    mids = [t for i, t in enumerate(nested_trees()) if i % 7 == 0]
    for j, mid in enumerate(mids):
        wraps = [["Pile", ["U", mid]], ["Columns", [mid, "S"]], ["Frame", mid, "S", None], ["ListBox", "F", [mid, "S"]], ["Overlay", mid], ["GridFlow", [mid, "S"]], ["Frame", "S", None, mid]]
        out.append(wraps[j % len(wraps)])
        out.append(wraps[(j + 3) % len(wraps)])
    return out


def decorated_trees():
    """Flat Pile / Columns / GridFlow / ListBox over 1-3 leaves with at least one decorated leaf: every arrangement of
    1-3 leaves from {S, U, D} with a D (the decoration switches selectable off); every arrangement of 1-2 leaves from
    {S, U, W} with a W (... also below another decoration) and from {S, D, A} with an A (a decorated leaf that stays
    selectable), and three arrangements of 3 leaves for each of W and A."""
    combos = []
    for alpha, must, upto in (("SUD", "D", 3), ("SUW", "W", 2), ("SDA", "A", 2)):
        for n in range(1, upto + 1):
            for c in itertools.product(alpha, repeat=n):
                if must in c and list(c) not in combos:
                    combos.append(list(c))
    combos += [list(c) for c in ("SWS", "WSU", "UWS", "SDA", "ADS", "DAD")]
    out = []
    for kind in ("Pile", "Columns", "GridFlow"):
        out += [[kind, c] for c in combos]
    out += [["ListBox", "F", c] for c in combos]
    return out


# decorated leaves one level down (the demo of a container inside the focus of another), and next to containers
DECO_NESTED = [
    ["Pile", ["U", ["Columns", ["S", "D"]]]],
    ["Pile", [["Columns", ["D", "S", "W"]], "S"]],
    ["Columns", [["Pile", ["S", "D", "S"]], "D", "S"]],
    ["Columns", ["W", ["Pile", ["D", "A"]]]],
    ["GridFlow", ["D", ["Pile", ["S", "W"]], "S"]],
    ["ListBox", "F", ["D", ["Columns", ["S", "D", "A"]], "S"]],
    ["Frame", ["Columns", ["S", "D", "S"]], "D", ["Pile", ["W", "S"]]],
    ["Frame", "D", ["Columns", ["D", "S"]], None],
    ["Overlay", ["Pile", ["S", "D", "A"]]],
    ["Overlay", "D"],
]

# nestings for the private-command-map histories: two containers that read key bindings side by side / inside one another
CMAP_FLAT = [
    ["Pile", ["S", "S"]], ["Pile", ["S", "U", "S"]], ["Pile", ["U", "S"]], ["Pile", []],
    ["Columns", ["S", "S"]], ["Columns", ["S", "U", "S"]], ["Columns", ["D", "S"]],
    ["ListBox", "F", ["S", "S"]], ["ListBox", "L", ["S", "U", "S"]],
]
CMAP_NESTED = [
    ["Columns", [["Pile", ["S", "S"]], ["Pile", ["S", "S"]]]],
    ["Pile", [["Columns", ["S", "S"]], ["Columns", ["S", "U", "S"]]]],
    ["Pile", ["S", ["Pile", ["S", "S"]], "S"]],
    ["Columns", [["ListBox", "F", ["S", "S"]], ["Pile", ["S", "S"]]]],
    ["Frame", ["Pile", ["S", "S"]], ["Columns", ["S", "S"]], None],
    ["Overlay", ["Pile", ["S", ["Columns", ["S", "S"]]]]],
    ["GridFlow", [["Pile", ["S", "S"]], "S"]],
    ["ListBox", "F", [["Columns", ["S", "S"]], "S", ["Pile", ["S", "S"]]]],
]


def random_tree(r, depth, leaves=("S", "S", "U", "U", "E")):
    if depth == 0 or r.random() < 0.25:
        return r.choice(list(leaves))
    kind = r.choice(["Pile", "Columns", "GridFlow", "ListBox", "Frame", "Overlay"])
    if kind in ("Pile", "Columns", "GridFlow"):
        return [kind, [random_tree(r, depth - 1, leaves) for _ in range(r.randint(0, 3))]]
    if kind == "ListBox":
        return [kind, r.choice("FL"), [random_tree(r, depth - 1, leaves) for _ in range(r.randint(0, 3))]]
    if kind == "Frame":
        return [kind, random_tree(r, depth - 1, leaves), random_tree(r, depth - 1, leaves) if r.random() < 0.6 else None, random_tree(r, depth - 1, leaves) if r.random() < 0.6 else None]
    return [kind, random_tree(r, depth - 1, leaves)]


# ----------------------------------------------------------------------------------------------
# workers
class _Env:
    def __enter__(self):
        self.saved = (urwid_util._target_encoding, urwid_util._use_dec_special, str_util.get_byte_encoding())
        urwid.set_encoding("utf-8")
        self.w = warnings.catch_warnings()
        self.w.__enter__()
        warnings.simplefilter("ignore")
        CanvasCache.clear()
        return self

    def __exit__(self, *a):
        self.w.__exit__(*a)
        urwid_util._target_encoding, urwid_util._use_dec_special = self.saved[0], self.saved[1]
        str_util.set_byte_encoding(self.saved[2])
        CanvasCache.clear()


class Acc:
    """Per-task accumulator of check outcomes (merged in the parent)."""

    def __init__(self):
        self.ev = {}
        self.nt = {}
        self.fails = {}  # check -> {sig: [count, shortest detail]}
        self.samples = {}

    def add(self, h, ops, as_check=None):
        per = {}
        for check, ok, why, sig, nontrivial, extra in h.out:
            # informational clauses keep their own check name also inside the random histories, otherwise an
            # observation would turn into a violation of random-histories
            if as_check is not None and f"{ID}/{check}" not in INFORMATIONAL:
                sig, extra, check = f"{check}:{sig}", dict(extra, clause=check), as_check
            self.ev[check] = self.ev.get(check, 0) + 1
            per.setdefault(check, False)
            if nontrivial:
                per[check] = True
            if check not in self.samples:
                self.samples[check] = {"tree": h.tree, "mode": h.mode, "ops": ops}
            if not ok:
                d = {"tree": h.tree, "mode": h.mode, "ops": ops, "why": why, "sig": sig, **extra}
                slot = self.fails.setdefault(check, {}).setdefault(sig, [0, d])
                slot[0] += 1
                if len(json.dumps(d["ops"])) + len(json.dumps(d["tree"])) < len(json.dumps(slot[1]["ops"])) + len(json.dumps(slot[1]["tree"])):
                    slot[1] = d
        for check, nt in per.items():
            if nt:
                self.nt[check] = self.nt.get(check, 0) + 1

    def dump(self):
        return {"ev": self.ev, "nt": self.nt, "fails": self.fails, "samples": self.samples}


def run_one(tree, mode, ops):
    h = H(tree, mode)
    done = h.execute(ops)
    return h, done


def explore(acc, tree, mode, levels):
    """Every history of length <= len(levels); step i draws from the alphabet levels[i] (see H.gen_ops)."""
    count = 0

    def rec(prefix):
        nonlocal count
        h, done = run_one(tree, mode, prefix)
        acc.add(h, prefix)
        count += 1
        if not done or len(prefix) >= len(levels):
            return
        for op in h.gen_ops(levels[len(prefix)]):
            rec([*prefix, op])

    rec([])
    return count


def _task(t):
    kind = t[0]
    acc = Acc()
    n = 0
    with _Env():
        if kind == "explore":
            _k, tree, mode, levels = t
            n = explore(acc, tree, mode, levels)
        elif kind in ("random", "randomx"):
            _k, sd, ntrees, nhist, length = t
            r = rng(sd)
            # "randomx": decorated leaves among the leaves, private command maps and j/k among the operations
            alphabet = "F" if kind == "random" else "X"
            for _ in range(ntrees):
                tree = random_tree(r, 3) if kind == "random" else random_tree(r, 3, ("S", "S", "U", "E", "D", "D", "W", "A"))
                if isinstance(tree, str):
                    continue
                for _h in range(nhist):
                    mode = r.choice("AB")
                    ops = []
                    for _s in range(length):
                        h, done = run_one(tree, mode, ops)
                        if ops or not n:
                            acc.add(h, list(ops), "random-histories")
                        n += 1
                        if not done:
                            break
                        cand = h.gen_ops(alphabet)
                        # bias towards keys and clicks, which are few among the candidates
                        heads = [c for c in cand if c[0] in ("key", "click")]
                        ops = [*ops, r.choice(heads) if heads and r.random() < 0.45 else r.choice(cand)]
                    else:
                        h, done = run_one(tree, mode, ops)
                        acc.add(h, list(ops), "random-histories")
                        n += 1
    return acc.dump(), n


# nestings explored one step deeper in the quick tier (a contents edit in a child followed by a key/click in the parent)
PAIRS = [
    ["Pile", ["U", ["Pile", ["U"]]]],
    ["Columns", ["S", ["Pile", ["U"]]]],
    ["GridFlow", ["U", ["Pile", ["U"]]]],
    ["ListBox", "F", ["U", ["Columns", ["U"]]]],
    ["Frame", ["Pile", ["U"]], ["Columns", ["S"]], None],
]


# hand-picked nestings: a Frame squeezed so hard that header + footer ask for every row (render trims them to keep
# the body visible); a ListBox item with several focusable children
EXTRA = [
    ["Frame", ["Frame", "S", "U", "U"], ["Frame", "U", None, None], ["Frame", "U", None, None]],
    ["ListBox", "F", [["Pile", ["E", "S"]], "U"]],
]


# ListBoxes longer than their view (root: 12 rows; inside a flow container: BoxAdapter of 3 rows; Frame body: 10 rows;
# Overlay top: 9 rows), one-row leaves and taller items: the positions a focus assignment can name are mostly *not*
# among the widgets drawn around the old focus, so ListBox._set_focus_complete has to scroll.
LONG = [
    ["ListBox", "F", ["S", "U", "S", "S", "U", "E", "S", "S", "U", "S", "S", "S", "U", "S", "S", "U"]],
    ["ListBox", "L", ["U", "S", "S", "S", "U", "S", "S", "E", "S", "S", "U", "S", "S", "S"]],
    ["Pile", ["S", ["ListBox", "F", ["S", "U", "S", "S", "E", "S"]]]],
    ["Columns", [["Pile", [["ListBox", "L", ["S", "S", "U", "S", "S"]], "S"]], "S"]],
    ["Frame", ["ListBox", "F", ["S", "S", "U", "S", "S", "S", "S", "U", "S", "S", "S", "S", "S"]], "S", "U"],
    ["ListBox", "F", [["Pile", ["S", "E", "S"]], ["Pile", ["S", "S", "S"]], "U", ["Pile", ["U", "S", "S"]], ["Columns", ["S", "S"]], ["Pile", ["S", "S", "S"]], "S"]],
    ["Overlay", ["ListBox", "F", ["S", "S", "S", "U", "S", "S", "S", "S", "S", "U", "S", "S"]]],
]

# Frames whose header and footer ask for at least as many rows as the Frame has (root: 12 rows; in a flow container:
# BoxAdapter of 5 rows): frame_top_bottom trims them, render draws a trimmed part through a Filler, and keypress /
# mouse_event must agree with what is drawn.
SQUEEZED = [
    ["Frame", "S", ["Pile", ["S", "U", "S", "U", "S", "U", "S"]], ["Pile", ["U", "S", "U", "S", "U", "S"]]],
    ["Frame", ["ListBox", "F", ["S", "U", "S"]], ["Pile", ["E", "S", "S", "S", "S", "S"]], ["Pile", ["S", "S", "S", "S", "S", "S", "S"]]],
    ["Pile", ["S", ["Frame", "S", ["Pile", ["S", "S", "S"]], ["Pile", ["U", "S", "S"]]]]],
    ["Frame", "U", ["Pile", ["S"] * 13], None],
    ["Frame", "S", None, ["Columns", [["Pile", ["S"] * 12], "S"]]],
]


def _small_flat(quick=False):
    out = []
    for t in flat_trees():
        if t[0] == "Frame":
            if t[1] == "S" and not (quick and "U" in t[2:]):
                out.append(t)
        elif t[0] == "Overlay":
            out.append(t)
        elif len(t[-1]) <= 2 and not (quick and t[0] == "ListBox" and t[1] == "L"):
            out.append(t)
    return out


def _tasks(tier, seed):
    """(task, estimated cost) list and the bound description."""
    tasks = []
    flat, small, nested, d3 = flat_trees(), _small_flat(), nested_trees(), depth3_trees()
    deco = decorated_trees()

    def ex(tree, mode, levels):
        size = len(json.dumps(tree)) // 20
        cost = 1
        for lvl in levels:
            cost *= {"F": 60 + 25 * size, "X": 80 + 30 * size, "R": 28 + 8 * size, "O": 10 + size, "K": 10, "J": 8, "k": 3, "S": 6 + 6 * size, "s": 3 + 3 * size, "M": 4 + 4 * size}[lvl]
        tasks.append((("explore", tree, mode, levels), cost * (1 + size)))

    if tier == "quick":
        small = _small_flat(quick=True)
        for t in flat:
            for mode in "AB":
                ex(t, mode, "F")
        for i, t in enumerate(small):
            ex(t, "AB"[i % 2], "RR")
        for i, t in enumerate(PAIRS):
            ex(t, "BA"[i % 2], "RR")
        for i, t in enumerate(nested):
            ex(t, "AB"[i % 2], "F" if i % 4 == 0 else "R")
        for i, t in enumerate(d3[::3]):
            ex(t, "AB"[i % 2], "R")
        for t in EXTRA:
            ex(t, "A", "F")
        for i, t in enumerate(LONG):
            for mode in "AB":
                ex(t, mode, "SK")
            ex(t, "AB"[i % 2], "ksK")
        for i, t in enumerate(SQUEEZED):
            for mode in "AB":
                ex(t, mode, "F")
            ex(t, "AB"[i % 2], "SK")
        for i in range(16):
            tasks.append((("random", seed * 1000 + i, 3, 3, 4), 2000))
        for i, t in enumerate(deco):
            if len(t[-1]) <= 2:
                ex(t, "AB"[i % 2], "X")
            else:
                ex(t, "A", "O")
            ex(t, "BA"[i % 2], "sK")
        for i, t in enumerate(DECO_NESTED):
            ex(t, "AB"[i % 2], "X")
            ex(t, "BA"[i % 2], "SK")
        for i, t in enumerate(CMAP_FLAT):
            for mode in "AB":
                ex(t, mode, "MJ")
            ex(t, "AB"[i % 2], "MsJ")
        for i, t in enumerate(CMAP_NESTED):
            for mode in "AB":
                ex(t, mode, "MJ")
            if i < 2:
                ex(t, "AB"[i % 2], "MsJ")
            if i == 0:
                ex(t, "B", "MMJ")
        for i, t in enumerate(nested[::9]):
            ex(t, "AB"[i % 2], "MJ")
        for i in range(8):
            tasks.append((("randomx", seed * 1000 + 500 + i, 3, 3, 4), 2000))
        bound = (
            f"{len(flat)} flat containers (0-3 leaves S/U; Frame with/without header/footer; Overlay): every single operation of the full alphabet, modes A and B; "
            f"{len(small)} of them (<=2 leaves) and {len(PAIRS)} two-level nestings: all histories of length 2 over the reduced alphabet, one mode each; "
            f"{len(nested)} two-level nestings (13 inner containers x 4 sibling patterns x 5 list containers, Frame parts, Overlay): every single operation (full alphabet for every fourth, reduced otherwise); "
            f"{len(d3[::3])} three-level nestings: reduced single operations; {len(EXTRA)} hand-picked nestings: full single operations; {len(LONG)} nestings with a ListBox longer than its view (5-16 items, one-row and taller): every focus_position assignment / set_focus_path followed by every key, both modes, and a scrolling key (down, page down, end), a focus_position assignment and any key, one mode; {len(SQUEEZED)} Frames whose header + footer rows fill the frame (trimmed parts): every single operation of the full alphabet in both modes, every assignment followed by every key in one mode; 48 seeded random depth-3 trees x 3 histories of length 4 (non-exhaustive); "
            f"{len(deco)} flat Pile/Columns/GridFlow/ListBox over 1-3 leaves with a decorated leaf (D = WidgetDisable(selectable), W = AttrMap(WidgetDisable(selectable)): unselectable children with a selectable base_widget; A = AttrMap(selectable)) and {len(DECO_NESTED)} nestings with such leaves: every single operation of the extended alphabet (full alphabet + j/k + private command maps + edits inserting D/W/A) in one mode (3-leaf flat ones: keys and clicks only), every focus_position assignment followed by every key in the other mode; "
            f"private command maps (cmap: one Pile/Columns/ListBox gets w._command_map.copy(), variants vi / hl / clear edit the copy, shared edits the shared map instead): {len(CMAP_FLAT)} flat and {len(CMAP_NESTED)} two-container nestings: cmap then every reduced key or j/k in both modes; the flat ones and two nestings: cmap + focus_position assignment + key in one mode; one nesting: two cmaps + key; every ninth two-level nesting ({len(nested[::9])}): cmap + key; 24 seeded random depth-3 trees over leaves S/U/E/D/W/A x 3 histories of length 4 over the extended alphabet (non-exhaustive)"
        )
    else:
        for t in flat:
            for mode in "AB":
                ex(t, mode, "FR")
        for i, t in enumerate(small):
            ex(t, "AB"[i % 2], "RRO")
        for i, t in enumerate(PAIRS):
            for mode in "AB":
                ex(t, mode, "FR")
        for i, t in enumerate(nested):
            for mode in "AB":
                ex(t, mode, "F")
            if i % 3 == 0:
                ex(t, "AB"[(i // 3) % 2], "RO")
        for i, t in enumerate(d3):
            for mode in "AB":
                ex(t, mode, "F")
            if i % 4 == 0:
                ex(t, "AB"[(i // 4) % 2], "RO")
        for t in EXTRA:
            for mode in "AB":
                ex(t, mode, "FR")
        for i, t in enumerate(LONG):
            for mode in "AB":
                ex(t, mode, "kSK")
            ex(t, "AB"[i % 2], "KsK")
            ex(t, "BA"[i % 2], "ssK")
        for i, t in enumerate(SQUEEZED):
            ex(t, "AB"[i % 2], "FR")
            ex(t, "BA"[i % 2], "F")
            for mode in "AB":
                ex(t, mode, "SK")
        for i in range(48):
            tasks.append((("random", seed * 1000 + i, 10, 5, 6), 10**6))
        for i, t in enumerate(deco):
            for mode in "AB":
                ex(t, mode, "XR" if len(t[-1]) <= 2 else "X")
                ex(t, mode, "sK")
        for i, t in enumerate(DECO_NESTED):
            for mode in "AB":
                ex(t, mode, "XR")
                ex(t, mode, "SK")
        for i, t in enumerate(CMAP_FLAT + CMAP_NESTED):
            for mode in "AB":
                ex(t, mode, "MsJ")
                ex(t, mode, "MMJ")
            ex(t, "AB"[i % 2], "MR")
        for i, t in enumerate(nested):
            ex(t, "AB"[i % 2], "MJ")
        for i in range(24):
            tasks.append((("randomx", seed * 1000 + 500 + i, 10, 5, 6), 10**6))
        bound = (
            f"{len(flat)} flat containers (0-3 leaves S/U; Frame parts; Overlay): all histories of length <=2 (full alphabet, then reduced), modes A and B; "
            f"{len(small)} of them (<=2 leaves): all histories of two reduced-alphabet operations followed by one key or click, one mode each; {len(PAIRS)} two-level nestings: length <=2 (full, reduced), both modes; "
            f"{len(nested)} two-level nestings: every single operation of the full alphabet in both modes, every third one also every reduced operation followed by a key or click; "
            f"{len(d3)} three-level nestings: single operations (full) in both modes, every fourth also reduced operation + key/click; {len(EXTRA)} hand-picked nestings: length <=2; {len(LONG)} nestings with a ListBox longer than its view: scrolling key + assignment + key in both modes, any key + focus_position assignment + key and two focus_position assignments + key in one mode each; {len(SQUEEZED)} Frames with trimmed header/footer: length <=2 (full, reduced) in one mode, single operations (full) in the other, assignment + key in both; 480 seeded random depth-3 trees x 5 histories of length 6 (non-exhaustive); "
            f"{len(deco)} flat containers with a decorated leaf (D/W unselectable with a selectable base_widget, A selectable) and {len(DECO_NESTED)} nestings with such leaves: extended-alphabet operation (+ a reduced one for <=2 leaves and the nestings), and every assignment + key, both modes; private command maps on {len(CMAP_FLAT) + len(CMAP_NESTED)} trees: cmap + assignment + key and two cmaps + key in both modes, cmap + any reduced operation in one; every two-level nesting: cmap + key; 240 seeded random depth-3 trees over S/U/E/D/W/A x 5 histories of length 6, extended alphabet (non-exhaustive)"
        )
    return tasks, bound


def run(tier="quick", seed=0):
    t0 = time.time()
    tasks, bound = _tasks(tier, seed)
    tasks = [t for t, _cost in sorted(tasks, key=lambda tc: -tc[1])]  # longest first
    procs = 16
    ctx = multiprocessing.get_context("fork")
    cpu0 = sum(os.times()[:4])
    with ctx.Pool(procs) as pool:
        results = pool.map(_task, tasks, chunksize=1)
    cpu_s = round(sum(os.times()[:4]) - cpu0, 1)
    checks = {}
    for name in RULES:
        c = Check(f"{ID}/{name}", RULES[name], exhaustive=name != "random-histories", bound=bound + f"; root size {ROOT_SIZE}")
        c.t0 = t0
        checks[name] = c
    fails = {}
    histories = 0
    for dump, n in results:
        histories += n
        for name, v in dump["ev"].items():
            checks[name].evaluations += v
        for name, v in dump["nt"].items():
            base = len(checks[name].nontrivial)
            checks[name].nontrivial.update(range(base, base + v))
        for name, v in dump["samples"].items():
            if len(checks[name].samples) < 3:
                checks[name].samples.append(v)
        for name, bysig in dump["fails"].items():
            for sig, (cnt, d) in bysig.items():
                slot = fails.setdefault(name, {}).setdefault(sig, [0, d])
                slot[0] += cnt
                if len(json.dumps([d["tree"], d["ops"]])) < len(json.dumps([slot[1]["tree"], slot[1]["ops"]])):
                    slot[1] = d
    out = []
    for name, c in checks.items():
        res = c.result()
        bysig = fails.get(name, {})
        # one (smallest) representative per failure signature, most frequent first
        res["failures"] = [dict(d, occurrences=cnt) for _sig, (cnt, d) in sorted(bysig.items(), key=lambda kv: -kv[1][0])][:60]  # one per signature; random-histories prefixes the clause, so it can exceed 20
        res["failure_signatures"] = {sig: cnt for sig, (cnt, _d) in bysig.items()}
        res["histories"] = histories
        res["cpu_s_all_checks"] = cpu_s
        out.append(res)
    return {"checks": out, "bound": bound + f"; root size {ROOT_SIZE}; {histories} histories"}


def replay(check_name, case):
    name = check_name.split("/", 1)[-1]
    with _Env():
        h, done = run_one(case["tree"], case["mode"], case["ops"])
    want_sig = case.get("sig")
    if name == "random-histories":
        name = case.get("clause", "")
        want_sig = want_sig.split(":", 1)[-1] if want_sig else want_sig
    hits = [(why, sig) for check, ok, why, sig, _nt, _extra in h.out if check == name and not ok and (not want_sig or sig == want_sig)]
    if hits:
        return {"outcome": "confirmed", "detail": {"why": hits[0][0], "sig": hits[0][1], "tree": case["tree"], "mode": case["mode"], "ops": case["ops"]}}
    return {"outcome": "not-reproduced", "detail": {"completed": done, "recorded": [(c, ok, sig) for c, ok, _w, sig, _n, _e in h.out][:40]}}
