"""Sanity of the C13 harness: break SelectEventLoop *in this process only* (never the files in /repo) and
see the corresponding clause of the oracle go red.  Run:  cd /verif && PYTHONPATH=/verif .venv/bin/python -m bounded._c13_mut
Expected: baseline all 0; every mutant has a non-zero count in the clause named in its label."""
from __future__ import annotations

import inspect
import textwrap

import bounded.C13 as b
from spec.evloop_model import CLAUSES, judge

from urwid.event_loop import select_loop as sl

L = sl.SelectEventLoop
ORIG = {k: getattr(L, k) for k in ("remove_alarm", "alarm", "_entering_idle", "_loop", "run", "remove_enter_idle", "remove_watch_file")}


def scripts():
    return list(b.gen_pre_removal("quick")) + list(b.gen_k1("quick"))[:4000] + list(b.gen_passive("quick"))[:600] + list(b.gen_exc_types(["exit", "value"]))


def red(scens):
    out = dict.fromkeys(CLAUSES, 0)
    for s in scens:
        r = judge(b.run_virtual("select", s))
        for c in CLAUSES:
            out[c] += bool(r["viol"][c])
    return out


def patched_loop(old, new):
    src = textwrap.dedent(inspect.getsource(ORIG["_loop"]))
    assert old in src, old
    ns = {}
    exec(compile("from __future__ import annotations\n" + src.replace(old, new), "<mutant>", "exec"), sl.__dict__, ns)  # noqa: S102
    return ns["_loop"]


def main():
    scens = scripts()
    print("baseline", red(scens))

    def mut(name, **kw):
        for k, v in kw.items():
            setattr(L, k, v)
        try:
            print(name, red(scens))
        finally:
            for k, v in ORIG.items():
                setattr(L, k, v)

    mut("[remove] remove_alarm always True", remove_alarm=lambda self, h: (ORIG["remove_alarm"](self, h), True)[1])
    mut("[alarm] alarm fires 0.5 early", alarm=lambda self, seconds, cb: ORIG["alarm"](self, seconds - 0.5, cb))

    def idle_skip(self):
        hs = list(self._idle_callbacks)
        for h in hs[:-1] if len(hs) > 1 else hs:
            cb = self._idle_callbacks.get(h)
            if cb:
                cb()

    mut("[idle] idle pass skips the last of two", _entering_idle=idle_skip)

    def run_swallow(self):
        try:
            ORIG["run"](self)
        except ValueError:
            pass

    mut("[exc] run swallows ValueError", run=run_swallow)

    def run_wrap(self):
        try:
            ORIG["run"](self)
        except ValueError as e:
            raise ValueError("wrapped") from e

    mut("[exc] run raises a different object", run=run_wrap)
    mut("[remove,idle] remove_enter_idle does not remove", remove_enter_idle=lambda self, h: h in self._idle_callbacks)
    mut("[watch] fix 11b1101 reverted (ready record served without re-checking the watch)", _loop=patched_loop("if self._watch_files.get(record.fileobj) is not record.data:\n            continue", "if False:\n            continue"))
    mut("[alarm] pops the last heap element instead of the minimum", _loop=patched_loop("tm, _tie_break, alarm_callback = heapq.heappop(self._alarms)", "tm, _tie_break, alarm_callback = self._alarms.pop()"))
    mut("[idle] never runs the idle pass", _loop=patched_loop("self._entering_idle()\n", "pass\n"))


if __name__ == "__main__":
    main()
